"""Contract objects (sidecar specifications on the real functions of /repo) and their registry.

Contract expressions are Python expressions (strings).  They are never executed by the prover: they are parsed with
`ast` and evaluated by the same symbolic evaluator that executes the function body, extended with
  result            the return value (for generators: the list of yielded values)
  old(e)            e evaluated in the pre-state
  all(... for x in seq) / any(...)   bounded quantifiers (over range(lo, hi) or over a list expression)
  spec functions    registered in vf/specs.py (SMT function + definitional axioms + executable Python body)
The same strings are compiled by vf/monitor.py into run-time checks on CPython (bounded stand-in and replay).
"""


class Loop:
    def __init__(self, invariant=(), decreases=None, lemmas=(), assume_after=(), havoc_fields=None):
        self.invariant = list(invariant)
        self.decreases = decreases
        self.lemmas = list(lemmas)  # spec expressions assumed (instances of axioms / proved lemmas) in the body
        self.assume_after = list(assume_after)
        self.havoc_fields = havoc_fields


class Contract:
    def __init__(
        self,
        target,
        params=None,
        returns=None,
        requires=(),
        ensures=(),
        raises=None,
        raises_iff=False,
        modifies=(),
        loops=None,
        props=(),
        inline=False,
        trusted=False,
        locals=None,
        family=None,
        lemmas=None,
        pure=False,
        yields=None,
        note="",
        fs_modifies=(),
        ghost=None,
        exit_lemmas=(),
        max_paths=4000,
        entry_lemmas=(),
        logs=False,
        replay=None,
        out_params=None,
        bounded=None,
        ghost_init=None,
        ghost_updates=None,
        exposes=None,
        defines=(),
        exit_asserts=(),
        stop_at=None,
        start_at=None,
        volatile=(),
        body_of_loop=None,
        region=None,
        cuts=None,
        slices=1,
    ):
        self.target = target
        # several region contracts may sit on one function: the registry key is then "<function>#<region name>"
        self.region = region
        self.key = target if region is None else f"{target}#{region}"
        self.params = dict(params or {})
        self.returns = returns
        self.requires = list(requires)
        self.ensures = list(ensures)  # str or (str, [props])
        self.raises = dict(raises or {})  # ExcName -> condition over pre-state (necessary condition)
        self.raises_iff = raises_iff  # the conditions are also sufficient (normal return => none of them held)
        self.modifies = list(modifies)
        self.loops = dict(loops or {})
        self.props = list(props)
        self.inline = inline
        self.trusted = trusted  # assumed, not verified (library or out-of-reach function): listed in evidence
        self.locals = dict(locals or {})
        self.family = family  # for methods on a class hierarchy: base class whose concrete subclasses are enumerated
        self.lemmas = dict(lemmas or {})  # anchor ('line:<text>' ) -> [spec exprs] assumed there
        self.pure = pure
        self.yields = yields
        self.note = note
        self.fs_modifies = list(fs_modifies)
        self.ghost = dict(ghost or {})
        self.exit_lemmas = list(exit_lemmas)
        self.entry_lemmas = list(entry_lemmas)
        self.max_paths = max_paths
        self.logs = logs
        self.replay = replay
        self.ghost_init = dict(ghost_init or {})  # ghost local -> (type, initial value expr)
        self.ghost_updates = dict(ghost_updates or {})  # statement anchor -> [(ghost local, new value expr)]
        self.exposes = dict(exposes or {})  # callee local -> type; visible in ensures as _x_<name> (existential for callers)
        self.defines = list(defines)  # naming clauses (result == spec_fn(...)): assumed by callers, not checked
        self.exit_asserts = list(exit_asserts)  # cuts: proved from the path condition at exit, then used for the ensures
        self.start_at = start_at  # region contract: execution starts at the first top-level statement starting with this text;
        # parameters and the locals declared in `locals=` are arbitrary values of their types there
        self.slices = slices  # parallelism hint: the function's obligations are discharged by this many worker processes
        self.cuts = dict(cuts or {})  # statement anchor -> [exprs]: proved at that point (after the statement), then available as facts
        self.body_of_loop = body_of_loop  # region contract on ONE iteration of the loop with this ordinal (all locals arbitrary)
        self.volatile = list(volatile)  # field keys written concurrently by another thread: every read is havocked under the rely
        # condition 'None until set once, then stable'
        self.stop_at = stop_at  # region contract: the function is cut before the first statement starting with this text
        self.bounded = bounded  # reason string: contract kept for run-time monitors only (not proved)
        self.out_params = dict(out_params or {})  # param name -> spec of its value at exit (in-place mutation)


class Registry:
    def __init__(self):
        self.contracts = {}
        self.field_types = {}  # 'Class.field' or 'field' -> type string
        self.lemmas = {}

    def add(self, c):
        if c.key in self.contracts:
            raise ValueError(f"duplicate contract for {c.key}")
        self.contracts[c.key] = c
        return c

    def fields(self, **kw):
        self.field_types.update(kw)

    def get(self, qualname):
        return self.contracts.get(qualname)


REG = Registry()


def contract(target, **kw):
    return REG.add(Contract(target, **kw))


def fields(d):
    REG.field_types.update(d)


class SpecLemma:
    """a lemma over the contract vocabulary: proved once in an arbitrary state (symbolic heap), instantiated by name
    inside contract clauses as  name(args)  ==  (requires => ensures)[args]"""

    def __init__(self, name, params, requires, ensures, props=()):
        self.name = name
        self.params = dict(params)
        self.requires = list(requires)
        self.ensures = list(ensures)
        self.props = list(props)


def lemma(name, **kw):
    REG.lemmas[name] = SpecLemma(name, **kw)
    return REG.lemmas[name]
