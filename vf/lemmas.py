"""Proof obligations of the lemma schemas used by the contracts (vf/specs.py L_*): induction written out by hand,
base and step each one SMT query in which the induction hypothesis and the definitional unfoldings are supplied as
assumptions.  Definitions (total, well-founded recursion on the string):
  val58("") = 0,  val58(c+s) = idx58(c)*pow58(len s) + val58(s)   (|c| = 1)
  ok58("")  = true, ok58(c+s) = idx58(c) >= 0 and ok58(s)
  pow58(0) = 1, pow58(n+1) = 58*pow58(n);   ones(0) = "", ones(n+1) = "1" + ones(n);  idx58("1") = 0
"""
import time

import z3

from .specs import idx58, ok58, ones, pow58, val58

S = z3.StringSort()


def D_val(c, s):
    cs = z3.Concat(c, s)
    return z3.And(val58(cs) == idx58(c) * pow58(z3.Length(s)) + val58(s), ok58(cs) == z3.And(idx58(c) >= 0, ok58(s)))


D_empty = z3.And(val58(z3.StringVal("")) == 0, ok58(z3.StringVal("")))


def D_pow(n):
    return z3.And(pow58(0) == 1, z3.Implies(n >= 0, pow58(n + 1) == 58 * pow58(n)))


def lemma_obligations():
    obs = []
    c, d, t, s, b = z3.Strings("c d t s b")
    n, a, k = z3.Ints("n a k")
    one = z3.StringVal("1")
    # --- snoc: val58(s+c) = 58*val58(s) + idx58(c); ok58(s+c) = ok58(s) and idx58(c) >= 0       induction on s
    obs.append(
        (
            "L_val58_snoc/base",
            [z3.Length(c) == 1, D_empty, D_val(c, z3.StringVal("")), D_pow(z3.IntVal(0))],
            z3.And(
                val58(z3.Concat(z3.StringVal(""), c)) == 58 * val58(z3.StringVal("")) + idx58(c),
                ok58(z3.Concat(z3.StringVal(""), c)) == z3.And(ok58(z3.StringVal("")), idx58(c) >= 0),
            ),
        )
    )
    tc = z3.Concat(t, c)
    dt = z3.Concat(d, t)
    obs.append(
        (
            "L_val58_snoc/step",
            [
                z3.Length(c) == 1,
                z3.Length(d) == 1,
                D_val(d, tc),
                D_val(d, t),
                D_pow(z3.Length(t)),
                z3.Length(tc) == z3.Length(t) + 1,
                # induction hypothesis for the shorter string t
                val58(tc) == 58 * val58(t) + idx58(c),
                ok58(tc) == z3.And(ok58(t), idx58(c) >= 0),
                z3.Concat(dt, c) == z3.Concat(d, tc),
            ],
            z3.And(
                val58(z3.Concat(dt, c)) == 58 * val58(dt) + idx58(c),
                ok58(z3.Concat(dt, c)) == z3.And(ok58(dt), idx58(c) >= 0),
            ),
        )
    )
    # --- ones: len(ones(n)) = n, ok58(ones(n)+s) = ok58(s), val58(ones(n)+s) = val58(s)              induction on n
    D_ones0 = ones(0) == z3.StringVal("")
    D_ones = ones(n + 1) == z3.Concat(one, ones(n))
    obs.append(
        (
            "L_ones/base",
            [D_ones0],
            z3.And(z3.Length(ones(0)) == 0, ok58(z3.Concat(ones(0), s)) == ok58(s), val58(z3.Concat(ones(0), s)) == val58(s)),
        )
    )
    os_ = z3.Concat(ones(n), s)
    obs.append(
        (
            "L_ones/step",
            [
                n >= 0,
                D_ones,
                idx58(one) == 0,
                D_val(one, os_),
                z3.Length(ones(n)) == n,
                ok58(os_) == ok58(s),
                val58(os_) == val58(s),
                z3.Concat(ones(n + 1), s) == z3.Concat(one, os_),
            ],
            z3.And(
                z3.Length(ones(n + 1)) == n + 1,
                ok58(z3.Concat(ones(n + 1), s)) == ok58(s),
                val58(z3.Concat(ones(n + 1), s)) == val58(s),
            ),
        )
    )
    # --- pow58 monotone: 0 <= a <= b => pow58(a) <= pow58(b)         induction on k = b - a, with pow58 >= 1
    obs.append(("L_pow58_pos/base", [D_pow(z3.IntVal(0))], pow58(0) >= 1))
    obs.append(("L_pow58_pos/step", [n >= 0, D_pow(n), pow58(n) >= 1], pow58(n + 1) >= 1))
    obs.append(("L_pow58_mono/base", [a >= 0], pow58(a) <= pow58(a)))
    obs.append(
        (
            "L_pow58_mono/step",
            [a >= 0, k >= 0, D_pow(a + k), pow58(a + k) >= 1, pow58(a) <= pow58(a + k)],
            pow58(a) <= pow58(a + k + 1),
        )
    )
    # --- ok58 split: ok58(a+b) = ok58(a) and ok58(b)                 induction on a
    obs.append(
        (
            "L_ok58_split/base",
            [D_empty],
            ok58(z3.Concat(z3.StringVal(""), b)) == z3.And(ok58(z3.StringVal("")), ok58(b)),
        )
    )
    tb = z3.Concat(t, b)
    obs.append(
        (
            "L_ok58_split/step",
            [z3.Length(d) == 1, D_val(d, tb), D_val(d, t), ok58(tb) == z3.And(ok58(t), ok58(b)), z3.Concat(dt, b) == z3.Concat(d, tb)],
            ok58(z3.Concat(dt, b)) == z3.And(ok58(dt), ok58(b)),
        )
    )
    # --- arithmetic
    x, y = z3.Ints("x y")
    obs.append(("L_mul_ge", [x >= 1, y >= 0], x * y >= y))
    return obs


def run():
    res = []
    for name, hyps, goal in lemma_obligations():
        s = z3.Solver()
        s.set("timeout", 10000)
        s.add(hyps)
        s.add(z3.Not(goal))
        t = time.time()
        r = s.check()
        res.append(
            {
                "name": "lemma:" + name,
                "kind": "lemma",
                "props": ["C01", "C07"],
                "verdict": "discharged" if r == z3.unsat else ("refuted" if r == z3.sat else "unknown"),
                "backend": "z3",
                "time": round(time.time() - t, 3),
                "line": None,
                "reason": None if r == z3.unsat else str(r),
                "trace": [],
            }
        )
    return res


if __name__ == "__main__":
    for r in run():
        print(r["verdict"], r["name"], r["time"])
