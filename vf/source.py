"""Mechanical extraction of the functions under contract from the repository's working tree.

Every run re-reads <REPO>/ascmhl/**/*.py with `ast`; nothing is transcribed by hand.  The verified text is the
AST of the function as it is on disk; `segment_hash` records which text that was.
What extraction drops is decided in the symbolic executor (see pyvc.Exec.DROPPED_CALLS) and reported in evidence.
"""
import ast
import hashlib
import os

from . import REPO


class FuncInfo:
    def __init__(self, qualname, module, cls, node, src, filename):
        self.qualname = qualname  # e.g. ascmhl.hasher.C4.string_digest
        self.module = module  # ascmhl.hasher
        self.cls = cls  # 'C4' or None
        self.node = node
        self.src = src
        self.filename = filename
        self.decorators = [ast.unparse(d) for d in node.decorator_list]
        self.kind = "function"
        for d in self.decorators:
            if d == "classmethod":
                self.kind = "classmethod"
            elif d == "staticmethod":
                self.kind = "staticmethod"
            elif d == "property":
                self.kind = "property"
        if cls and self.kind == "function":
            self.kind = "method"
        self.is_generator = any(isinstance(n, (ast.Yield, ast.YieldFrom)) for n in ast.walk(node))

    @property
    def sha(self):
        return hashlib.sha256(self.src.encode()).hexdigest()[:16]


class ClassInfo:
    def __init__(self, name, module, node, bases):
        self.name = name
        self.module = module
        self.node = node
        self.bases = bases  # base names as written
        self.methods = {}  # name -> FuncInfo
        self.attrs = {}  # class-level constant assignments name -> ast expr
        self.annotations = {}  # name -> annotation source


class ModuleInfo:
    def __init__(self, name, path, tree, text):
        self.name = name
        self.path = path
        self.tree = tree
        self.text = text
        self.funcs = {}
        self.classes = {}
        self.consts = {}  # module-level NAME = <literal>
        self.imports = {}  # local name -> ('module', modname) | ('name', modname, attr)


class Repo:
    def __init__(self, root=None):
        self.root = root or REPO
        self.modules = {}
        self.funcs = {}  # qualname -> FuncInfo
        self.classes = {}  # short class name -> ClassInfo  (class names are unique in ascmhl)
        self._load()

    def _load(self):
        pkg = os.path.join(self.root, "ascmhl")
        for dirpath, _dirs, files in os.walk(pkg):
            for fn in sorted(files):
                if not fn.endswith(".py"):
                    continue
                path = os.path.join(dirpath, fn)
                rel = os.path.relpath(path, self.root)[:-3].replace(os.sep, ".")
                if rel.endswith(".__init__"):
                    rel = rel[: -len(".__init__")]
                text = open(path, encoding="utf-8").read()
                tree = ast.parse(text, filename=path)
                mi = ModuleInfo(rel, path, tree, text)
                self.modules[rel] = mi
                self._index(mi)

    def _index(self, mi):
        for node in mi.tree.body:
            self._index_stmt(mi, node)

    def _index_stmt(self, mi, node):
        if isinstance(node, ast.Try):
            for n in node.body:
                self._index_stmt(mi, n)
            return
        if isinstance(node, (ast.FunctionDef,)):
            fi = FuncInfo(
                f"{mi.name}.{node.name}", mi.name, None, node, ast.get_source_segment(mi.text, node), mi.path
            )
            mi.funcs[node.name] = fi
            self.funcs[fi.qualname] = fi
        elif isinstance(node, ast.ClassDef):
            ci = ClassInfo(node.name, mi.name, node, [ast.unparse(b) for b in node.bases])
            mi.classes[node.name] = ci
            self.classes[node.name] = ci
            for sub in node.body:
                if isinstance(sub, ast.FunctionDef):
                    fi = FuncInfo(
                        f"{mi.name}.{node.name}.{sub.name}",
                        mi.name,
                        node.name,
                        sub,
                        ast.get_source_segment(mi.text, sub),
                        mi.path,
                    )
                    ci.methods[sub.name] = fi
                    self.funcs[fi.qualname] = fi
                elif isinstance(sub, ast.Assign) and len(sub.targets) == 1 and isinstance(sub.targets[0], ast.Name):
                    ci.attrs[sub.targets[0].id] = sub.value
                elif isinstance(sub, ast.AnnAssign) and isinstance(sub.target, ast.Name):
                    ci.annotations[sub.target.id] = ast.unparse(sub.annotation)
                    if sub.value is not None:
                        ci.attrs[sub.target.id] = sub.value
        elif isinstance(node, ast.Assign) and len(node.targets) == 1 and isinstance(node.targets[0], ast.Name):
            mi.consts[node.targets[0].id] = node.value
        elif isinstance(node, ast.Import):
            for a in node.names:
                mi.imports[a.asname or a.name.split(".")[0]] = ("module", a.name if a.asname else a.name.split(".")[0])
        elif isinstance(node, ast.ImportFrom):
            base = node.module or ""
            if node.level:
                parts = mi.name.split(".")
                # module 'ascmhl.history' level 1 -> package 'ascmhl'
                pkg = parts[: len(parts) - node.level]
                base = ".".join(pkg + ([node.module] if node.module else []))
            for a in node.names:
                if a.name == "*":
                    mi.imports.setdefault("*", []).append(base) if isinstance(mi.imports.get("*"), list) else mi.imports.__setitem__("*", [base])
                    continue
                mi.imports[a.asname or a.name] = ("name", base, a.name)

    # ---- resolution helpers
    def mro(self, clsname):
        """linearised list of class names (simple DFS; the package has no diamonds except ABC)."""
        out = []
        seen = set()

        def go(c):
            if c in seen or c not in self.classes:
                return
            seen.add(c)
            out.append(c)
            for b in self.classes[c].bases:
                go(b.split(".")[-1])

        go(clsname)
        return out

    def find_method(self, clsname, name):
        for c in self.mro(clsname):
            ci = self.classes[c]
            if name in ci.methods:
                return ci.methods[name]
        return None

    def find_class_attr(self, clsname, name):
        for c in self.mro(clsname):
            ci = self.classes[c]
            if name in ci.attrs:
                return ci.attrs[name], ci
        return None, None

    def subclasses(self, clsname):
        return [c for c in self.classes if clsname in self.mro(c) and c != clsname]

    def resolve_name(self, modname, name, _depth=0):
        """resolve a global name used inside module `modname`.
        returns ('func', FuncInfo) | ('class', ClassInfo) | ('const', ast expr, modname) | ('module', name) | None"""
        mi = self.modules.get(modname)
        if mi is None or _depth > 6:
            return None
        if name in mi.funcs:
            return ("func", mi.funcs[name])
        if name in mi.classes:
            return ("class", mi.classes[name])
        if name in mi.consts:
            return ("const", mi.consts[name], modname)
        if name in mi.imports and name != "*":
            imp = mi.imports[name]
            if imp[0] == "module":
                return ("module", imp[1])
            _, base, attr = imp
            full = f"{base}.{attr}"
            if full in self.modules:
                return ("module", full)
            if base in self.modules:
                r = self.resolve_name(base, attr, _depth + 1)
                if r:
                    return r
            return ("extern", base, attr)
        for base in mi.imports.get("*", []) if isinstance(mi.imports.get("*"), list) else []:
            if base in self.modules:
                r = self.resolve_name(base, name, _depth + 1)
                if r:
                    return r
        return None
