"""Spec functions (ghost vocabulary of the contracts): SMT symbols with definitional facts.

Uninterpreted symbols carry *no* quantified axioms by default; definitional unfoldings and proved lemmas are
instantiated explicitly by the contracts (`lemmas=` clauses), because quantified axioms mixed with string/nonlinear
terms make z3 answer `unknown` (see probes/z1.py, zq4.py).  Each lemma schema here is either
  - a definitional unfolding of a recursively defined total function (sound by definition), or
  - a ground fact computed by Python at load time (e.g. 2**512 < 58**88), or
  - a lemma with its own proof obligations in vf/lemmas.py (induction, discharged by z3 on every run).
"""
import z3

from .vals import *  # noqa

S = z3.StringSort()
I = z3.IntSort()
B = z3.BoolSort()

C4_ALPHABET = "123456789ABCDEFGHJKLMNPQRSTUVWXYZabcdefghijkmnopqrstuvwxyz"  # from the C4 ID specification

# format name -> (standard algorithm, digest width in bytes); from the statement of property C01
STD_ALG = {
    "md5": ("md5", 16),
    "sha1": ("sha1", 20),
    "xxh32": ("xxh32", 4),
    "xxh64": ("xxh64", 8),
    "xxh3": ("xxh3_64", 8),
    "xxh128": ("xxh3_128", 16),
    "c4": ("sha512", 64),
}
# library constructor -> algorithm it implements (trusted: the libraries are the standard algorithms)
LIB_ALG = {
    "hashlib.md5": "md5",
    "hashlib.sha1": "sha1",
    "hashlib.sha256": "sha256",
    "hashlib.sha512": "sha512",
    "xxhash.xxh32": "xxh32",
    "xxhash.xxh64": "xxh64",
    "xxhash.xxh3_64": "xxh3_64",
    "xxhash.xxh3_128": "xxh3_128",
    "xxhash.xxh128": "xxh3_128",
}
ALG_WIDTH = {"md5": 16, "sha1": 20, "sha256": 32, "sha512": 64, "xxh32": 4, "xxh64": 8, "xxh3_64": 8, "xxh3_128": 16}

# ---- SMT symbols
ALG = z3.Function("ALG", S, S, I)  # algorithm name, data -> digest as a non-negative integer
hexlower = z3.Function("hexlower", I, I, S)  # value, width in bytes -> lower-case hex text of 2*width chars
hexval = z3.Function("hexval", S, I)  # int(s, 16)
unhex = z3.Function("unhex", S, S)  # binascii.unhexlify
be_bytes = z3.Function("be_bytes", I, I, S)  # int.to_bytes(value, n, 'big')
val58 = z3.Function("val58", S, I)  # positional value of a base-58 string (head is most significant)
idx58 = z3.Function("idx58", S, I)  # digit value of a one-character string (-1 outside the alphabet)
pow58 = z3.Function("pow58", I, I)
ok58 = z3.Function("ok58", S, B)  # every character is in the C4 alphabet
ones = z3.Function("ones", I, S)  # '1' * n
utf8 = z3.Function("utf8", S, S)
fs_content = z3.Function("fs_content", I, S, S)  # fs token, path -> bytes of the file
fmt_of_class = z3.Function("fmt_of_class", I, S)
fmt_int = z3.Function("fmt_int", S, I, S)
alg_width = z3.Function("alg_width", S, I)
str_repeat = z3.Function("str_repeat", S, I, S)
sorted_strs = z3.Function("sorted_strs", z3.SeqSort(S), z3.SeqSort(S))
cat_dec = z3.Function("cat_dec", S, z3.SeqSort(S), S)  # fmt, list of digest strings -> concat of decoded bytes
dec_digest = z3.Function("dec_digest", S, S, S)  # fmt, digest text -> bytes


class Specs:
    def __init__(self):
        self.funcs = {}
        self.consts = {}
        self.exception_codes = {}
        self.exc_parents = {}
        self.lib_classes = {}
        self.lib_ctors = {}
        self.namedtuples = {}
        self.str_of_class = {}
        self.families = {}

    def fn(self, name):
        def deco(f):
            self.funcs[name] = f
            return f

        return deco

    def call(self, name, args, st=None, ex=None):
        if name not in self.funcs:
            raise Unsupported(f"spec function {name}")
        return self.funcs[name](ex, st, *args)

    def exc_subclass(self, exc, names):
        p = self.exc_parents.get(exc)
        while p:
            if p in names:
                return True
            p = self.exc_parents.get(p)
        return False

    def class_family(self, ex, cv, st):
        for fam, members in self.families.items():
            return fam
        return None

    def opaque_compare(self, a, b, op):
        import ast as _ast

        if a.name == "version":
            gt = z3.Function("version_gt", z3.IntSort(), z3.IntSort(), z3.BoolSort())
            if isinstance(op, _ast.Gt):
                return gt(a.e, b.e)
            if isinstance(op, _ast.Lt):
                return gt(b.e, a.e)
        raise Unsupported(f"ordering of opaque {a.name}")

    def default_ignore_spec(self, ex, st):
        raise Unsupported("default MHLIgnoreSpec() argument")


SPEC = Specs()

for _i, _n in enumerate(
    [
        "Exception", "ValueError", "KeyError", "IndexError", "AssertionError", "AttributeError", "TypeError",
        "CompletenessCheckFailedException", "VerificationFailedException", "VerificationDirectoriesFailedException",
        "SingleFileNotFoundException", "NewFilesFoundException", "NoMHLHistoryException",
        "ModifiedMHLManifestFileException", "NoMHLChainException", "MissingMHLManifestException",
        "RequestException", "ClickException", "NotImplementedError",
    ]
):
    SPEC.exception_codes[_n] = 1 + _i
SPEC.namedtuples["SealPathResult"] = ["hash_value", "success"]
SPEC.families["Hasher"] = None


def _s(v):
    if isinstance(v, (VStr, VBytes)):
        return v.e
    if isinstance(v, VOpt):
        return v.val.e
    raise Unsupported(f"string expected, got {v.ty}")


def _i(v):
    if isinstance(v, VInt):
        return v.e
    if isinstance(v, VBool):
        return z3.If(v.e, 1, 0)
    if isinstance(v, VOpt):
        return v.val.e
    raise Unsupported(f"int expected, got {v.ty}")


# ---------------------------------------------------------------- generic
@SPEC.fn("len")
def _len(ex, st, v):
    if isinstance(v, VOpt):
        v = v.val
    if isinstance(v, VList) and isinstance(v.e, list):
        return VInt(z3.Length(v.e[0]))
    if isinstance(v, (VStr, VBytes, VList)):
        return VInt(z3.Length(v.e)) if v.e is not None else VInt(0)
    if isinstance(v, VDict):
        return VInt(z3.Length(v.keys)) if v.keys is not None else VInt(0)
    raise Unsupported(f"len of {v.ty}")


@SPEC.fn("str_of_int")
def _str_of_int(ex, st, v):
    return VStr(z3.IntToStr(_i(v)))


@SPEC.fn("fmt_int")
def _fmt_int(ex, st, spec, v):
    return VStr(fmt_int(_s(spec), _i(v)))


@SPEC.fn("str_repeat")
def _str_repeat(ex, st, s, n):
    return VStr(str_repeat(_s(s), _i(n)))


@SPEC.fn("pow_const")
def _pow_const(ex, st, b, n):
    sb = z3.simplify(_i(b))
    if z3.is_int_value(sb) and sb.as_long() == 58:
        return VInt(pow58(_i(n)))
    raise Unsupported("symbolic power")


# ---------------------------------------------------------------- digests (C01, C07)
@SPEC.fn("ALG")
def _ALG(ex, st, a, d):
    return VInt(ALG(_s(a), _s(d)))


@SPEC.fn("hexlower")
def _hexlower(ex, st, v, w):
    return VStr(hexlower(_i(v), _i(w)))


@SPEC.fn("hexval")
def _hexval(ex, st, s):
    return VInt(hexval(_s(s)))


@SPEC.fn("unhex")
def _unhex(ex, st, s):
    return VBytes(unhex(_s(s)))


@SPEC.fn("be_bytes")
def _be_bytes(ex, st, v, n):
    return VBytes(be_bytes(_i(v), _i(n)))


@SPEC.fn("val58")
def _val58(ex, st, s):
    return VInt(val58(_s(s)))


@SPEC.fn("idx58")
def _idx58(ex, st, s):
    return VInt(idx58(_s(s)))


@SPEC.fn("pow58")
def _pow58(ex, st, n):
    return VInt(pow58(_i(n)))


@SPEC.fn("ok58")
def _ok58(ex, st, s):
    return VBool(ok58(_s(s)))


@SPEC.fn("ones")
def _ones(ex, st, n):
    return VStr(ones(_i(n)))


@SPEC.fn("utf8")
def _utf8(ex, st, s):
    return VBytes(utf8(_s(s)))


@SPEC.fn("file_bytes")
def _file_bytes(ex, st, p):
    return VBytes(fs_content(st.fs, _s(p)))


@SPEC.fn("std_alg")
def _std_alg(ex, st, f):
    """format name -> standard algorithm name (table from the property statement)"""
    e = z3.StringVal("?")
    for k, (a, _w) in STD_ALG.items():
        e = z3.If(_s(f) == z3.StringVal(k), z3.StringVal(a), e)
    return VStr(e)


@SPEC.fn("fmt_width")
def _fmt_width(ex, st, f):
    e = z3.IntVal(0)
    for k, (_a, w) in STD_ALG.items():
        e = z3.If(_s(f) == z3.StringVal(k), z3.IntVal(w), e)
    return VInt(e)


@SPEC.fn("alg_width")
def _alg_width(ex, st, a):
    e = z3.IntVal(0)
    for k, w in ALG_WIDTH.items():
        e = z3.If(_s(a) == z3.StringVal(k), z3.IntVal(w), e)
    return VInt(e)


@SPEC.fn("is_format")
def _is_format(ex, st, f):
    return VBool(z3.Or([_s(f) == z3.StringVal(k) for k in STD_ALG]))


@SPEC.fn("is_c4_text")
def _is_c4_text(ex, st, t, v):
    """t is the C4 ID text of the 512-bit value v: 'c4' + 88 base-58 digits (alphabet of the C4 spec, '1' = zero,
    most significant first) whose positional value is v.  Base-58 representations of a fixed length are unique, so
    this determines t."""
    te, ve = _s(t), _i(v)
    body = z3.SubString(te, 2, 88)
    return VBool(z3.And(z3.Length(te) == 90, z3.SubString(te, 0, 2) == z3.StringVal("c4"), ok58(body), val58(body) == ve))


@SPEC.fn("is_digest_text")
def _is_digest_text(ex, st, t, f, data):
    """t is the canonical text of format f's standard digest of data (statement of C01)"""
    te, fe, de = _s(t), _s(f), _s(data)
    alg = _std_alg(ex, st, VStr(fe)).e
    w = _fmt_width(ex, st, VStr(fe)).e
    hexcase = te == hexlower(ALG(alg, de), w)
    c4case = _is_c4_text(ex, st, VStr(te), VInt(ALG(z3.StringVal("sha512"), de))).e
    return VBool(z3.If(fe == z3.StringVal("c4"), c4case, hexcase))


# opaque name for is_digest_text: invariants that merely carry "these texts are the right digests" around use the
# uninterpreted predicate; L_digest_ok reveals the definition where it is established or needed
digest_ok = z3.Function("digest_ok", S, S, S, B)


@SPEC.fn("digest_ok")
def _digest_ok(ex, st, t, f, data):
    return VBool(digest_ok(_s(t), _s(f), _s(data)))


@SPEC.fn("L_digest_ok")
def _L_digest_ok(ex, st, t, f, data):
    """definition of the opaque predicate: digest_ok(t, f, data) == is_digest_text(t, f, data)"""
    return VBool(digest_ok(_s(t), _s(f), _s(data)) == _is_digest_text(ex, st, t, f, data).e)


@SPEC.fn("fmt_of")
def _fmt_of(ex, st, h):
    """format name of a Hasher instance (via its dynamic class)"""
    if isinstance(h, VClass):
        return VStr(fmt_of_class(h.e))
    return VStr(fmt_of_class(st.class_of(h.e)))


@SPEC.fn("class_of")
def _class_of(ex, st, h):
    return VClass(e=st.class_of(h.e))


@SPEC.fn("dec_digest")
def _dec_digest(ex, st, f, t):
    return VBytes(dec_digest(_s(f), _s(t)))


@SPEC.fn("sorted_strs")
def _sorted_strs(ex, st, l):
    return VList(TStr(), sorted_strs(l.e))


@SPEC.fn("cat_dec")
def _cat_dec(ex, st, f, l):
    return VBytes(cat_dec(_s(f), l.e))


# ---------------------------------------------------------------- lemma schemas (instantiated explicitly)
def _chars():
    return [(k, ch) for k, ch in enumerate(C4_ALPHABET)]


@SPEC.fn("L_pow58")
def _L_pow58(ex, st, n):
    """definition of pow58 unfolded at n (n >= 0): pow58(0) = 1, pow58(n+1) = 58 * pow58(n), pow58 > 0"""
    ne = _i(n)
    return VBool(z3.And(pow58(0) == 1, z3.Implies(ne >= 0, z3.And(pow58(ne + 1) == 58 * pow58(ne), pow58(ne) >= 1))))


@SPEC.fn("L_val58_cons")
def _L_val58_cons(ex, st, c, s):
    """definition of val58 unfolded: val58('') = 0; for a one-character c: val58(c + s) = idx58(c) * 58**len(s) + val58(s)
    and ok58(c + s) = (idx58(c) >= 0 and ok58(s))"""
    ce, se = _s(c), _s(s)
    cs = z3.Concat(ce, se)
    return VBool(
        z3.And(
            val58(z3.StringVal("")) == 0,
            ok58(z3.StringVal("")),
            z3.Implies(
                z3.Length(ce) == 1,
                z3.And(
                    val58(cs) == idx58(ce) * pow58(z3.Length(se)) + val58(se),
                    ok58(cs) == z3.And(idx58(ce) >= 0, ok58(se)),
                ),
            ),
        )
    )


@SPEC.fn("L_val58_snoc")
def _L_val58_snoc(ex, st, s, c):
    """lemma (proved by induction in vf/lemmas.py): val58(s + c) = 58 * val58(s) + idx58(c), ok58(s+c) = ok58(s) and idx58(c) >= 0"""
    se, ce = _s(s), _s(c)
    sc = z3.Concat(se, ce)
    return VBool(
        z3.Implies(
            z3.Length(ce) == 1,
            z3.And(val58(sc) == 58 * val58(se) + idx58(ce), ok58(sc) == z3.And(ok58(se), idx58(ce) >= 0)),
        )
    )


@SPEC.fn("L_alphabet_at")
def _L_alphabet_at(ex, st, m):
    """definition of idx58 (digit value = position in the C4 alphabet), stated for the m-th character:
    0 <= m < 58  =>  idx58(ALPHABET[m]) = m and ALPHABET[m] is one character (58 ground instances)"""
    me = _i(m)
    A = z3.StringVal(C4_ALPHABET)
    assert len(set(C4_ALPHABET)) == 58
    c = z3.SubString(A, me, 1)
    return VBool(z3.Implies(z3.And(0 <= me, me < 58), z3.And(idx58(c) == me, z3.Length(c) == 1)))


@SPEC.fn("L_alphabet_char")
def _L_alphabet_char(ex, st, c):
    """ground facts, case-split on the character c: digit value and index in the alphabet string; -1 outside"""
    ce = _s(c)
    A = z3.StringVal(C4_ALPHABET)
    cs = []
    for k, ch in _chars():
        cs.append(z3.Implies(ce == z3.StringVal(ch), z3.And(idx58(ce) == k, z3.IndexOf(A, ce, 0) == k, z3.Contains(A, ce))))
    outside = z3.And([ce != z3.StringVal(ch) for _k, ch in _chars()])
    cs.append(z3.Implies(z3.And(outside, z3.Length(ce) == 1), z3.And(idx58(ce) == -1, z3.Not(z3.Contains(A, ce)))))
    cs.append(z3.And(idx58(ce) >= -1, idx58(ce) < 58))
    return VBool(z3.And(cs))


@SPEC.fn("L_ones")
def _L_ones(ex, st, n, s):
    """lemma (induction in vf/lemmas.py): for n >= 0: len(ones(n)) = n, ok58(ones(n)+s) = ok58(s), val58(ones(n)+s) = val58(s)"""
    ne, se = _i(n), _s(s)
    o = ones(ne)
    return VBool(
        z3.Implies(
            ne >= 0,
            z3.And(z3.Length(o) == ne, ok58(z3.Concat(o, se)) == ok58(se), val58(z3.Concat(o, se)) == val58(se)),
        )
    )


@SPEC.fn("L_2_512_lt_58_88")
def _L_bound(ex, st):
    """ground arithmetic (computed): 58**87 < 2**512 < 58**88, and pow58 at those points"""
    assert 58**87 < 2**512 < 58**88
    return VBool(z3.And(pow58(88) == z3.IntVal(58**88), pow58(87) == z3.IntVal(58**87), z3.IntVal(2**512) < pow58(88)))


@SPEC.fn("L_pow58_mono")
def _L_pow58_mono(ex, st, a, b):
    """lemma (induction in vf/lemmas.py): 0 <= a <= b  =>  pow58(a) <= pow58(b)"""
    ae, be = _i(a), _i(b)
    return VBool(z3.Implies(z3.And(0 <= ae, ae <= be), pow58(ae) <= pow58(be)))


@SPEC.fn("L_hex")
def _L_hex(ex, st, v, w):
    """assumed library fact (hexdigest / int(s,16) / unhexlify / to_bytes are mutually consistent):
    for 0 <= v < 256**w: int(hexlower(v,w),16) = v, len = 2w, unhexlify(hexlower(v,w)) = v.to_bytes(w,'big')"""
    ve, we = _i(v), _i(w)
    h = hexlower(ve, we)
    return VBool(z3.And(hexval(h) == ve, z3.Length(h) == 2 * we, unhex(h) == be_bytes(ve, we)))


@SPEC.fn("L_alg_range")
def _L_alg_range(ex, st, a, d):
    """assumed library fact: a digest of algorithm a is a non-negative integer below 256**width(a)"""
    ae, de = _s(a), _s(d)
    cs = []
    for k, w in ALG_WIDTH.items():
        cs.append(z3.Implies(ae == z3.StringVal(k), z3.And(ALG(ae, de) >= 0, ALG(ae, de) < z3.IntVal(256**w))))
    return VBool(z3.And(cs))


# class name -> format name (spec-level naming of which Hasher class serves which format)
CLASS_FMT = {"MD5": "md5", "SHA1": "sha1", "XXH32": "xxh32", "XXH64": "xxh64", "XXH3": "xxh3", "XXH128": "xxh128", "C4": "c4"}


@SPEC.fn("L_class_fmt")
def _L_class_fmt(ex, st):
    """definition of fmt_of_class on the seven Hasher classes"""
    return VBool(z3.And([fmt_of_class(z3.IntVal(class_code(c))) == z3.StringVal(f) for c, f in CLASS_FMT.items()]))


@SPEC.fn("is_hasher_class")
def _is_hasher_class(ex, st, c):
    return VBool(z3.Or([c.e == class_code(k) for k in CLASS_FMT]))


@SPEC.fn("L_cat_dec")
def _L_cat_dec(ex, st, f, l, x):
    """definition of cat_dec unfolded: cat_dec(f, []) = b'', cat_dec(f, l + [x]) = cat_dec(f, l) + dec_digest(f, x)"""
    fe = _s(f)
    return VBool(
        z3.And(
            cat_dec(fe, z3.Empty(z3.SeqSort(S))) == z3.StringVal(""),
            cat_dec(fe, z3.Concat(l.e, z3.Unit(_s(x)))) == z3.Concat(cat_dec(fe, l.e), _dec(fe, _s(x))),
        )
    )


def _dec(fe, te):
    return z3.If(fe == z3.StringVal("c4"), be_bytes(val58(z3.SubString(te, 2, 88)), 64), unhex(te))


SPEC.funcs["dec_digest"] = lambda ex, st, f, t: VBytes(_dec(_s(f), _s(t)))


@SPEC.fn("L_sorted")
def _L_sorted(ex, st, l):
    """assumed library fact: sorted()/list.sort() return a permutation of equal length (order facts are added where used)"""
    return VBool(z3.And(z3.Length(sorted_strs(l.e)) == z3.Length(l.e)))


@SPEC.fn("fresh")
def _fresh(ex, st, r):
    """the object was allocated during the call / function being specified"""
    return VBool(r.e > ex.spec_old.alloc)


@SPEC.fn("L_mul_ge")
def _L_mul_ge(ex, st, a, b):
    """arithmetic fact (proved in vf/lemmas.py): a >= 1 and b >= 0  =>  a * b >= b"""
    ae, be = _i(a), _i(b)
    return VBool(z3.Implies(z3.And(ae >= 1, be >= 0), ae * be >= be))


@SPEC.fn("L_ok58_split")
def _L_ok58_split(ex, st, a, b):
    """lemma (induction in vf/lemmas.py): ok58(a + b) = ok58(a) and ok58(b)"""
    ae, be = _s(a), _s(b)
    return VBool(ok58(z3.Concat(ae, be)) == z3.And(ok58(ae), ok58(be)))


@SPEC.fn("L_val58_nonneg")
def _L_val58_nonneg(ex, st, s):
    """lemma (induction in vf/lemmas.py): ok58(s) => val58(s) >= 0"""
    return VBool(z3.Implies(ok58(_s(s)), val58(_s(s)) >= 0))


# ---------------------------------------------------------------- paths (strings with uninterpreted structure)
p_join = z3.Function("p_join", S, S, S)
p_dirname = z3.Function("p_dirname", S, S)
p_basename = z3.Function("p_basename", S, S)
p_normpath = z3.Function("p_normpath", S, S)
p_relpath = z3.Function("p_relpath", S, S, S)
p_isabs = z3.Function("p_isabs", S, B)
p_abspath = z3.Function("p_abspath", S, S)
fs_exists = z3.Function("fs_exists", I, S, B)
fs_isdir = z3.Function("fs_isdir", I, S, B)
fs_size = z3.Function("fs_size", I, S, I)
fs_mtime = z3.Function("fs_mtime", I, S, I)

for _n, _f in [("p_join", p_join), ("p_relpath", p_relpath)]:
    SPEC.funcs[_n] = (lambda f: lambda ex, st, a, b: VStr(f(_s(a), _s(b))))(_f)
for _n, _f in [("p_dirname", p_dirname), ("p_basename", p_basename), ("p_normpath", p_normpath), ("p_abspath", p_abspath)]:
    SPEC.funcs[_n] = (lambda f: lambda ex, st, a: VStr(f(_s(a))))(_f)
SPEC.funcs["p_isabs"] = lambda ex, st, a: VBool(p_isabs(_s(a)))
SPEC.funcs["fs_exists"] = lambda ex, st, a: VBool(fs_exists(st.fs, _s(a)))
SPEC.funcs["fs_isdir"] = lambda ex, st, a: VBool(fs_isdir(st.fs, _s(a)))
SPEC.funcs["fs_size"] = lambda ex, st, a: VInt(fs_size(st.fs, _s(a)))


@SPEC.fn("valid_digest_text")
def _valid_digest_text(ex, st, t, f):
    """t can be decoded as a digest of format f (C4: 90 chars, alphabet, value below 2**512)"""
    te, fe = _s(t), _s(f)
    body = z3.SubString(te, 2, 88)
    return VBool(
        z3.Or(fe != z3.StringVal("c4"), z3.And(z3.Length(te) >= 90, ok58(body), val58(body) < z3.IntVal(2**512)))
    )


sorted_idx = z3.Function("sorted_idx", z3.SeqSort(S), I, I)


@SPEC.fn("L_sorted_perm")
def _L_sorted_perm(ex, st, l):
    """assumed library fact: sorted(l) has the length of l and each of its elements is an element of l"""
    le = l.e
    j = z3.Int(fresh_name("j"))
    sl = sorted_strs(le)
    return VBool(
        z3.And(
            z3.Length(sl) == z3.Length(le),
            z3.ForAll(
                [j],
                z3.Implies(
                    z3.And(0 <= j, j < z3.Length(le)),
                    z3.And(0 <= sorted_idx(le, j), sorted_idx(le, j) < z3.Length(le), sl[j] == le[sorted_idx(le, j)]),
                ),
            ),
        )
    )


@SPEC.fn("allocated")
def _allocated(ex, st, r):
    return VBool(z3.And(r.e > 0, r.e <= st.alloc))


@SPEC.fn("hash_formats_none")
def _empty_int_list(ex, st):
    return VList(TInt(), z3.Empty(z3.SeqSort(I)))


@SPEC.fn("L_member")
def _L_member(ex, st, l, x):
    """theorem of the theory of sequences (z3 does not connect seq.contains with seq.nth on its own):
    x in l  <=>  exists j. 0 <= j < len(l) and l[j] == x"""
    xe = flat(coerce(x, l.elem_ty))[0]
    j = z3.Int(fresh_name("j"))
    k = z3.Int(fresh_name("k"))
    c = z3.Contains(l.e, z3.Unit(xe))
    return VBool(
        z3.And(
            z3.Implies(z3.Not(c), z3.ForAll([j], z3.Implies(z3.And(0 <= j, j < z3.Length(l.e)), l.e[j] != xe))),
            z3.Implies(c, z3.Exists([k], z3.And(0 <= k, k < z3.Length(l.e), l.e[k] == xe))),
        )
    )


# ---------------------------------------------------------------- naming the result of pure heap-reading functions
def heap_fn(name, fields, rsort, rwrap):
    """spec function = an uninterpreted function of the receiver, the arguments and the heap fields the real function
    reads (assumption: a pure function is a deterministic function of its arguments and of the fields it reads)."""

    def f(ex, st, recv, *args):
        arrs = []
        for fld in fields:
            ty = parse_type(ex.reg.field_types[fld])
            for i, srt in enumerate(flat_sorts(ty)):
                arrs.append(st.harr(f"{fld}#{i}", z3.IntSort(), srt))
        def arg(a):
            if isinstance(a, VOpt):
                return a.val.e
            fl = flat(a)
            # the literal None (no string component): a reserved string that is no path
            return fl[0] if fl else z3.StringVal("\x00None")

        argv = [recv.e] + [arg(a) for a in args] + arrs
        fn = z3.Function(name, *([a.sort() for a in argv] + [rsort]))
        return rwrap(fn(*argv))

    SPEC.funcs[name] = f


ROUTE_FIELDS = ["MHLHistory.child_history_mappings", "MHLHistory.child_histories", "MHLHistory.asc_mhl_path"]
heap_fn("route_h", ROUTE_FIELDS, I, lambda e: VRef("MHLHistory", e, False))
heap_fn("route_p", ROUTE_FIELDS, S, lambda e: VStr(e))
heap_fn("route_p_none", ROUTE_FIELDS, B, lambda e: VBool(e))


# k-fold parent of a path: dn(p, 0) = p, dn(p, k+1) = dirname(dn(p, k))
p_dn = z3.Function("p_dn", S, I, S)
SPEC.funcs["p_dn"] = lambda ex, st, p, k: VStr(p_dn(_s(p), _i(k)))


@SPEC.fn("L_dn")
def _L_dn(ex, st, p, k):
    """definition of dn unfolded at k (k >= 0)"""
    pe, ke = _s(p), _i(k)
    return VBool(z3.And(p_dn(pe, 0) == pe, z3.Implies(ke >= 0, p_dn(pe, ke + 1) == p_dirname(p_dn(pe, ke)))))


@SPEC.fn("dict_is_empty")
def _dict_is_empty(ex, st, d):
    """no key is present"""
    k = z3.Const(fresh_name("k"), d.keys.sort().basis())
    if isinstance(d.vty, TRef):
        return VBool(z3.And(z3.Length(d.keys) == 0, z3.ForAll([k], z3.Select(d.m, k) == 0)))
    return VBool(z3.Length(d.keys) == 0)


@SPEC.fn("dict_same_except")
def _dict_same_except(ex, st, new, old, key):
    """every key other than `key` has the same presence and the same value in both dicts"""
    k = z3.Const(fresh_name("k"), new.keys.sort().basis())
    ke = flat(coerce(key, new.kty))[0]
    if isinstance(new.vty, TRef):
        return VBool(z3.ForAll([k], z3.Implies(k != ke, z3.Select(new.m, k) == z3.Select(old.m, k))))
    return VBool(
        z3.ForAll(
            [k],
            z3.Implies(
                k != ke,
                z3.And(
                    z3.Contains(new.keys, z3.Unit(k)) == z3.Contains(old.keys, z3.Unit(k)),
                    z3.Implies(z3.Contains(old.keys, z3.Unit(k)), z3.Select(new.m, k) == z3.Select(old.m, k)),
                ),
            ),
        )
    )


@SPEC.fn("append")
def _append(ex, st, l, x):
    """l + [x] with the purified description (length, element-wise) added as facts about the fresh name"""
    xe = flat(coerce(x, l.elem_ty))[0]
    new = z3.Concat(l.e, z3.Unit(xe))
    r = z3.Const(fresh_name("gapp"), new.sort())
    n = z3.Length(l.e)
    j = z3.Int(fresh_name("j"))
    st.assume(r == new)
    st.assume(z3.Length(r) == n + 1)
    st.assume(r[n] == xe)
    st.assume(z3.ForAll([j], z3.Implies(z3.And(0 <= j, j < n), r[j] == l.e[j])))
    # membership facts the sequence solver is slow to derive from the Concat term
    x = z3.Const(fresh_name("x"), xe.sort())
    st.assume(z3.Contains(r, z3.Unit(xe)))
    st.assume(z3.ForAll([x], z3.Implies(z3.Contains(l.e, z3.Unit(x)), z3.Contains(r, z3.Unit(x)))))
    st.assume(z3.ForAll([x], z3.Implies(z3.Contains(r, z3.Unit(x)), z3.Or(x == xe, z3.Contains(l.e, z3.Unit(x))))))
    return VList(l.elem_ty, r)


@SPEC.fn("exc_code")
def _exc_code(ex, st, name):
    return VOpaque("exc", z3.IntVal(SPEC.exception_codes[z3.simplify(name.e).as_string()]))


@SPEC.fn("empty_strs")
def _empty_strs(ex, st):
    return VList(TStr(), z3.Empty(z3.SeqSort(S)))


@SPEC.fn("empty_bools")
def _empty_bools(ex, st):
    return VList(TBool(), z3.Empty(z3.SeqSort(B)))


@SPEC.fn("version_invalid")
def _version_invalid(ex, st, s):
    return VBool(z3.Function("version_invalid", S, B)(_s(s)))


@SPEC.fn("logger_verbose")
def _logger_verbose(ex, st):
    return VBool(z3.Bool("logger_verbose_logging"))


@SPEC.fn("str_of_optint")
def _str_of_optint(ex, st, v):
    if isinstance(v, VOpt):
        return VStr(z3.If(v.isnone, z3.StringVal("None"), z3.IntToStr(v.val.e)))
    return VStr(z3.IntToStr(v.e))


@SPEC.fn("str_of_optstr")
def _str_of_optstr(ex, st, v):
    if isinstance(v, VOpt):
        return VStr(z3.If(v.isnone, z3.StringVal("None"), v.val.e))
    return VStr(v.e)


HIST_OK_FIELDS = ["MHLHistory.hash_lists", "MHLHistory.child_histories", "MHLHashList.creator_info"]
heap_fn("hist_ok", HIST_OK_FIELDS, B, lambda e: VBool(e))


@SPEC.fn("L_hist_ok")
def _L_hist_ok(ex, st, h):
    """definition of the predicate hist_ok (every generation of the history and of all its descendants carries creator
    info - what load_from_path + the reader establish for tool-written manifests), unfolded one level"""
    ok = SPEC.funcs["hist_ok"]
    hl = st.get_field(h.e, "MHLHistory.hash_lists", parse_type(ex.reg.field_types["MHLHistory.hash_lists"]))
    ch = st.get_field(h.e, "MHLHistory.child_histories", parse_type(ex.reg.field_types["MHLHistory.child_histories"]))
    j = z3.Int(fresh_name("j"))
    ci = st.harr("MHLHashList.creator_info#0", z3.IntSort(), z3.IntSort())
    body = z3.And(
        z3.ForAll([j], z3.Implies(z3.And(0 <= j, j < z3.Length(hl.e)), z3.Select(ci, hl.e[j]) != 0)),
        z3.ForAll([j], z3.Implies(z3.And(0 <= j, j < z3.Length(ch.e)), ok(ex, st, VRef("MHLHistory", ch.e[j])).e)),
    )
    return VBool(z3.Implies(ok(ex, st, h).e, body))


SPEC.funcs["as_posix"] = lambda ex, st, p: VStr(z3.Function("as_posix", S, S)(_s(p)))
iso_string = z3.Function("iso_string", I, B, S)


@SPEC.fn("iso")
def _iso(ex, st, d, keep=None):
    k = keep.e if keep is not None else z3.BoolVal(False)
    de = d.val.e if isinstance(d, VOpt) else d.e
    return VStr(iso_string(de, k))


SPEC.funcs["spec_match"] = lambda ex, st, sp, p: VBool(z3.Function("spec_match", I, S, B)(sp.e if not isinstance(sp, VOpt) else sp.val.e, _s(p)))
SPEC.funcs["fs_child"] = lambda ex, st, d, n: VBool(z3.Function("fs_child", I, S, S, B)(st.fs, _s(d), _s(n)))


@SPEC.fn("utc_filename_stamp")
def _utc_filename_stamp(ex, st):
    return VStr(z3.Function("utc_filename_stamp", I, S)(z3.Int("clock_now")))
