"""Assumed contracts of library functions and builtins (the trusted base), as symbolic stubs.

Every stub that encodes an *assumption* about a dependency registers a line in ex.assumed, which ends up in the
evidence file.  Builtin container operations are part of the Python semantics listed in pyvc.PY_SEMANTICS.
"""
import ast

import z3

from . import specs as SP
from .calls import CallMixin
from .specs import SPEC
from .state import *  # noqa
from .vals import *  # noqa

LIB = CallMixin.LIB
S = z3.StringSort()


def lib(*names):
    def deco(f):
        for n in names:
            LIB[n] = f
        return f

    return deco


def raise_if(ex, st, cond, exc, node):
    """fork an exceptional path under `cond`; the normal path continues under not cond"""
    sc = z3.simplify(cond)
    if not z3.is_false(sc):
        s_exc = st.copy()
        s_exc.pc.extend(st.guards)
        s_exc.guards = []
        s_exc.pc.append(cond)
        ex.exc_out.append((s_exc, Outcome("raise", exc=exc, line=getattr(node, "lineno", None))))
    st.assume(z3.Not(cond))


def sval(ex, st, v, node, what="argument"):
    v = ex.unopt(v, st, node, what) if not ex.in_spec else (v.val if isinstance(v, VOpt) else v)
    if not isinstance(v, (VStr, VBytes)):
        raise Unsupported(f"{what}: string expected, got {v.ty} at line {getattr(node,'lineno','?')}")
    return v


# ---------------------------------------------------------------- library hash objects
SPEC.lib_classes["LibHasher"] = {"fields": {"alg": "str", "absorbed": "bytes"}}
SPEC.lib_classes["File"] = {"fields": {"content": "bytes", "pos": "int", "fpath": "str", "mode": "str", "written": "list[Element]", "raw": "list[str]"}}


def _mk_ctor(libname, alg):
    def ctor(ex, st, args, kwargs, node):
        ex.assumed.add(f"library: {libname}() is the standard {alg} algorithm; update() appends, hexdigest() = lower-case hex of ALG('{alg}', absorbed)")
        o = st.new_ref("LibHasher")
        st.set_field(o.e, "LibHasher.alg", TStr(), VStr(alg))
        data = VBytes(z3.StringVal(""))
        if args:
            data = args[0]
        st.set_field(o.e, "LibHasher.absorbed", TBytes(), data)
        return o

    return ctor


for _n, _a in SP.LIB_ALG.items():
    LIB[_n] = _mk_ctor(_n, _a)


@lib("LibHasher.update")
def _lh_update(ex, st, self, args, kwargs, node):
    cur = st.get_field(self.e, "LibHasher.absorbed", TBytes())
    d = sval(ex, st, args[0], node)
    st.set_field(self.e, "LibHasher.absorbed", TBytes(), VBytes(z3.Concat(cur.e, d.e)))
    return VNone()


@lib("LibHasher.hexdigest")
def _lh_hexdigest(ex, st, self, args, kwargs, node):
    alg = st.get_field(self.e, "LibHasher.alg", TStr()).e
    data = st.get_field(self.e, "LibHasher.absorbed", TBytes()).e
    w = SPEC.call("alg_width", [VStr(alg)]).e
    return VStr(SP.hexlower(SP.ALG(alg, data), w))


# ---------------------------------------------------------------- files
@lib("open")
def _open(ex, st, args, kwargs, node):
    path = sval(ex, st, args[0], node)
    mode = args[1] if len(args) > 1 else kwargs.get("mode", VStr("r"))
    sm = z3.simplify(mode.e)
    if not z3.is_string_value(sm):
        raise Unsupported("open() with a non-literal mode")
    m = sm.as_string()
    f = st.new_ref("File")
    st.set_field(f.e, "File.fpath", TStr(), path)
    st.set_field(f.e, "File.mode", TStr(), VStr(m))
    st.set_field(f.e, "File.pos", TInt(), VInt(0))
    if "r" in m and "+" not in m:
        ex.assumed.add("file objects: open(p,'rb') reads FS[p]; read(n) returns a non-empty prefix of the remaining bytes (at most n), or b'' exactly at end of file")
        st.set_field(f.e, "File.content", TBytes(), VBytes(SP.fs_content(st.fs, path.e)))
    else:
        raise Unsupported("open() for writing inside a function under SMT contract (handled by the crash/frame checker)")
    return f


@lib("File.read")
def _file_read(ex, st, self, args, kwargs, node):
    content = st.get_field(self.e, "File.content", TBytes()).e
    pos = st.get_field(self.e, "File.pos", TInt()).e
    n = z3.Length(content)
    k = z3.Int(fresh_name("nread"))
    if args:
        size = ex.as_int(args[0])
        # short reads are allowed: any k with 1 <= k <= min(size, remaining); k = 0 iff nothing remains
        st.assume(z3.And(k >= 0, k <= size, k <= n - pos, (k == 0) == (pos == n)))
        ex.oblige(st, size > 0, f"read-size-positive@{node.lineno}", kind="exception", line=node.lineno)
    else:
        st.assume(k == n - pos)
    st.assume(z3.And(pos >= 0, pos <= n))
    chunk = z3.SubString(content, pos, k)
    st.set_field(self.e, "File.pos", TInt(), VInt(pos + k))
    return VBytes(chunk)


@lib("File.close", "File.flush", "File.__enter__")
def _file_noop(ex, st, self, args, kwargs, node):
    return VNone()


# ---------------------------------------------------------------- builtins
@lib("len")
def _len(ex, st, args, kwargs, node):
    v = args[0]
    if isinstance(v, VOpt):
        v = ex.unopt(v, st, node)
    return SPEC.call("len", [v])


@lib("str")
def _str(ex, st, args, kwargs, node):
    return ex.to_str(args[0])


@lib("bool")
def _bool(ex, st, args, kwargs, node):
    return VBool(truthy(args[0]))


@lib("int")
def _int(ex, st, args, kwargs, node):
    v = args[0]
    if isinstance(v, VOpt):
        v = ex.unopt(v, st, node)
    if isinstance(v, VInt):
        return v
    if isinstance(v, VStr):
        base = 10
        if len(args) > 1:
            b = z3.simplify(ex.as_int(args[1]))
            base = b.as_long()
        if base == 16:
            ex.assumed.add("library: int(s, 16) is the value of the hex text s (inverse of hexdigest rendering)")
            return VInt(SP.hexval(v.e))
        if base == 10:
            ex.assumed.add("library: int(s) for a decimal digit string is z3 str.to_int")
            raise_if(ex, st, z3.StrToInt(v.e) < 0, "ValueError", node)
            return VInt(z3.StrToInt(v.e))
    raise Unsupported(f"int() of {v.ty}")


@lib("divmod")
def _divmod(ex, st, args, kwargs, node):
    a, b = args
    if not (isinstance(a, (VInt, VBool)) and isinstance(b, (VInt, VBool))):
        raise Unsupported("divmod of non-integers")
    x, y = ex.as_int(a), ex.as_int(b)
    sy = z3.simplify(y)
    if not (z3.is_int_value(sy) and sy.as_long() > 0):
        # as for // and %: only positive divisors are modelled (z3 div/mod agree with Python's floor semantics there)
        ex.oblige(st, y > 0, f"positive-divisor@{node.lineno}", kind="exception", line=node.lineno)
    return VTuple([VInt(x / y), VInt(x % y)])


@lib("isinstance")
def _isinstance(ex, st, args, kwargs, node):
    raise Unsupported("isinstance")


@lib("hasattr")
def _hasattr(ex, st, args, kwargs, node):
    # dynamic attributes (temp_is_root_folder) are ghost booleans on the object
    obj, name = args
    nm = z3.simplify(name.e).as_string()
    key = f"hasattr:{nm}"
    arr = st.harr(key + "#0", z3.IntSort(), z3.BoolSort())
    return VBool(z3.Select(arr, obj.e))


@lib("type")
def _type(ex, st, args, kwargs, node):
    o = args[0]
    if isinstance(o, VRef):
        return ex.dyn_class(o, st)
    raise Unsupported("type() of non-object")


@lib("list")
def _list(ex, st, args, kwargs, node):
    if not args:
        return VList(None, None)
    v = args[0]
    if isinstance(v, VList):
        return VList(v.elem_ty, v.e)
    n, g, sv = ex.iterable_of_value(v, st, node)
    if sv is not None:
        return sv
    raise Unsupported("list() of this iterable")


@lib("dict")
def _dict(ex, st, args, kwargs, node):
    if not args and not kwargs:
        return VDict(None, None, None, None)
    raise Unsupported("dict(...)")


@lib("set")
def _set(ex, st, args, kwargs, node):
    if not args:
        return VSet(None, None)
    v = args[0]
    if isinstance(v, VList):
        x = z3.Const(fresh_name("x"), elem_sort(v.elem_ty))
        return VSet(v.elem_ty, z3.Lambda([x], z3.Contains(v.e, z3.Unit(x))))
    raise Unsupported("set() of this iterable")


@lib("sorted")
def _sorted(ex, st, args, kwargs, node):
    v = args[0]
    if isinstance(v, VTuple):
        if all(isinstance(i, VStr) for i in v.items):
            l = VList(TStr(), z3.Concat([z3.Unit(i.e) for i in v.items]) if len(v.items) > 1 else z3.Unit(v.items[0].e))
            v = l
    if isinstance(v, VList) and isinstance(v.elem_ty, TStr):
        return VList(TStr(), SP.sorted_strs(v.e))
    raise Unsupported(f"sorted() of {v.ty}")


@lib("VList.sort")
def _list_sort(ex, st, self, args, kwargs, node):
    if isinstance(self.elem_ty, TStr):
        ex.assumed.add("library: list.sort() on strings yields a permutation of the list in ascending code-point order")
        r = SP.sorted_strs(self.e)
        a, b = z3.Ints(fresh_name("a") + " " + fresh_name("b"))
        n = z3.Length(self.e)
        st.assume(z3.Length(r) == n)
        st.assume(z3.ForAll([a, b], z3.Implies(z3.And(0 <= a, a < b, b < n), r[a] <= r[b])))
        st.assume(z3.ForAll([a], z3.Implies(z3.And(0 <= a, a < n), z3.And(0 <= SP.sorted_idx(self.e, a), SP.sorted_idx(self.e, a) < n, r[a] == self.e[SP.sorted_idx(self.e, a)]))))
        inv = z3.Function(fresh_name("sortinv"), z3.IntSort(), z3.IntSort())
        st.assume(z3.ForAll([a], z3.Implies(z3.And(0 <= a, a < n), z3.And(0 <= inv(a), inv(a) < n, r[inv(a)] == self.e[a], SP.sorted_idx(self.e, inv(a)) == a))))
        st.assume(z3.ForAll([a], z3.Implies(z3.And(0 <= a, a < n), inv(SP.sorted_idx(self.e, a)) == a)))
        ex.mutate(node, st, VList(TStr(), r))
        return VNone()
    raise Unsupported("sort of a non-string list without key")


@lib("VList.append")
def _list_append(ex, st, self, args, kwargs, node):
    v = args[0]
    if self.e is None:
        ety = v.ty
        if isinstance(ety, TRef):
            ety = TRef(ety.cls)
        if isinstance(v, VClass):
            ety = TClass()
        self = default_value(TList(ety))
    if isinstance(v, VRef) and isinstance(self.elem_ty, TClass):
        # `hash_entries = [MHLHashEntry]` followed by appends of instances (generator.py): heterogeneous list
        raise Unsupported("list mixing a class object and instances")
    new = ex.list_append(self, v)
    if isinstance(new.e, list):
        if not ex.in_spec:
            comps = flat(coerce(v, self.elem_ty, "list element"))
            rs = []
            for k_, (old_s, c) in enumerate(zip(self.e, comps)):
                r = z3.Const(fresh_name("app"), old_s.sort())
                n = z3.Length(self.e[0])
                j = z3.Int(fresh_name("j"))
                st.assume(r == new.e[k_])
                st.assume(z3.Length(r) == n + 1)
                st.assume(r[n] == c)
                st.assume(z3.ForAll([j], z3.Implies(z3.And(0 <= j, j < n), r[j] == old_s[j])))
                st.assume(z3.Length(old_s) == n)
                rs.append(r)
            new = VList(new.elem_ty, rs)
        ex.mutate(node, st, new)
        return VNone()
    if not ex.in_spec:
        # purified description of the appended list (length + element-wise), next to the Concat term: quantified
        # invariants over indices are discharged from these facts, not from the sequence solver
        r = z3.Const(fresh_name("app"), new.e.sort())
        n = z3.Length(self.e)
        j = z3.Int(fresh_name("j"))
        st.assume(r == new.e)
        st.assume(z3.Length(r) == n + 1)
        xn = ex.to_elem(v, self.elem_ty)
        st.assume(r[n] == xn)
        st.assume(z3.ForAll([j], z3.Implies(z3.And(0 <= j, j < n), r[j] == self.e[j])))
        # membership facts the sequence solver is slow to derive from the Concat term
        x = z3.Const(fresh_name("x"), xn.sort())
        st.assume(z3.Contains(r, z3.Unit(xn)))
        st.assume(z3.ForAll([x], z3.Implies(z3.Contains(self.e, z3.Unit(x)), z3.Contains(r, z3.Unit(x)))))
        st.assume(z3.ForAll([x], z3.Implies(z3.Contains(r, z3.Unit(x)), z3.Or(x == xn, z3.Contains(self.e, z3.Unit(x))))))
        new = VList(new.elem_ty, r)
    ex.mutate(node, st, new)
    return VNone()


@lib("VList.extend")
def _list_extend(ex, st, self, args, kwargs, node):
    v = args[0]
    if isinstance(v, VFunc) and v.kind == "genexp":
        return ex.extend_genexp(self, v, st, node)
    if isinstance(v, VList):
        if self.e is None:
            self = VList(v.elem_ty, z3.Empty(z3.SeqSort(elem_sort(v.elem_ty))))
        ex.mutate(node, st, ex.list_concat(self, v))
        return VNone()
    raise Unsupported("extend with this iterable")


@lib("VList.copy")
def _list_copy(ex, st, self, args, kwargs, node):
    return VList(self.elem_ty, self.e)


@lib("VList.clear")
def _list_clear(ex, st, self, args, kwargs, node):
    ex.mutate(node, st, default_value(self.ty))
    return VNone()


@lib("VDict.get")
def _dict_get(ex, st, self, args, kwargs, node):
    if self.keys is None:
        return args[1] if len(args) > 1 else VNone()
    val, has = ex.dict_get(self, args[0])
    dflt = args[1] if len(args) > 1 else VNone()
    if isinstance(val, VRef):
        val = VRef(val.cls, val.e, True)  # an absent key reads as 0 / None
    if not ex.in_spec:
        ex.assume_wf_read(st, val)
    if isinstance(val, VRef):
        if isinstance(dflt, VNone):
            return VRef(val.cls, val.e, True)  # absent keys map to 0 (representation invariant of ref-valued dicts)
        return v_ite(has, val, dflt)
    return v_ite(has, val, dflt)


@lib("VDict.keys")
def _dict_keys(ex, st, self, args, kwargs, node):
    if self.keys is None:
        return VList(None, None)
    return VList(self.kty, self.keys)


@lib("VDict.pop")
def _dict_pop(ex, st, self, args, kwargs, node):
    val, has = ex.dict_get(self, args[0])
    if len(args) == 1:
        ex.oblige(st, has, f"key-present@{node.lineno}:{ast.unparse(node)[:50]}", kind="exception", line=node.lineno)
    ke = ex.to_elem(args[0], self.kty)
    if isinstance(self.vty, TRef):
        self = VDict(self.kty, self.vty, self.keys, z3.Store(self.m, ke, 0), self.default)
    nk = z3.Const(fresh_name("keys"), self.keys.sort())
    x = z3.Const(fresh_name("x"), elem_sort(self.kty))
    a, b = z3.Ints(fresh_name("a") + " " + fresh_name("b"))
    st.assume(z3.ForAll([x], z3.Contains(nk, z3.Unit(x)) == z3.And(z3.Contains(self.keys, z3.Unit(x)), x != ke)))
    st.assume(z3.ForAll([a, b], z3.Implies(z3.And(0 <= a, a < b, b < z3.Length(nk)), nk[a] != nk[b])))
    ex.mutate(node, st, VDict(self.kty, self.vty, nk, self.m, self.default))
    return val if len(args) == 1 else v_ite(has, val, args[1])


@lib("VSet.add")
def _set_add(ex, st, self, args, kwargs, node):
    v = args[0]
    if self.m is None:
        self = default_value(TSet(v.ty))
    ex.mutate(node, st, VSet(self.ety, z3.Store(self.m, ex.to_elem(v, self.ety), True)))
    return VNone()


@lib("VSet.discard")
def _set_discard(ex, st, self, args, kwargs, node):
    ex.mutate(node, st, VSet(self.ety, z3.Store(self.m, ex.to_elem(args[0], self.ety), False)))
    return VNone()


@lib("VSet.update")
def _set_update(ex, st, self, args, kwargs, node):
    o = args[0]
    if self.m is None:
        if isinstance(o, VSet):
            ex.mutate(node, st, o)
            return VNone()
    if isinstance(o, VSet):
        x = z3.Const(fresh_name("x"), self.m.domain())
        ex.mutate(node, st, VSet(self.ety, z3.Lambda([x], z3.Or(z3.Select(self.m, x), z3.Select(o.m, x)))))
        return VNone()
    raise Unsupported("set.update with non-set")


# ---------------------------------------------------------------- str / bytes / int methods
@lib("VStr.rjust")
def _rjust(ex, st, self, args, kwargs, node):
    w = ex.as_int(args[0])
    fill = args[1] if len(args) > 1 else VStr(" ")
    sf = z3.simplify(fill.e)
    n = z3.Length(self.e)
    k = z3.If(w > n, w - n, 0)
    if z3.is_string_value(sf) and sf.as_string() == "1":
        pad = SP.ones(k)
        st.assume(z3.Length(pad) == k)
    else:
        pad = SP.str_repeat(fill.e, k)
        st.assume(z3.Length(pad) == k * z3.Length(fill.e))
    return VStr(z3.Concat(pad, self.e))


@lib("VStr.ljust")
def _ljust(ex, st, self, args, kwargs, node):
    w = ex.as_int(args[0])
    n = z3.Length(self.e)
    k = z3.If(w > n, w - n, 0)
    pad = SP.str_repeat(z3.StringVal(" "), k)
    st.assume(z3.Length(pad) == k)
    return VStr(z3.Concat(self.e, pad))


@lib("VStr.index")
def _index(ex, st, self, args, kwargs, node):
    sub = sval(ex, st, args[0], node)
    raise_if(ex, st, z3.Not(z3.Contains(self.e, sub.e)), "ValueError", node)
    return VInt(z3.IndexOf(self.e, sub.e, 0))


@lib("VStr.encode")
def _encode(ex, st, self, args, kwargs, node):
    ex.assumed.add("library: str.encode('utf8') is a function of the string (injective)")
    return VBytes(SP.utf8(self.e))


@lib("VStr.startswith")
def _startswith(ex, st, self, args, kwargs, node):
    return VBool(z3.PrefixOf(sval(ex, st, args[0], node).e, self.e))


@lib("VStr.endswith")
def _endswith(ex, st, self, args, kwargs, node):
    return VBool(z3.SuffixOf(sval(ex, st, args[0], node).e, self.e))


@lib("VInt.to_bytes")
def _to_bytes(ex, st, self, args, kwargs, node):
    n = ex.as_int(args[0])
    bo = kwargs.get("byteorder", args[1] if len(args) > 1 else None)
    if bo is None or z3.simplify(bo.e).as_string() != "big":
        raise Unsupported("to_bytes byteorder")
    ex.assumed.add("library: int.to_bytes(n,'big') (OverflowError outside 0 <= v < 256**n)")
    sn = z3.simplify(n)
    if z3.is_int_value(sn):
        raise_if(ex, st, z3.Or(self.e < 0, self.e >= z3.IntVal(256 ** sn.as_long())), "OverflowError", node)
    return VBytes(SP.be_bytes(self.e, n))


@lib("binascii.unhexlify")
def _unhexlify(ex, st, args, kwargs, node):
    ex.assumed.add("library: binascii.unhexlify is the inverse of hex rendering")
    return VBytes(SP.unhex(sval(ex, st, args[0], node).e))


# ---------------------------------------------------------------- logging (ghost output)
def _log(ex, st, args, kwargs, node):
    if len(args) != 1:
        raise Unsupported("logger call with format arguments")
    msg = ex.to_str(args[0])
    st.out = z3.Concat(st.out, z3.Unit(msg.e))
    return VNone()


LIB["ascmhl.logger.info"] = _log
LIB["ascmhl.logger.error"] = _log


# ---------------------------------------------------------------- os.path (assumed: POSIX; functions of the strings)
def _p1(fn):
    def h(ex, st, args, kwargs, node):
        return VStr(fn(sval(ex, st, args[0], node).e))

    return h


LIB["os.path.dirname"] = _p1(SP.p_dirname)
LIB["os.path.basename"] = _p1(SP.p_basename)
LIB["os.path.normpath"] = _p1(SP.p_normpath)
LIB["os.path.abspath"] = _p1(SP.p_abspath)
LIB["os.path.realpath"] = _p1(z3.Function("p_realpath", S, S))


@lib("os.path.join")
def _join(ex, st, args, kwargs, node):
    r = sval(ex, st, args[0], node).e
    for a in args[1:]:
        r = SP.p_join(r, sval(ex, st, a, node).e)
    return VStr(r)


@lib("os.path.relpath")
def _relpath(ex, st, args, kwargs, node):
    return VStr(SP.p_relpath(sval(ex, st, args[0], node).e, sval(ex, st, args[1], node).e))


@lib("os.path.isabs")
def _isabs(ex, st, args, kwargs, node):
    return VBool(SP.p_isabs(sval(ex, st, args[0], node).e))


@lib("os.path.exists")
def _exists(ex, st, args, kwargs, node):
    return VBool(SP.fs_exists(st.fs, sval(ex, st, args[0], node).e))


@lib("os.path.isdir")
def _isdir(ex, st, args, kwargs, node):
    return VBool(SP.fs_isdir(st.fs, sval(ex, st, args[0], node).e))


@lib("os.path.getsize")
def _getsize(ex, st, args, kwargs, node):
    return VInt(SP.fs_size(st.fs, sval(ex, st, args[0], node).e))


@lib("os.getcwd")
def _getcwd(ex, st, args, kwargs, node):
    return VStr(z3.String("cwd"))


CallMixin.LIB_ALIASES.update({"os.path.join": "os.path.join", "os.path.isdir": "os.path.isdir"})


# ---------------------------------------------------------------- time (opaque instants / naive datetimes)
clock_now = z3.Function("clock_now", z3.IntSort(), z3.IntSort())
dt_fromtimestamp = z3.Function("dt_fromtimestamp", z3.IntSort(), z3.IntSort())


@lib("datetime.datetime.now")
def _dt_now(ex, st, args, kwargs, node):
    ex.assumed.add("library: datetime.now() returns the current local time (a fresh value per call)")
    return VOpaque("datetime", z3.Int(fresh_name("now")))


@lib("datetime.datetime.fromtimestamp")
def _dt_fromts(ex, st, args, kwargs, node):
    ex.assumed.add("library: datetime.fromtimestamp(t) is the naive local time of instant t")
    return VOpaque("datetime", dt_fromtimestamp(ex.as_int(args[0])))


@lib("os.path.getmtime")
def _getmtime(ex, st, args, kwargs, node):
    return VInt(SP.fs_mtime(st.fs, sval(ex, st, args[0], node).e))


# ---------------------------------------------------------------- packaging.version (opaque, totally ordered)
@lib("packaging.version.parse")
def _version_parse(ex, st, args, kwargs, node):
    ex.assumed.add("library: packaging.version.parse(s) returns a Version (InvalidVersion for a malformed string); Version comparison is total and does not raise")
    s_ = sval(ex, st, args[0], node)
    bad = z3.Function("version_invalid", z3.StringSort(), z3.BoolSort())(s_.e)
    raise_if(ex, st, bad, "InvalidVersion", node)
    return VOpaque("version", z3.Function("version_of", z3.StringSort(), z3.IntSort())(s_.e))


def _version_attr(name):
    def h(ex, st, self, args, kwargs, node):
        return VBool(z3.Function("version_" + name, z3.IntSort(), z3.BoolSort())(self.e))

    return h


# ---------------------------------------------------------------- XML infoset model (lxml elements)
SPEC.lib_classes["Element"] = {"fields": {"tag": "str", "text": "str?", "attrib": "dict[str,str]", "children": "list[Element]"}}


@lib("Element.append")
def _el_append(ex, st, self, args, kwargs, node):
    cur = st.get_field(self.e, "Element.children", TList(TRef("Element")))
    st.set_field(self.e, "Element.children", TList(TRef("Element")), ex.list_append(cur, args[0]))
    return VNone()


@lib("ascmhl.utils.convert_local_path_to_posix")
def _to_posix(ex, st, args, kwargs, node):
    ex.assumed.add("library: str(Path(p).as_posix()) is a function of the path string (identity on a normalised relative POSIX path)")
    return VStr(z3.Function("as_posix", z3.StringSort(), z3.StringSort())(sval(ex, st, args[0], node).e))


def _purified(ex, st, old, new):
    """fresh name for an appended single-sequence list with its length / element facts (as for list.append)"""
    if ex.in_spec or isinstance(new.e, list) or old.e is None:
        return new
    r = z3.Const(fresh_name("app"), new.e.sort())
    n = z3.Length(old.e)
    j = z3.Int(fresh_name("j"))
    st.assume(r == new.e)
    st.assume(z3.Length(r) == n + 1)
    st.assume(r[n] == new.e.arg(1).arg(0))  # new.e is Concat(old, Unit(x))
    st.assume(z3.ForAll([j], z3.Implies(z3.And(0 <= j, j < n), r[j] == old.e[j])))
    return VList(new.elem_ty, r)


def _write_element(ex, st, args, kwargs, node):
    """_write_xml_element_to_file(file, element, indent): serialise + indent + write.  Ghost effect: the element is
    appended to the sequence of elements written to the file (assumed: lxml serialisation followed by the tool's
    line-feed indentation renders the infoset faithfully for text without control characters)"""
    ex.assumed.add("library: etree.tostring(element) + indentation + file.write renders the element; the rendering is a function of the infoset")
    f, el = args[0], args[1]
    cur = st.get_field(f.e, "File.written", TList(TRef("Element")))
    st.set_field(f.e, "File.written", TList(TRef("Element")), _purified(ex, st, cur, ex.list_append(cur, el)))
    return VNone()


def _write_string(ex, st, args, kwargs, node):
    f, text = args[0], args[1]
    cur = st.get_field(f.e, "File.raw", TList(TStr()))
    st.set_field(f.e, "File.raw", TList(TStr()), _purified(ex, st, cur, ex.list_append(cur, sval(ex, st, text, node))))
    return VNone()


for _m in ("ascmhl.chain_xml_parser", "ascmhl.hashlist_xml_parser"):
    LIB[_m + "._write_xml_element_to_file"] = _write_element
    LIB[_m + "._write_xml_string_to_file"] = _write_string


@lib("File.write")
def _file_write(ex, st, self, args, kwargs, node):
    cur = st.get_field(self.e, "File.raw", TList(TStr()))
    d = args[0]
    st.set_field(self.e, "File.raw", TList(TStr()), _purified(ex, st, cur, ex.list_append(cur, VStr(d.e))))
    return VNone()


# ---------------------------------------------------------------- directory listing and pattern matching
fs_child = z3.Function("fs_child", z3.IntSort(), z3.StringSort(), z3.StringSort(), z3.BoolSort())  # fs, dir, name
spec_match = z3.Function("spec_match", z3.IntSort(), z3.StringSort(), z3.BoolSort())


@lib("os.listdir")
def _listdir(ex, st, args, kwargs, node):
    ex.assumed.add("library: os.listdir(d) returns the names of the entries of d, each once, in ARBITRARY order")
    d = sval(ex, st, args[0], node)
    names = z3.Const(fresh_name("listdir"), z3.SeqSort(z3.StringSort()))
    a, b = z3.Ints(fresh_name("a") + " " + fresh_name("b"))
    x = z3.String(fresh_name("x"))
    st.assume(z3.ForAll([a, b], z3.Implies(z3.And(0 <= a, a < b, b < z3.Length(names)), names[a] != names[b])))
    st.assume(z3.ForAll([a], z3.Implies(z3.And(0 <= a, a < z3.Length(names)), fs_child(st.fs, d.e, names[a]))))
    return VList(TStr(), names)


@lib("pathspec.match_file")
def _match_file(ex, st, self, args, kwargs, node):
    ex.assumed.add("library: PathSpec.match_file is a function of (pattern list, path string)")
    return VBool(spec_match(self.e, sval(ex, st, args[0], node).e))


LIB["VOpaque.match_file"] = _match_file


@lib("os.path.islink")
def _islink(ex, st, args, kwargs, node):
    return VBool(z3.Function("fs_islink", z3.IntSort(), z3.StringSort(), z3.BoolSort())(st.fs, sval(ex, st, args[0], node).e))
