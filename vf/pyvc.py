"""pyvc - verification-condition generator for a subset of Python, executing the real AST of /repo functions.

Forward symbolic execution with path splitting.  Loops are cut by invariants (establish / preserve / use),
calls by contracts (assert requires, havoc frame, assume ensures / fork on raises).  Every operation that can raise in
CPython (subscript, attribute on None, str.index, assert, explicit raise) yields an obligation or an exceptional path
that must be allowed by the function's `raises` clause.
"""
import ast
import os

import z3

from .contracts import Contract, Loop
from .expr import ExprMixin, DeadPath
from .calls import CallMixin
from .state import *  # noqa
from .vals import *  # noqa

PY_SEMANTICS = [
    "int is unbounded (SMT Int; exact); // and % only with positive divisors (floor semantics)",
    "str -> SMT String (code points), bytes -> SMT String restricted to nothing (claims hold for all code-point strings)",
    "list/dict/set are modelled as values: a mutation through an expression is written back to that lvalue; "
    "two different lvalues are assumed not to alias the same list/dict object",
    "dict = insertion-ordered distinct key sequence + map (CPython >= 3.7 semantics)",
    "objects: field-indexed heap, classes and method resolution read statically from the source; no monkey-patching, "
    "no __getattr__, builtins not shadowed; a freshly constructed object is distinct from every existing one",
    "generators are executed as functions returning the list of yielded values (consumer does not change what the "
    "generator reads between yields)",
    "not modelled, assumed absent: OSError from the file system, MemoryError, RecursionError, signals, concurrent "
    "modification of the tree by another process",
]

DROPPED = [
    "docstrings and type annotations",
    "click decorators (contracts start at the Python parameters)",
    "logger.verbose / logger.debug calls including their f-string arguments",
    "timer() bookkeeping and element.clear() memory management in the XML readers",
]


class PathLimit(Exception):
    pass


class Exec(ExprMixin, CallMixin):
    def __init__(self, repo, registry, specs):
        self.repo = repo
        self.reg = registry
        self.specs = specs
        self.obligations = []
        self.assumed = set()  # trusted contracts / library axioms used
        self.entry_heap = {}
        self.exc_out = []
        self.in_spec = 0
        self.spec_old = None
        self.cur = None  # (FuncInfo, Contract)
        self.warnings = []
        self.npaths = 0
        self.inline_depth = 0
        self.bound_stack = []
        self.field_type_cache = {}
        self.used_anchors = set()
        self.assumed_lemmas = set()
        self.entry_axioms = []
        self.desugared = {}

    # ------------------------------------------------------------------ field typing
    def field_info(self, cls, field):
        """(heap key, type) for attribute `field` of static class cls"""
        ck = (cls, field)
        if ck in self.field_type_cache:
            return self.field_type_cache[ck]
        ft = self.reg.field_types
        res = None
        for c in self.repo.mro(cls) or [cls]:
            if f"{c}.{field}" in ft:
                res = (f"{c}.{field}", parse_type(ft[f"{c}.{field}"]))
                break
        if res is None and cls and f"{cls}.{field}" in ft:
            res = (f"{cls}.{field}", parse_type(ft[f"{cls}.{field}"]))
        if res is None and field in ft:
            res = (field, parse_type(ft[field]))
        if res is None:
            raise Unsupported(f"no declared type for field {cls}.{field}")
        self.field_type_cache[ck] = res
        return res

    def entry_heap_created(self, key, arr):
        """well-formedness of the heap at function entry: every stored reference is an allocated object (or None)"""
        fld, _, idx = key.rpartition("#")
        ts = self.reg.field_types.get(fld)
        if ts is None:
            return
        ty = parse_type(ts)
        a0 = z3.Int("alloc@entry")
        r = z3.Int("wf!r")
        j = z3.Int("wf!j")
        # only for objects that exist at entry (0 < r <= alloc@entry): the fields of ids that are not allocated yet are left
        # unconstrained - an allocation by a callee under contract "picks" an id whose fields already have the ensured
        # values, which may well be references to other new objects
        live = z3.And(0 < r, r <= a0)
        if isinstance(ty, TRef) and idx == "0":
            self.entry_axioms.append(z3.ForAll([r], z3.Implies(live, z3.And(arr[r] >= 0, arr[r] <= a0))))
        elif isinstance(ty, TList) and isinstance(ty.elem, TRef) and idx == "0":
            self.entry_axioms.append(
                z3.ForAll([r, j], z3.Implies(z3.And(live, 0 <= j, j < z3.Length(arr[r])), z3.And(arr[r][j] > 0, arr[r][j] <= a0)))
            )
        elif isinstance(ty, TDict) and isinstance(ty.val, TRef) and idx == "1":
            k = z3.Const("wf!k", arr.range().domain())
            self.entry_axioms.append(z3.ForAll([r, k], z3.Implies(live, z3.And(arr[r][k] >= 0, arr[r][k] <= a0))))
            # representation invariant of reference-valued dicts (as for dict values held in locals): exactly the keys of
            # the key sequence are present (present = mapped to a non-null reference)
            ks = z3.SeqSort(arr.range().domain())
            eh = self.entry_heap
            kkey = f"{fld}#0"
            if kkey not in eh:
                eh[kkey] = z3.Const(f"H!{kkey}", z3.ArraySort(z3.IntSort(), ks))
            karr = eh[kkey]
            self.entry_axioms.append(z3.ForAll([r, j], z3.Implies(z3.And(live, 0 <= j, j < z3.Length(karr[r])), arr[r][karr[r][j]] > 0)))
            self.entry_axioms.append(z3.ForAll([r, k], z3.Implies(z3.And(live, arr[r][k] != 0), z3.Contains(karr[r], z3.Unit(k)))))

    # ------------------------------------------------------------------ obligations
    def oblige(self, st, goal, name, kind="assert", line=None, props=None):
        if self.in_spec:
            return
        if z3.is_true(goal):
            return
        fi, c = self.cur
        self.obligations.append(
            Obligation(
                f"{fi.qualname}:{name}",
                list(self.entry_axioms) + st.hyps(),
                goal,
                kind,
                line=line,
                props=props if props is not None else c.props,
                trace=st.trace[-12:],
                func=fi.qualname,
                weak=list(getattr(st, "weak", ())) + list(getattr(self, "weak_all", ())),
            )
        )

    # ------------------------------------------------------------------ entry point
    def verify(self, contract, family_cls=None):
        fi = self.repo.funcs.get(contract.target)
        if fi is None:
            raise Unsupported(f"target {contract.target} not found in the repository")
        self.cur = (fi, contract)
        self.entry_heap = {}
        self.entry_axioms = []
        self.exc_out = []
        self.npaths = 0
        st = State(self)
        self.loop_ord = {}
        k = 0
        for n in ast.walk(fi.node):
            pass
        for n in self._loops_in_order(fi.node):
            self.loop_ord[n if isinstance(n, tuple) else id(n)] = k
            k += 1
        self.nloops = k
        self.check_annotations_attach(fi, contract)
        self.weak_all = []
        nb = self.baseline_loops().get(fi.qualname)
        if nb is not None and nb != k:
            # invariants are attached by loop ordinal: with a different number of loops they may sit on the wrong loop
            self.weak_all = [f"{fi.qualname} has {k} loops, the invariants were written for {nb}"]
        # parameters
        args = fi.node.args
        names = [a.arg for a in args.posonlyargs + args.args + args.kwonlyargs]
        for nm in names:
            if nm == "self" and fi.kind in ("method", "property"):
                cls = family_cls or fi.cls
                v = VRef(cls, z3.Int("self"), False)
                st.pc.append(v.e > 0)
                st.pc.append(v.e <= st.alloc)
                if family_cls or not self.repo.subclasses(cls):
                    # closed world: the classes of the package are those in the source
                    st.pc.append(st.class_of(v.e) == class_code(cls))
                st.locals[nm] = v
                continue
            if nm == "cls" and fi.kind == "classmethod":
                st.locals[nm] = VClass(name=family_cls or fi.cls)
                continue
            if nm not in contract.params:
                raise Unsupported(f"parameter {nm} of {fi.qualname} has no declared type in the contract")
            ty = parse_type(contract.params[nm])
            v = from_consts(ty, nm)
            self.assume_wellformed(st, v)
            st.locals[nm] = v
        for g, ty in contract.ghost.items():
            st.locals[g] = from_consts(parse_type(ty), g)
        for g, (ty, init) in contract.ghost_init.items():
            st.locals[g] = coerce(self.eval_spec_value(init, st, st.locals, st), parse_type(ty), f"ghost {g}")
        st.old = st.copy()
        if fi.is_generator:
            yt = parse_type(contract.yields or "list[int]")
            st.ghost["yield"] = default_value(yt)
        for r in contract.requires if not (contract.start_at or contract.body_of_loop is not None) else []:
            st.assume(self.eval_spec(r, st, st.locals, st.old))
        for r in contract.entry_lemmas:
            st.assume(self.eval_spec(r, st, st.locals, st.old))
        self.family_cls = family_cls
        body = fi.node.body
        if contract.start_at:
            idx = [i for i, s_ in enumerate(body) if ast.unparse(s_).split("\n")[0].startswith(contract.start_at)]
            if len(idx) != 1:
                raise Unsupported(f"region start {contract.start_at!r} not found exactly once at the top level of {fi.qualname}")
            body = body[idx[0]:]
            self.used_anchors.add("start_at")
            for nm, ts_ in contract.locals.items():
                v = from_consts(parse_type(ts_), nm)
                self.assume_wellformed(st, v)
                st.locals[nm] = v
            st.old = st.copy()
            for r in contract.requires:
                st.assume(self.eval_spec(r, st, st.locals, st.old))
        if contract.body_of_loop is not None:
            loops = [n for n in self._loops_in_order(fi.node) if not isinstance(n, tuple)]
            if contract.body_of_loop >= len(loops):
                raise Unsupported(f"loop {contract.body_of_loop} not found in {fi.qualname}")
            body = loops[contract.body_of_loop].body
            self.used_anchors.add("body_of_loop")
            for nm, ts_ in contract.locals.items():
                v = from_consts(parse_type(ts_), nm)
                self.assume_wellformed(st, v)
                st.locals[nm] = v
            st.old = st.copy()
            for r in contract.requires:
                st.assume(self.eval_spec(r, st, st.locals, st.old))
        outs = self.exec_block(body, st)
        if contract.body_of_loop is not None:
            # `continue` ends the iteration normally
            outs = [(s_, Outcome("return", value=None, line=o_.line) if o_.kind in ("continue", "normal") else o_) for s_, o_ in outs]
        self.cover = {"exits": 0, "reachable": 0, "unknown": 0}
        for s2, o in outs:
            self.check_exit(s2, o, fi, contract)
            if o.kind in ("normal", "return"):
                # cover query: requires + assumed cuts must be satisfiable and the exit reachable (vacuity guard)
                self.cover["exits"] += 1
                sv = z3.Solver()
                sv.set("timeout", 3000)
                sv.add(list(self.entry_axioms) + s2.hyps())  # exactly the hypotheses the obligations of this path are proved from
                try:
                    r = sv.check()
                except z3.Z3Exception:
                    r = z3.unknown
                if r == z3.sat:
                    self.cover["reachable"] += 1
                elif r == z3.unknown:
                    self.cover["unknown"] += 1
        # an annotation that is attached to a statement but was never applied on any executed path would silently do nothing
        for group in (contract.lemmas, contract.cuts, contract.ghost_updates):
            for anchor in group:
                if anchor not in self.used_anchors:
                    raise Unsupported(f"annotation anchored at {anchor!r} was never applied (statement kind not instrumented or unreachable)")
        return self.obligations

    def verify_lemma(self, lm):
        """obligations of a SpecLemma: in an arbitrary state, requires => each ensures clause"""
        from .source import FuncInfo

        dummy = ast.parse(f"def lemma_{lm.name}():\n    pass").body[0]
        fi = FuncInfo(f"lemma.{lm.name}", "ascmhl.history", None, dummy, "", "")
        from .contracts import Contract

        self.cur = (fi, Contract(fi.qualname, props=lm.props))
        self.entry_heap = {}
        self.entry_axioms = []
        st = State(self)
        for pn, pt in lm.params.items():
            v = from_consts(parse_type(pt), pn)
            self.assume_wellformed(st, v)
            st.locals[pn] = v
        st.old = st.copy()
        for r in lm.requires:
            st.assume(self.eval_spec(r, st, st.locals, st.old))
        for i, e in enumerate(lm.ensures):
            g = self.eval_spec(e, st, st.locals, st.old)
            for j, gj in enumerate(self.split_conj(g)):
                self.oblige(st, gj, f"ensures[{i}]" + (f".{j}" if j else ""), kind="lemma", props=lm.props)
        self.cover = {"exits": 1, "reachable": 1, "unknown": 0}
        return self.obligations

    def synthetic_loop_ordinal(self, stmt):
        return self.loop_ord.get(("synthetic", stmt.lineno))

    @staticmethod
    def is_extend_genexp(s):
        v = getattr(s, "value", None)
        return (
            isinstance(s, ast.Expr) and isinstance(v, ast.Call) and isinstance(v.func, ast.Attribute) and v.func.attr == "extend"
            and len(v.args) == 1 and isinstance(v.args[0], ast.GeneratorExp)
        )

    def check_annotations_attach(self, fi, c):
        """annotations refer to the code by statement text and local names; when the code no longer has them (renamed
        local, rewritten statement) the contract cannot be checked against this source: undecided, never a refutation"""
        texts = [ast.unparse(n).split("\n")[0] for n in ast.walk(fi.node) if isinstance(n, ast.stmt)]
        for group in (c.lemmas, c.cuts, c.ghost_updates):
            for anchor in group:
                a = anchor[7:].strip() if anchor.startswith("before:") else anchor
                if not any(a in t for t in texts):
                    raise Unsupported(f"annotation anchor {a!r} matches no statement of {fi.qualname} (the statement was rewritten)")
        stored = {n.id for n in ast.walk(fi.node) if isinstance(n, ast.Name) and isinstance(n.ctx, ast.Store)}
        stored |= {a.arg for a in ast.walk(fi.node) if isinstance(a, ast.arg)}
        for nm in list(c.exposes):
            if nm not in stored and not nm.startswith("_"):
                raise Unsupported(f"local {nm} named by the contract does not exist in {fi.qualname} (renamed?)")

    _baseline_loops = None

    def baseline_loops(self):
        if Exec._baseline_loops is None:
            import json

            from . import VERIF

            try:
                Exec._baseline_loops = json.load(open(os.path.join(VERIF, "baseline", "loops.json")))
            except OSError:
                Exec._baseline_loops = {}
        return Exec._baseline_loops

    def _loops_in_order(self, fnode):
        out = []

        def go(stmts):
            for s in stmts:
                if self.is_extend_genexp(s):
                    out.append(("synthetic", s.lineno))
                    continue
                if isinstance(s, (ast.For, ast.While)):
                    out.append(s)
                    go(s.body)
                    go(s.orelse)
                elif isinstance(s, ast.If):
                    go(s.body)
                    go(s.orelse)
                elif isinstance(s, ast.With):
                    go(s.body)
                elif isinstance(s, ast.Try):
                    go(s.body)
                    for h in s.handlers:
                        go(h.body)
                    go(s.orelse)
                    go(s.finalbody)

        go(fnode.body)
        return out

    def assume_wellformed(self, st, v):
        if isinstance(v, VRef):
            st.pc.append(v.e >= 0 if v.nullable else v.e > 0)
            st.pc.append(v.e <= st.alloc)
        elif isinstance(v, VOpt):
            self.assume_wellformed(st, v.val)
        elif isinstance(v, VTuple):
            for i in v.items:
                self.assume_wellformed(st, i)
        elif isinstance(v, VDict):
            if isinstance(v.vty, TRef):
                jj = z3.Int(fresh_name("j"))
                kk = z3.Const(fresh_name("k"), v.keys.sort().basis())
                st.pc.append(z3.ForAll([jj], z3.Implies(z3.And(0 <= jj, jj < z3.Length(v.keys)), z3.Select(v.m, v.keys[jj]) > 0)))
                st.pc.append(z3.ForAll([kk], z3.Select(v.m, kk) >= 0))
                # ... and only the keys of the key sequence are present (representation invariant: absent key -> 0)
                k3 = z3.Const(fresh_name("k"), v.keys.sort().basis())
                st.pc.append(z3.ForAll([k3], z3.Implies(z3.Select(v.m, k3) != 0, z3.Contains(v.keys, z3.Unit(k3)))))
            j, k2 = z3.Ints(fresh_name("j") + " " + fresh_name("k"))
            st.pc.append(
                z3.ForAll(
                    [j, k2],
                    z3.Implies(
                        z3.And(0 <= j, j < k2, k2 < z3.Length(v.keys)), v.keys[j] != v.keys[k2]
                    ),
                )
            )

    # ------------------------------------------------------------------ function exit
    def check_exit(self, st, o, fi, c):
        if o.kind == "dead":
            return
        if o.kind in ("break", "continue"):
            raise Unsupported("break/continue outside loop")
        if o.kind == "raise":
            cond = c.raises.get(o.exc)
            if cond is None and o.exc in ("AssertionError",) and "AssertionError" not in c.raises:
                cond = None
            if cond is None:
                self.oblige(st, z3.BoolVal(False), f"no-raise/{o.exc}@{o.line}", kind="raises", line=o.line)
            else:
                g = self.eval_spec(cond, st, st.old.locals, st.old, at_old=True)
                self.oblige(st, g, f"raises-only-if/{o.exc}@{o.line}", kind="raises", line=o.line)
            return
        # normal / return
        if fi.is_generator:
            res = st.ghost["yield"]
        else:
            res = o.value if o.kind == "return" and o.value is not None else VNone()
        if c.returns:
            res = self.coerce_checked(st, res, parse_type(c.returns), "return value")
        env = dict(st.old.locals)
        env["result"] = res
        for g in c.ghost_init:
            # ghost variables are read in their final state (old(g) gives the initial one)
            if g in st.locals:
                env[g] = st.locals[g]
        self.witness_cands = [v.e for k, v in st.locals.items() if k.startswith("_i") and isinstance(v, VInt)]
        for nm, ty in c.exposes.items():
            if nm in st.locals:
                env["_x_" + nm] = st.locals[nm]
            else:
                env["_x_" + nm] = default_value(parse_type(ty))
        for lm in c.exit_lemmas:
            st.assume(self.eval_spec(lm, st, env, st.old))
        for i, lm in enumerate(c.exit_asserts):
            g = self.eval_spec(lm, st, env, st.old)
            self.oblige(st, g, f"exit-assert[{i}]@{o.line or 'end'}", kind="cut", line=o.line)
            st.assume(g)
        for i, e in enumerate(c.ensures):
            props = None
            if isinstance(e, tuple):
                e, props = e
            g = self.eval_spec(e, st, env, st.old)
            for j, gj in enumerate(self.split_conj(g)):
                self.oblige(
                    st, gj, f"ensures[{i}]" + (f".{j}" if j else "") + f"@{o.line or 'end'}", kind="ensures", line=o.line, props=props
                )
        for pn, spec in c.out_params.items():
            want = self.eval_spec_value(spec, st, env, st.old)
            self.oblige(st, v_eq(st.locals[pn], want), f"out-param/{pn}@{o.line or 'end'}", kind="ensures", line=o.line)
        if c.raises_iff:
            for exc, cond in c.raises.items():
                g = self.eval_spec(cond, st, st.old.locals, st.old, at_old=True)
                self.oblige(st, z3.Not(g), f"raises-if/{exc}@{o.line or 'end'}", kind="raises", line=o.line)

    def split_conj(self, g):
        if z3.is_and(g):
            out = []
            for ch in g.children():
                out.extend(self.split_conj(ch))
            return out
        return [g]

    # ------------------------------------------------------------------ statements
    def exec_block(self, stmts, st):
        outs = [(st, NORMAL)]
        for s in stmts:
            new = []
            stop = self.cur[1].stop_at
            if stop and not self.inline_depth and ast.unparse(s).split("\n")[0].startswith(stop):
                self.used_anchors.add("stop_at")
                return [(s1, Outcome("return", value=None, line=s.lineno) if o.kind == "normal" else o) for s1, o in outs]
            for s1, o in outs:
                if o.kind == "normal":
                    new.extend(self.exec_stmt(s, s1))
                else:
                    new.append((s1, o))
            outs = new
            self.npaths = max(self.npaths, len(outs))
            if len(outs) > self.cur[1].max_paths:
                raise Unsupported(f"path explosion (> {self.cur[1].max_paths}) at line {getattr(s, 'lineno', '?')}")
        return outs

    def exec_stmt(self, s, st):
        m = getattr(self, "st_" + type(s).__name__, None)
        if m is None:
            raise Unsupported(f"statement {type(s).__name__} at line {s.lineno}")
        self.exc_out = []
        if isinstance(s, (ast.Assign, ast.Expr, ast.AugAssign, ast.Return, ast.If, ast.For, ast.While)):
            self.lemmas_at(s, st, before=True)
        try:
            res = m(s, st)
        except DeadPath:
            res = [(st, DEAD)]
        ex = self.exc_out
        self.exc_out = []
        return list(res) + ex

    def lemmas_at(self, s, st, before=False):
        c = self.cur[1]
        if (not c.lemmas and not c.ghost_updates and not c.cuts) or self.inline_depth:
            return
        text = ast.unparse(s).split("\n")[0]
        for anchor, exprs in c.lemmas.items():
            isb = anchor.startswith("before:")
            a = anchor[7:].strip() if isb else anchor
            if isb == before and a in text:
                self.used_anchors.add(anchor)
                for e in exprs:
                    st.assume(self.eval_spec(e, st, self.spec_locals(st), st.old))
        for anchor, exprs in c.cuts.items():
            # "before:" cuts are proved (and then assumed) in the state before the anchored statement
            isb = anchor.startswith("before:")
            a = anchor[7:].strip() if isb else anchor
            if isb and before and a in text:
                self.used_anchors.add(anchor)
                for i_, e in enumerate(exprs):
                    g = self.eval_spec(e, st, self.spec_locals(st), st.old)
                    self.oblige(st, g, f"cut[{a[:30]}][{i_}]@{s.lineno}", kind="cut", line=s.lineno)
                    st.assume(g)
        if not before:
            for anchor, exprs in c.cuts.items():
                if anchor.startswith("before:"):
                    continue
                if anchor in text:
                    self.used_anchors.add(anchor)
                    for i_, e in enumerate(exprs):
                        g = self.eval_spec(e, st, self.spec_locals(st), st.old)
                        self.oblige(st, g, f"cut[{anchor[:30]}][{i_}]@{s.lineno}", kind="cut", line=s.lineno)
                        st.assume(g)
            for anchor, ups in c.ghost_updates.items():
                if anchor in text:
                    self.used_anchors.add(anchor)
                    for name, e in ups:
                        v = self.eval_spec_value(e, st, self.spec_locals(st), st.old, keep_assumptions=True)
                        st.locals[name] = coerce(v, st.locals[name].ty, f"ghost {name}") if name in st.locals else v

    def st_Expr(self, s, st):
        if isinstance(s.value, ast.Constant):
            return [(st, NORMAL)]  # docstring
        if isinstance(s.value, (ast.Yield, ast.YieldFrom)):
            return self.do_yield(s.value, st)
        v = s.value
        if (
            isinstance(v, ast.Call)
            and isinstance(v.func, ast.Attribute)
            and v.func.attr == "extend"
            and len(v.args) == 1
            and isinstance(v.args[0], ast.GeneratorExp)
            and len(v.args[0].generators) == 1
        ):
            # L.extend(e for x in it if c): CPython consumes the generator lazily, i.e. it runs the loop
            #     for x in it:  if c:  L.append(e)
            # (the condition sees elements appended earlier in the same call).  Desugared and verified as that loop.
            key = ("extend", s.lineno)
            loop = self.desugared.get(key)
            if loop is None:
                g = v.args[0].generators[0]
                app = ast.Expr(ast.Call(func=ast.Attribute(value=v.func.value, attr="append", ctx=ast.Load()), args=[v.args[0].elt], keywords=[]))
                body = [app]
                for c in reversed(g.ifs):
                    body = [ast.If(test=c, body=body, orelse=[])]
                loop = ast.For(target=g.target, iter=g.iter, body=body, orelse=[])
                ast.copy_location(loop, s)
                ast.fix_missing_locations(loop)
                self.desugared[key] = loop
                # the synthetic loop takes the next free loop ordinal of the function being executed
                self.loop_ord[id(loop)] = self.synthetic_loop_ordinal(s)
            return self.exec_stmt(loop, st)
        self.eval(s.value, st)
        self.lemmas_at(s, st)
        return [(st, NORMAL)]

    def do_yield(self, y, st):
        cur = st.ghost["yield"]
        if isinstance(y, ast.Yield):
            v = self.eval(y.value, st)
            st.ghost["yield"] = self.list_append(cur, v)
        else:
            v = self.eval(y.value, st)
            st.ghost["yield"] = self.list_concat(cur, v)
        return [(st, NORMAL)]

    def st_Pass(self, s, st):
        return [(st, NORMAL)]

    def st_Nonlocal(self, s, st):
        return [(st, NORMAL)]

    def st_Global(self, s, st):
        return [(st, NORMAL)]

    def st_Import(self, s, st):
        return [(st, NORMAL)]

    def st_ImportFrom(self, s, st):
        return [(st, NORMAL)]

    def st_FunctionDef(self, s, st):
        st.locals[s.name] = VFunc("closure", s)
        return [(st, NORMAL)]

    def st_Assign(self, s, st):
        v = self.eval(s.value, st)
        for t in s.targets:
            self.assign(t, v, st)
        self.lemmas_at(s, st)
        return [(st, NORMAL)]

    def st_AnnAssign(self, s, st):
        if s.value is not None:
            self.assign(s.target, self.eval(s.value, st), st)
        return [(st, NORMAL)]

    def st_AugAssign(self, s, st):
        cur = self.eval(s.target, st)
        rhs = self.eval(s.value, st)
        v = self.binop(s.op, cur, rhs, st, s)
        self.assign(s.target, v, st)
        self.lemmas_at(s, st)
        return [(st, NORMAL)]

    def assign(self, t, v, st):
        if isinstance(t, ast.Name):
            decl = self.cur[1].locals.get(t.id) if not self.inline_depth and not self.in_spec else None
            if decl is not None:
                v = self.coerce_checked(st, v, parse_type(decl), f"local {t.id}")
            st.locals[t.id] = v
        elif isinstance(t, (ast.Tuple, ast.List)):
            if not isinstance(v, VTuple) or len(v.items) != len(t.elts):
                raise Unsupported(f"unpacking of {getattr(v,'ty',None)} at line {t.lineno}")
            for tt, vv in zip(t.elts, v.items):
                self.assign(tt, vv, st)
        elif isinstance(t, ast.Attribute):
            obj = self.eval(t.value, st)
            if isinstance(obj, VModule):
                if obj.name.endswith("logger"):
                    return  # logger.verbose_logging = ... : dropped with the verbose logging itself
                raise Unsupported(f"assignment to module attribute {obj.name}.{t.attr}")
            obj = self.need_ref(obj, st, t)
            key, ty = self.field_info(obj.cls, t.attr)
            self.check_write(st, obj.e, key, t)
            v = self.coerce_checked(st, v, ty, f"field {key}")
            st.set_field(obj.e, key, ty, v)
        elif isinstance(t, ast.Subscript):
            cont = self.eval(t.value, st)
            idx = self.eval(t.slice, st)
            if isinstance(cont, VDict):
                new = self.dict_set(cont, idx, v, st)
                self.assign(t.value, new, st)
            elif isinstance(cont, VList):
                i = self.as_int(idx)
                n = z3.Length(cont.e)
                self.oblige(st, z3.And(i >= -n, i < n), f"index-in-range@{t.lineno}", kind="exception", line=t.lineno)
                raise Unsupported("list element assignment")
            else:
                raise Unsupported(f"subscript assignment on {cont.ty}")
        else:
            raise Unsupported(f"assignment target {type(t).__name__}")

    def check_write(self, st, ref_e, key, node):
        """frame obligation: the function only writes fields its `modifies` clause lists (or of fresh objects)"""
        if self.in_spec or self.inline_frames_off():
            return
        c = self.cur[1]
        if c.modifies is None:
            return
        allowed = []
        anyref = False
        fname = key.split(".")[-1]
        for m in c.modifies:
            if m.startswith("*."):
                if m[2:] == fname or m[2:] == key:
                    anyref = True
                continue
            base, _, f = m.rpartition(".")
            if f != fname:
                continue
            try:
                b = self.eval_spec_value(base, st.old, st.old.locals, st.old)
            except Unsupported:
                continue
            if isinstance(b, VRef):
                allowed.append(b.e)
            elif isinstance(b, VList):
                allowed.append(("in", b.e))
        if anyref:
            return
        alts = [ref_e > st.old.alloc]
        for a in allowed:
            if isinstance(a, tuple):
                alts.append(z3.Contains(a[1], z3.Unit(ref_e)))
            else:
                alts.append(ref_e == a)
        self.oblige(st, z3.Or(alts), f"frame/{key}@{node.lineno}", kind="frame", line=node.lineno)

    def inline_frames_off(self):
        return False

    def st_Return(self, s, st):
        v = self.eval(s.value, st) if s.value is not None else VNone()
        return [(st, Outcome("return", value=v, line=s.lineno))]

    def st_Raise(self, s, st):
        exc = "Exception"
        if s.exc is not None:
            e = s.exc
            if isinstance(e, ast.Call):
                for a in e.args:
                    try:
                        self.eval(a, st)
                    except Unsupported:
                        pass
                e = e.func
            if isinstance(e, ast.Name):
                # `raise exception` where exception is a local holding an exception object
                if e.id in st.locals and isinstance(st.locals[e.id], (VOpaque, VOpt, VRef)):
                    v = st.locals[e.id]
                    return self.raise_value(v, st, s)
                exc = e.id
            elif isinstance(e, ast.Attribute):
                exc = e.attr
        return [(st, Outcome("raise", exc=exc, line=s.lineno))]

    def raise_value(self, v, st, s):
        """raise <local>: the local holds an exception object encoded as opaque 'exc' with a class code"""
        outs = []
        if isinstance(v, VOpt):
            v = v.val
        codes = self.specs.exception_codes
        for name, code in codes.items():
            s2 = st.copy()
            s2.pc.append(v.e == code)
            outs.append((s2, Outcome("raise", exc=name, line=s.lineno)))
        return outs

    def st_Assert(self, s, st):
        c = truthy(self.eval(s.test, st))
        s_f = st.copy()
        s_f.pc.append(z3.Not(c))
        st.pc.append(c)
        return [(st, NORMAL), (s_f, Outcome("raise", exc="AssertionError", line=s.lineno))]

    def st_If(self, s, st):
        c = truthy(self.eval(s.test, st))
        outs = []
        c = z3.simplify(c)
        if not z3.is_false(c):
            s_t = st.copy()
            s_t.pc.append(c)
            s_t.trace.append(f"L{s.lineno}:T")
            if self.feasible_quick(s_t):
                outs.extend(self.exec_block(s.body, s_t))
        if not z3.is_true(c):
            s_f = st
            s_f.pc.append(z3.Not(c))
            s_f.trace.append(f"L{s.lineno}:F")
            if self.feasible_quick(s_f):
                outs.extend(self.exec_block(s.orelse, s_f))
        return outs

    def feasible_quick(self, st):
        """prune syntactically contradictory paths cheaply (sound: only drops paths whose pc is unsat)"""
        if len(st.pc) > 400:
            return True
        s = z3.Solver()
        s.set("timeout", 150)
        s.add(st.pc[-40:] if False else st.pc)
        try:
            return s.check() != z3.unsat
        except z3.Z3Exception:
            return True

    def st_With(self, s, st):
        for item in s.items:
            v = self.eval(item.context_expr, st)
            if item.optional_vars is not None:
                self.assign(item.optional_vars, v, st)
        return self.exec_block(s.body, st)

    def st_Continue(self, s, st):
        return [(st, CONTINUE)]

    def st_Break(self, s, st):
        return [(st, BREAK)]

    def st_Try(self, s, st):
        """try/except: body paths that raise an exception named by a handler continue in that handler."""
        outs = []
        for s1, o in self.exec_block(s.body, st):
            if o.kind == "raise":
                handled = False
                for h in s.handlers:
                    names = []
                    if h.type is None:
                        names = None
                    elif isinstance(h.type, ast.Tuple):
                        names = [ast.unparse(e).split(".")[-1] for e in h.type.elts]
                    else:
                        names = [ast.unparse(h.type).split(".")[-1]]
                    if names is None or o.exc in names or "Exception" in names or self.specs.exc_subclass(o.exc, names):
                        outs.extend(self.exec_block(h.body, s1))
                        handled = True
                        break
                if not handled:
                    outs.append((s1, o))
            elif o.kind == "normal":
                outs.extend(self.exec_block(s.orelse, s1))
            else:
                outs.append((s1, o))
        if s.finalbody:
            res = []
            for s1, o in outs:
                for s2, o2 in self.exec_block(s.finalbody, s1):
                    res.append((s2, o if o2.kind == "normal" else o2))
            outs = res
        return outs

    # ------------------------------------------------------------------ loops
    def loop_contract(self, s):
        k = self.loop_ord.get(id(s))
        c = self.cur[1]
        if self.inline_depth and self.inline_loops is not None:
            return k, self.inline_loops.get(k) or Loop()
        lc = c.loops.get(k)
        if lc is None:
            lc = Loop()
            if k is not None:
                self.warnings.append(f"{self.cur[0].qualname}: loop {k} (line {s.lineno}) has no invariant; havoc only")
        return k, lc

    def assigned_names(self, stmts, st):
        names = set()
        for s in stmts:
            for n in ast.walk(s):
                if isinstance(n, (ast.Assign, ast.AugAssign, ast.AnnAssign)):
                    tg = n.targets if isinstance(n, ast.Assign) else [n.target]
                    for t in tg:
                        for x in ast.walk(t):
                            if isinstance(x, ast.Name) and isinstance(x.ctx, ast.Store):
                                names.add(x.id)
                elif isinstance(n, (ast.For,)):
                    for x in ast.walk(n.target):
                        if isinstance(x, ast.Name):
                            names.add(x.id)
                elif isinstance(n, ast.With):
                    for it in n.items:
                        if it.optional_vars is not None:
                            for x in ast.walk(it.optional_vars):
                                if isinstance(x, ast.Name):
                                    names.add(x.id)
                elif isinstance(n, ast.Call) and isinstance(n.func, ast.Attribute):
                    # in-place mutation of a local list / dict / set
                    if n.func.attr in self.MUTATORS:
                        b = n.func.value
                        while isinstance(b, ast.Attribute):
                            b = b.value
                        if isinstance(b, ast.Name) and not isinstance(st.locals.get(b.id), (VRef, VModule, VClass)):
                            names.add(b.id)
                elif isinstance(n, ast.Subscript) and isinstance(n.ctx, ast.Store):
                    b = n.value
                    through_field = False
                    while isinstance(b, (ast.Attribute, ast.Subscript)):
                        through_field = through_field or isinstance(b, ast.Attribute)
                        b = b.value
                    # x[k] = v re-binds the (value) container held by the local x; x.f[k] = v writes the heap field f of the
                    # object x refers to (havocked as a written field) and leaves the local x as it is
                    if isinstance(b, ast.Name) and not (through_field and isinstance(st.locals.get(b.id), VRef)):
                        names.add(b.id)
        return names

    LIB_FRAMES = {"read": ["pos"], "update": ["absorbed"], "_write_xml_element_to_file": ["written"], "_write_xml_string_to_file": ["raw"], "write": ["raw"]}  # heap effects of library stubs, by method name
    MUTATORS = {"append", "extend", "sort", "add", "discard", "update", "pop", "clear", "remove", "insert"}

    def written_fields(self, stmts, st):
        """heap fields (by attribute name) that the loop body may write: direct stores, in-place mutation through
        attribute chains, and frames of called contracts.  Returned as set of attribute names, or {'*'}."""
        out = set()
        logs = False
        allocs = False
        for s in stmts:
            for n in ast.walk(s):
                if isinstance(n, ast.Attribute) and isinstance(n.ctx, ast.Store):
                    out.add(n.attr)
                elif isinstance(n, ast.Subscript) and isinstance(n.ctx, ast.Store):
                    b = n.value
                    if isinstance(b, ast.Attribute):
                        out.add(b.attr)
                elif isinstance(n, ast.Call):
                    allocs = True
                    if isinstance(n.func, ast.Attribute) and n.func.attr in self.MUTATORS:
                        b = n.func.value
                        if isinstance(b, ast.Attribute):
                            out.add(b.attr)
                    if isinstance(n.func, ast.Attribute) and n.func.attr in self.LIB_FRAMES:
                        out.update(self.LIB_FRAMES[n.func.attr])
                    if isinstance(n.func, ast.Name) and n.func.id in self.LIB_FRAMES:
                        out.update(self.LIB_FRAMES[n.func.id])
                    fr = self.static_callee_frame(n, st)
                    if fr is None:
                        pass
                    else:
                        mods, lg = fr
                        logs = logs or lg
                        for m in mods:
                            out.add(m.rpartition(".")[2])
        return out, logs, allocs

    def havoc_for_loop(self, st, body, lc):
        names = self.assigned_names(body, st)
        for anchor, ups in self.cur[1].ghost_updates.items():
            if any(anchor in ast.unparse(n).split("\n")[0] for s_ in body for n in ast.walk(s_) if isinstance(n, ast.stmt)):
                names.update(nm for nm, _ in ups)
        c = self.cur[1]
        for nm in sorted(names):
            if nm in c.locals:
                st.locals[nm] = fresh(parse_type(c.locals[nm]), nm)
                self.assume_wellformed(st, st.locals[nm])
            elif nm in st.locals and st.locals[nm].ty is not None:
                old = st.locals[nm]
                if isinstance(old, VNone):
                    raise Unsupported(f"local {nm} is None before a loop that assigns it: declare its type in locals=")
                v = fresh(old.ty, nm)
                if isinstance(old, VClass) and old.name:
                    v = old
                self.assume_wellformed(st, v)
                st.locals[nm] = v
            else:
                st.locals.pop(nm, None)
        fields, logs, allocs = self.written_fields(body, st)
        if lc.havoc_fields is not None:
            fields = set(lc.havoc_fields)
        for key in list(self.all_field_keys()):
            if key.split(".")[-1] in fields:
                st.havoc_field(key, parse_type(self.reg.field_types[key]))
        if allocs:
            a = z3.Int(fresh_name("alloc"))
            st.pc.append(a >= st.alloc)
            st.alloc = a
            # class tags of already allocated objects do not change
        if logs:
            o2 = z3.Const(fresh_name("out"), st.out.sort())
            st.pc.append(z3.PrefixOf(st.out, o2))
            st.out = o2
        if "yield" in st.ghost and any(isinstance(n, (ast.Yield, ast.YieldFrom)) for s in body for n in ast.walk(s)):
            st.ghost["yield"] = fresh(st.ghost["yield"].ty, "yielded")

    def all_field_keys(self):
        return self.reg.field_types.keys()

    def spec_locals(self, st, extra=None):
        env = dict(st.locals)
        if "yield" in st.ghost:
            env["_yielded"] = st.ghost["yield"]
        if extra:
            env.update(extra)
        return env

    def check_invariants(self, st, lc, k, phase, extra):
        for j, inv in enumerate(lc.invariant):
            g = self.eval_spec(inv, st, self.spec_locals(st, extra), st.old)
            for jj, gj in enumerate(self.split_conj(g)):
                self.oblige(st, gj, f"loop{k}/inv[{j}]" + (f".{jj}" if jj else "") + f"/{phase}", kind="invariant")

    def assume_invariants(self, st, lc, extra):
        for inv in lc.invariant:
            st.assume(self.eval_spec(inv, st, self.spec_locals(st, extra), st.old))

    def assume_lemmas(self, st, lc, extra):
        for lm in lc.lemmas:
            st.assume(self.eval_spec(lm, st, self.spec_locals(st, extra), st.old))

    def mark_weak_loop(self, st, s, lc):
        """a loop that carries no invariant is cut by a bare havoc: what follows is an over-approximation that no
        annotation vouches for, so a counter-model found there means "proof lost", not "obligation refuted".  """
        if not lc.invariant:
            if not hasattr(st, "weak"):
                st.weak = []
            st.weak.append(f"loop at line {s.lineno} of {self.cur[0].qualname if not self.inline_depth else 'an inlined callee'} has no invariant")

    def st_While(self, s, st):
        k, lc = self.loop_contract(s)
        self.check_invariants(st, lc, k, "establish", None)
        self.mark_weak_loop(st, s, lc)
        st2 = st
        self.havoc_for_loop(st2, s.body + s.orelse, lc)
        self.assume_invariants(st2, lc, None)
        c = truthy(self.eval(s.test, st2))
        outs = []
        # body
        sb = st2.copy()
        sb.pc.append(c)
        sb.trace.append(f"L{s.lineno}:loop{k}-body")
        d0 = None
        if lc.decreases:
            d0 = self.as_int(self.eval_spec_value(lc.decreases, sb, self.spec_locals(sb), sb.old))
        self.assume_lemmas(sb, lc, None)
        for s3, o in self.exec_block(s.body, sb):
            if o.kind in ("normal", "continue"):
                self.assume_lemmas(s3, lc, None)
                self.check_invariants(s3, lc, k, "preserve", None)
                if d0 is not None:
                    d1 = self.as_int(self.eval_spec_value(lc.decreases, s3, self.spec_locals(s3), s3.old))
                    self.oblige(s3, z3.And(d0 >= 0, d1 < d0), f"loop{k}/decreases", kind="termination")
            elif o.kind == "break":
                outs.append((s3, NORMAL))
            else:
                outs.append((s3, o))
        # exit
        se = st2
        se.pc.append(z3.Not(c))
        se.trace.append(f"L{s.lineno}:loop{k}-exit")
        for a in lc.assume_after:
            se.assume(self.eval_spec(a, se, self.spec_locals(se), se.old))
        if s.orelse:
            outs.extend(self.exec_block(s.orelse, se))
        else:
            outs.append((se, NORMAL))
        return outs

    def st_For(self, s, st):
        k, lc = self.loop_contract(s)
        it = self.eval_iterable(s.iter, st)  # -> (length term, getter(index term, state) -> V, seq value or None)
        n, getter, seqv = it
        i0 = VInt(0)
        extra0 = {"_i": i0, f"_i{k}": i0}
        if seqv is not None:
            extra0["_seq"] = seqv
            extra0[f"_seq{k}"] = seqv
        self.check_invariants(st, lc, k, "establish", extra0)
        self.mark_weak_loop(st, s, lc)
        st2 = st
        self.havoc_for_loop(st2, s.body + s.orelse, lc)
        # iteration variables are re-bound in each iteration
        i = z3.Int(fresh_name(f"_i{k}"))
        st2.pc.append(i >= 0)
        st2.pc.append(i <= n)
        extra = {"_i": VInt(i), f"_i{k}": VInt(i)}
        if seqv is not None:
            extra["_seq"] = seqv
            extra[f"_seq{k}"] = seqv
        st2.locals[f"_i{k}"] = VInt(i)
        if seqv is not None:
            st2.locals[f"_seq{k}"] = seqv
        self.assume_invariants(st2, lc, extra)
        outs = []
        sb = st2.copy()
        sb.pc.append(i < n)
        sb.trace.append(f"L{s.lineno}:loop{k}-body")
        item = getter(i, sb)
        self.assign(s.target, item, sb)
        self.assume_lemmas(sb, lc, extra)
        i1 = VInt(i + 1)
        extra1 = dict(extra)
        extra1["_i"] = i1
        extra1[f"_i{k}"] = i1
        for s3, o in self.exec_block(s.body, sb):
            if o.kind in ("normal", "continue"):
                s3.locals[f"_i{k}"] = i1
                self.assume_lemmas(s3, lc, extra1)
                self.check_invariants(s3, lc, k, "preserve", extra1)
            elif o.kind == "break":
                outs.append((s3, NORMAL))
            else:
                outs.append((s3, o))
        se = st2
        se.pc.append(i == n)
        se.trace.append(f"L{s.lineno}:loop{k}-exit")
        for a in lc.assume_after:
            se.assume(self.eval_spec(a, se, self.spec_locals(se, extra), se.old))
        if s.orelse:
            outs.extend(self.exec_block(s.orelse, se))
        else:
            outs.append((se, NORMAL))
        return outs

    # ------------------------------------------------------------------ spec evaluation
    def eval_spec(self, src, st, env, old_st, at_old=False):
        v = self.eval_spec_value(src, st, env, old_st, at_old)
        return truthy(v)

    def eval_spec_value(self, src, st, env, old_st, at_old=False, keep_assumptions=False):
        tree = ast.parse(src.strip(), mode="eval").body if isinstance(src, str) else src
        base = old_st if at_old else st
        tmp = base.copy()
        tmp.locals = dict(env)
        tmp.guards = []
        saved = (self.in_spec, self.spec_old)
        self.in_spec += 1
        self.spec_old = old_st
        n0 = len(tmp.pc)
        try:
            v = self.eval(tree, tmp)
        finally:
            self.in_spec, self.spec_old = saved
        if keep_assumptions or len(tmp.pc) > n0:
            # facts introduced by the evaluation itself (comprehension / purified-append definitions of fresh names)
            st.pc.extend(tmp.pc[n0:])
        return v
