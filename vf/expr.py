"""Expression evaluation of the pyvc executor (program expressions and contract expressions)."""
import ast

import z3

from .state import *  # noqa
from .vals import *  # noqa


class ExprMixin:
    # ------------------------------------------------------------------ helpers
    def as_int(self, v):
        if isinstance(v, VInt):
            return v.e
        if isinstance(v, VBool):
            return z3.If(v.e, 1, 0)
        if isinstance(v, VOpt) and isinstance(v.inner_ty, TInt):
            return v.val.e
        raise Unsupported(f"int expected, got {v.ty}")

    def need_ref(self, v, st, node):
        if isinstance(v, VRef):
            if v.nullable:
                self.oblige(
                    st, v.e != 0, f"not-None@{node.lineno}:{ast.unparse(node)[:50]}", kind="exception", line=node.lineno
                )
                return VRef(v.cls, v.e, False)
            return v
        if isinstance(v, VNone):
            self.oblige(st, z3.BoolVal(False), f"not-None@{node.lineno}:{ast.unparse(node)[:50]}", kind="exception", line=node.lineno)
            raise DeadPath()
        raise Unsupported(f"attribute access on {getattr(v, 'ty', type(v).__name__)} at line {getattr(node,'lineno','?')}: {ast.unparse(node)[:60]}")

    def unopt(self, v, st, node, what="value"):
        """use an Optional where a definite value is needed: obligation `is not None`"""
        if isinstance(v, VOpt):
            self.oblige(
                st,
                z3.Not(v.isnone),
                f"not-None@{getattr(node,'lineno','?')}:{ast.unparse(node)[:50] if isinstance(node, ast.AST) else what}",
                kind="exception",
                line=getattr(node, "lineno", None),
            )
            return v.val
        if isinstance(v, VNone):
            self.oblige(st, z3.BoolVal(False), f"not-None@{getattr(node,'lineno','?')}", kind="exception")
            raise DeadPath()
        return v

    def coerce_checked(self, st, v, ty, what):
        """coerce with the not-None obligation when an Optional is used as a definite value"""
        if isinstance(v, VOpt) and not isinstance(ty, TOpt) and v.inner_ty == ty:
            self.oblige(st, z3.Not(v.isnone), f"not-None:{what}", kind="exception")
            return v.val
        if isinstance(v, VRef) and isinstance(ty, TRef) and v.nullable and not ty.nullable:
            self.oblige(st, v.e != 0, f"not-None:{what}", kind="exception")
            return VRef(v.cls, v.e, False)
        if isinstance(v, VNone) and isinstance(ty, (TInt, TStr, TBytes, TBool, TList, TDict)):
            self.oblige(st, z3.BoolVal(False), f"not-None:{what}", kind="exception")
            return default_value(ty)
        return coerce(v, ty, what)

    def list_append(self, lst, v):
        if not isinstance(lst, VList):
            raise Unsupported(f"append on {lst.ty}")
        if isinstance(lst.e, list):
            comps = flat(coerce(v, lst.elem_ty, "list element"))
            return VList(lst.elem_ty, [z3.Concat(s_, z3.Unit(c)) for s_, c in zip(lst.e, comps)])
        ev = self.to_elem(v, lst.elem_ty)
        return VList(lst.elem_ty, z3.Concat(lst.e, z3.Unit(ev)))

    def to_elem(self, v, ety):
        v = coerce(v, ety, "list element")
        fl = flat(v)
        if len(fl) != 1:
            raise Unsupported(f"container element of type {ety}")
        return fl[0]

    def list_concat(self, a, b):
        if not (isinstance(a, VList) and isinstance(b, VList)):
            raise Unsupported("list concat")
        return VList(a.elem_ty, z3.Concat(a.e, b.e))

    def seq_contains(self, seq, e):
        return z3.Contains(seq, z3.Unit(e))

    def dict_set(self, d, k, v, st):
        if d.keys is None:
            kty, vty = k.ty, v.ty
            if isinstance(vty, TRef):
                vty = TRef(vty.cls)
            d = empty_dict(TDict(kty, vty))
        ke = self.to_elem(k, d.kty)
        has = self.dict_has(d, ke)
        keys = z3.If(has, d.keys, z3.Concat(d.keys, z3.Unit(ke)))
        if not self.in_spec and st is not None and not z3.is_true(z3.simplify(has)) and not z3.is_false(z3.simplify(has)):
            # purified description of the new key sequence (as for list.append): quantified invariants over the keys are
            # discharged from length / element facts about a fresh name, not from the sequence solver on If(.., Concat(..))
            r = z3.Const(fresh_name("keys"), keys.sort())
            n = z3.Length(d.keys)
            j = z3.Int(fresh_name("j"))
            # (the defining equation r == If(has, keys, keys ++ [k]) is deliberately NOT asserted: every consequence the
            # proofs use is stated below, and without the equation the sequence solver has nothing to unfold)
            st.assume(z3.Implies(has, r == d.keys))
            st.assume(z3.Implies(z3.Not(has), z3.And(z3.Length(r) == n + 1, r[n] == ke, z3.ForAll([j], z3.Implies(z3.And(0 <= j, j < n), r[j] == d.keys[j])))))
            # membership facts the sequence solver is slow to derive: the stored key is a key, every old key still is
            x = z3.Const(fresh_name("x"), ke.sort())
            st.assume(z3.Contains(r, z3.Unit(ke)))
            st.assume(z3.ForAll([x], z3.Implies(z3.Contains(d.keys, z3.Unit(x)), z3.Contains(r, z3.Unit(x)))))
            st.assume(z3.ForAll([x], z3.Implies(z3.Contains(r, z3.Unit(x)), z3.Or(x == ke, z3.Contains(d.keys, z3.Unit(x))))))
            st.assume(has == z3.Contains(d.keys, z3.Unit(ke)) if not isinstance(d.vty, TRef) else z3.BoolVal(True))
            keys = r
        return VDict(d.kty, d.vty, keys, dict_store(d, ke, v), d.default)

    def dict_has(self, d, ke):
        """key membership.  Dicts whose values are (non-null) object references keep the representation invariant
        `map[k] == 0 for every absent key`, so membership and .get() need no sequence reasoning."""
        if isinstance(d.vty, TRef):
            return z3.Select(d.m, ke) != 0
        return self.seq_contains(d.keys, ke)

    def defaultdict_get(self, d, k, st, node):
        """d[k] on a defaultdict(Class): a missing key is inserted with a freshly constructed object.
        The new object is allocated on both branches (harmless: unreachable if the key is present)."""
        ke = self.to_elem(k, d.kty)
        if d.default == "list":
            # defaultdict(list): a missing key is inserted with an empty list
            has = self.seq_contains(d.keys, ke)
            val = z3.If(has, z3.Select(d.m, ke), z3.Empty(d.m.range()))
            keys = z3.If(has, d.keys, z3.Concat(d.keys, z3.Unit(ke)))
            nd = VDict(d.kty, d.vty, keys, z3.Store(d.m, ke, val), d.default)
            self.assign(node.value, nd, st)
            return elem_value(d.vty, val)
        has = self.dict_has(d, ke)
        ci = VClass(name=d.default)
        newobj = self.construct(ci, [], {}, st, node)
        val = z3.If(has, z3.Select(d.m, ke), newobj.e)
        keys = z3.If(has, d.keys, z3.Concat(d.keys, z3.Unit(ke)))
        nd = VDict(d.kty, d.vty, keys, z3.Store(d.m, ke, val), d.default)
        self.assign(node.value, nd, st)
        return elem_value(d.vty, val)

    def dict_get(self, d, k):
        ke = self.to_elem(k, d.kty)
        return dict_select(d, ke), self.dict_has(d, ke)

    # ------------------------------------------------------------------ eval
    def eval(self, e, st):
        m = getattr(self, "ev_" + type(e).__name__, None)
        if m is None:
            raise Unsupported(f"expression {type(e).__name__} at line {getattr(e,'lineno','?')}: {ast.unparse(e)[:60]}")
        return m(e, st)

    def ev_Constant(self, e, st):
        v = e.value
        if v is None:
            return VNone()
        if isinstance(v, bool):
            return VBool(v)
        if isinstance(v, int):
            return VInt(v)
        if isinstance(v, str):
            return VStr(v)
        if isinstance(v, bytes):
            return VBytes(v)
        raise Unsupported(f"constant {v!r}")

    def ev_Name(self, e, st):
        nm = e.id
        if nm in st.locals:
            return st.locals[nm]
        if self.in_spec and nm == "out":
            return VList(TStr(), st.out)
        if self.in_spec and nm in self.specs.funcs:
            return VFunc("spec", nm)
        if self.in_spec and nm in self.specs.consts:
            return self.specs.consts[nm]
        fi = self.cur[0]
        mod = self.cur_module()
        r = self.repo.resolve_name(mod, nm)
        if r is not None:
            return self.value_of_resolved(r, st, nm)
        if nm in self.BUILTINS:
            return VFunc("lib", nm)
        if nm in self.specs.exception_codes:
            return VFunc("lib", "exc:" + nm)
        if nm in ("True", "False"):
            return VBool(nm == "True")
        if self.in_spec and nm in self.repo.classes:
            return VClass(name=nm)
        raise Unsupported(f"unbound name {nm} at line {getattr(e,'lineno','?')} in {fi.qualname}")

    def cur_module(self):
        if getattr(self, "inline_mod", None):
            return self.inline_mod[-1] if self.inline_mod else self.cur[0].module
        return self.cur[0].module

    def value_of_resolved(self, r, st, nm):
        if r[0] == "func":
            return VFunc("repo", r[1])
        if r[0] == "class":
            return VClass(name=r[1].name)
        if r[0] == "const":
            expr, modname = r[1], r[2]
            return self.eval_const_expr(expr, modname, st)
        if r[0] == "module":
            return VModule(r[1], r[1] in self.repo.modules)
        if r[0] == "extern":
            return self.extern_value(r[1], r[2])
        raise Unsupported(f"name {nm}")

    def extern_value(self, base, attr):
        full = f"{base}.{attr}"
        if full in self.LIB or full in self.LIB_ALIASES:
            return VFunc("lib", self.LIB_ALIASES.get(full, full))
        return VModule(full, False)

    def eval_const_expr(self, expr, modname, st):
        """module-level constant: literal strings / ints / lists of literals / simple calls"""
        try:
            lit = ast.literal_eval(expr)
        except Exception:
            lit = None
            if isinstance(expr, ast.Call):
                # e.g. namedtuple(...), version("ascmhl")
                src = ast.unparse(expr)
                if src.startswith("namedtuple("):
                    return VFunc("lib", "namedtuple:" + ast.literal_eval(expr.args[0]))
                if src.startswith("version("):
                    return VStr(z3.String("ascmhl_tool_version"))
            raise Unsupported(f"module constant {ast.unparse(expr)[:40]}")
        return self.literal(lit)

    def literal(self, lit):
        if lit is None:
            return VNone()
        if isinstance(lit, bool):
            return VBool(lit)
        if isinstance(lit, int):
            return VInt(lit)
        if isinstance(lit, str):
            return VStr(lit)
        if isinstance(lit, bytes):
            return VBytes(lit)
        if isinstance(lit, (list, tuple)) and all(isinstance(x, str) for x in lit) and isinstance(lit, list):
            e = z3.Empty(z3.SeqSort(z3.StringSort()))
            for x in lit:
                e = z3.Concat(e, z3.Unit(z3.StringVal(x)))
            return VList(TStr(), z3.simplify(e) if lit else e)
        if isinstance(lit, tuple):
            return VTuple([self.literal(x) for x in lit])
        raise Unsupported(f"literal {lit!r}")

    def ev_Attribute(self, e, st):
        obj = self.eval(e.value, st)
        return self.getattr_value(obj, e.attr, st, e)

    def getattr_value(self, obj, attr, st, node):
        if isinstance(obj, VModule):
            if obj.repo_module:
                r = self.repo.resolve_name(obj.name, attr)
                if r is None:
                    sub = f"{obj.name}.{attr}"
                    if sub in self.repo.modules:
                        return VModule(sub, True)
                    if obj.name.endswith("logger") and attr in ("verbose_logging", "debug_logging"):
                        return VBool(z3.Bool("logger_" + attr))
                    raise Unsupported(f"{obj.name}.{attr}")
                return self.value_of_resolved(r, st, attr)
            full = f"{obj.name}.{attr}"
            if full in self.LIB or full in self.LIB_ALIASES:
                return VFunc("lib", self.LIB_ALIASES.get(full, full))
            if full in self.LIB_CONSTS:
                return self.LIB_CONSTS[full](self, st)
            return VModule(full, False)
        if isinstance(obj, VClass):
            if obj.name is None:
                raise Unsupported(f"attribute {attr} of a symbolic class")
            if obj.name in self.repo.classes:
                fi = self.repo.find_method(obj.name, attr)
                if fi is not None:
                    if fi.kind == "classmethod":
                        return VFunc("repo", fi, self_val=obj)
                    return VFunc("repo", fi)
                a, ci = self.repo.find_class_attr(obj.name, attr)
                if a is not None:
                    return self.eval_const_expr(a, ci.module, st)
            raise Unsupported(f"class attribute {obj.name}.{attr}")
        if isinstance(obj, VTuple) and getattr(obj, "fields", None) and attr in obj.fields:
            return obj.items[obj.fields.index(attr)]
        if isinstance(obj, VOpaque) and obj.name.startswith("enum:") and attr == "value":
            return VClass(e=obj.e)
        if isinstance(obj, VOpaque) and obj.name == "version" and attr in ("is_devrelease", "is_prerelease", "is_postrelease"):
            return VBool(z3.Function("version_" + attr, z3.IntSort(), z3.BoolSort())(obj.e))
        if isinstance(obj, (VStr, VBytes, VList, VDict, VSet, VInt, VOpaque)):
            return VFunc("lib", f"method:{attr}", self_val=obj)
        if isinstance(obj, VOpt):
            if self.in_spec:
                return self.getattr_value(obj.val, attr, st, node)
            inner = self.unopt(obj, st, node)
            return self.getattr_value(inner, attr, st, node)
        if isinstance(obj, VFunc):
            raise Unsupported(f"attribute of function at line {node.lineno}")
        if isinstance(obj, VRef) and self.in_spec:
            obj = VRef(obj.cls, obj.e, False)
        obj = self.need_ref(obj, st, node)
        # data field?
        cls = obj.cls
        lib = self.specs.lib_classes.get(cls)
        if lib is not None:
            if attr in lib.get("fields", {}):
                key, ty = f"{cls}.{attr}", parse_type(lib["fields"][attr])
                return self.read_field(st, obj, key, ty)
            return VFunc("lib", f"{cls}.{attr}", self_val=obj)
        fi = self.repo.find_method(cls, attr)
        if fi is not None:
            if fi.kind == "property":
                return self.call_repo(fi, [obj], {}, st, node)
            if fi.kind == "staticmethod":
                return VFunc("repo", fi)
            if fi.kind == "classmethod":
                return VFunc("repo", fi, self_val=self.dyn_class(obj, st))
            return VFunc("repo", fi, self_val=obj)
        try:
            key, ty = self.field_info(cls, attr)
        except Unsupported:
            a, ci = self.repo.find_class_attr(cls, attr)
            if a is not None:
                return self.eval_const_expr(a, ci.module, st)
            raise
        return self.read_field(st, obj, key, ty)

    def dyn_class(self, obj, st):
        subs = self.repo.subclasses(obj.cls)
        if not subs:
            return VClass(name=obj.cls)
        fam = getattr(self, "family_cls", None)
        if fam and obj.cls == fam:
            return VClass(name=fam)
        return VClass(e=st.class_of(obj.e))

    def read_field(self, st, obj, key, ty):
        if not self.in_spec and key in self.cur[1].volatile:
            # rely condition of the writer thread: the field is None until it is set once, afterwards it never changes.
            # Every read in this thread therefore sees None or the final value; a value seen once is seen again.
            last = st.ghost.get(("volatile", key))
            v = fresh(ty, "volatile_" + key.split(".")[-1])
            self.assume_wellformed(st, v)
            if last is not None:
                fl, fv = flat(last), flat(v)
                notnone = z3.Not(fl[0]) if isinstance(last, VOpt) else fl[0] != 0
                st.assume(z3.Implies(notnone, z3.And([a == b for a, b in zip(fl, fv)])))
            st.ghost[("volatile", key)] = v
            return v
        v = st.get_field(obj.e, key, ty)
        if not self.in_spec:
            self.assume_wf_read(st, v)
        if isinstance(v, (VList, VDict, VSet)):
            v.origin = (obj.e, key, ty)
        return v

    def assume_wf_read(self, st, v):
        if isinstance(v, VRef):
            st.assume(v.e >= 0 if v.nullable else v.e > 0)
            st.assume(v.e <= st.alloc)

    def ev_Subscript(self, e, st):
        cont = self.eval(e.value, st)
        if isinstance(cont, VClass) and cont.name and self.repo.classes.get(cont.name) and any(
            b.endswith("Enum") for b in self.repo.classes[cont.name].bases
        ):
            key = self.eval(e.slice, st)
            return self.enum_lookup(cont.name, key, st, e)
        if isinstance(cont, VModule) or isinstance(cont, VFunc):
            # typing generics such as Dict[str, str]
            return VOpaque("typing", z3.IntVal(0))
        if isinstance(cont, VOpt):
            cont = cont.val if self.in_spec else self.unopt(cont, st, e.value)
        if isinstance(e.slice, ast.Slice):
            return self.do_slice(cont, e.slice, st, e)
        idx = self.eval(e.slice, st)
        if isinstance(cont, VDict):
            if cont.default is not None and not self.in_spec:
                return self.defaultdict_get(cont, idx, st, e)
            val, has = self.dict_get(cont, idx)
            self.oblige(st, has, f"key-present@{e.lineno}:{ast.unparse(e)[:50]}", kind="exception", line=e.lineno)
            if not self.in_spec:
                self.assume_wf_read(st, val)
            return val
        if isinstance(cont, (VList, VStr, VBytes)):
            i = self.as_int(idx)
            n = seq_len(cont) if isinstance(cont, VList) else z3.Length(cont.e)
            si = z3.simplify(i)
            if z3.is_int_value(si) and si.as_long() < 0:
                self.oblige(st, -si.as_long() <= n, f"index-in-range@{e.lineno}:{ast.unparse(e)[:50]}", kind="exception", line=e.lineno)
                i = n + si
            else:
                # symbolic indices are required to be non-negative (the package never indexes with a negative variable)
                self.oblige(
                    st, z3.And(i >= 0, i < n), f"index-in-range@{e.lineno}:{ast.unparse(e)[:50]}", kind="exception", line=e.lineno
                )
                i = si
            if isinstance(cont, VList):
                val = seq_get(cont, i)
                if not self.in_spec:
                    self.assume_wf_read(st, val)
                return val
            if isinstance(cont, VStr):
                return VStr(z3.SubString(cont.e, i, 1))
            return VInt(z3.StrToCode(z3.SubString(cont.e, i, 1)))
        if isinstance(cont, VTuple):
            si = z3.simplify(self.as_int(idx))
            if z3.is_int_value(si):
                return cont.items[si.as_long()]
        raise Unsupported(f"subscript on {cont.ty} at line {e.lineno}")

    def do_slice(self, cont, sl, st, node):
        if not isinstance(cont, (VList, VStr, VBytes)):
            raise Unsupported(f"slice of {cont.ty}")
        if sl.step is not None:
            raise Unsupported("slice step")
        n = z3.Length(cont.e)

        def norm(x, dflt):
            if x is None:
                return dflt
            v = self.as_int(self.eval(x, st))
            sv = z3.simplify(v)
            if z3.is_int_value(sv):
                if sv.as_long() < 0:
                    return z3.If(n + sv < 0, 0, n + sv)
                return z3.If(sv > n, n, sv)
            return z3.If(v < 0, z3.If(n + v < 0, 0, n + v), z3.If(v > n, n, v))

        lo = norm(sl.lower, z3.IntVal(0))
        hi = norm(sl.upper, n)
        ln = z3.If(hi > lo, hi - lo, 0)
        e = z3.SubSeq(cont.e, lo, ln) if isinstance(cont, VList) else z3.SubString(cont.e, lo, ln)
        if isinstance(cont, VList):
            return VList(cont.elem_ty, e)
        return type(cont)(e)

    def ev_BinOp(self, e, st):
        a = self.eval(e.left, st)
        b = self.eval(e.right, st)
        return self.binop(e.op, a, b, st, e)

    def binop(self, op, a, b, st, node):
        if isinstance(a, VOpt):
            a = a.val if self.in_spec else self.unopt(a, st, node)
        if isinstance(b, VOpt):
            b = b.val if self.in_spec else self.unopt(b, st, node)
        if isinstance(op, ast.Add):
            if isinstance(a, VStr) and isinstance(b, VStr):
                return VStr(z3.Concat(a.e, b.e))
            if isinstance(a, VBytes) and isinstance(b, VBytes):
                return VBytes(z3.Concat(a.e, b.e))
            if isinstance(a, VList) and isinstance(b, VList):
                return self.list_concat(a, b)
        if isinstance(op, ast.Mult) and isinstance(a, VStr) and isinstance(b, VInt):
            return VStr(self.specs.call("str_repeat", [a, b]).e)
        if isinstance(a, (VInt, VBool)) and isinstance(b, (VInt, VBool)):
            x, y = self.as_int(a), self.as_int(b)
            if isinstance(op, ast.Add):
                return VInt(x + y)
            if isinstance(op, ast.Sub):
                return VInt(x - y)
            if isinstance(op, ast.Mult):
                return VInt(x * y)
            if isinstance(op, (ast.FloorDiv, ast.Mod)):
                sy = z3.simplify(y)
                if not (z3.is_int_value(sy) and sy.as_long() > 0):
                    self.oblige(st, y > 0, f"positive-divisor@{node.lineno}", kind="exception", line=node.lineno)
                return VInt(x / y) if isinstance(op, ast.FloorDiv) else VInt(x % y)
            if isinstance(op, ast.Pow):
                sx, sy = z3.simplify(x), z3.simplify(y)
                if z3.is_int_value(sx) and z3.is_int_value(sy) and sy.as_long() >= 0:
                    return VInt(sx.as_long() ** sy.as_long())
                if z3.is_int_value(sx):
                    return self.specs.call("pow_const", [VInt(sx), VInt(y)])
            if isinstance(op, ast.BitAnd) and isinstance(a, VBool) and isinstance(b, VBool):
                return VBool(z3.And(a.e, b.e))
            if isinstance(op, ast.BitOr) and isinstance(a, VBool) and isinstance(b, VBool):
                return VBool(z3.Or(a.e, b.e))
        if isinstance(op, ast.Sub) and isinstance(a, VSet) and isinstance(b, VSet):
            x = z3.Const(fresh_name("x"), a.m.domain())
            return VSet(a.ety, z3.Lambda([x], z3.And(z3.Select(a.m, x), z3.Not(z3.Select(b.m, x)))))
        if isinstance(op, ast.Mod) and isinstance(a, VStr):
            raise Unsupported("% string formatting")
        raise Unsupported(f"binary {type(op).__name__} on {a.ty}, {b.ty} at line {getattr(node,'lineno','?')}")

    def ev_UnaryOp(self, e, st):
        v = self.eval(e.operand, st)
        if isinstance(e.op, ast.Not):
            return VBool(z3.Not(truthy(v)))
        if isinstance(e.op, ast.USub):
            return VInt(-self.as_int(v))
        raise Unsupported(f"unary {type(e.op).__name__}")

    def ev_BoolOp(self, e, st):
        """short-circuit: later operands are evaluated under the guard that earlier ones did not decide"""
        vals = []
        npush = 0
        try:
            for i, sub in enumerate(e.values):
                v = self.eval(sub, st)
                vals.append(v)
                if i < len(e.values) - 1:
                    t = truthy(v)
                    st.guards.append(t if isinstance(e.op, ast.And) else z3.Not(t))
                    npush += 1
        finally:
            for _ in range(npush):
                st.guards.pop()
        if all(isinstance(v, VBool) for v in vals):
            es = [v.e for v in vals]
            return VBool(z3.And(es) if isinstance(e.op, ast.And) else z3.Or(es))
        # value-returning and/or
        try:
            res = vals[-1]
            for v in reversed(vals[:-1]):
                t = truthy(v)
                if isinstance(e.op, ast.And):
                    res = self.merge_values(t, res, v)
                else:
                    res = self.merge_values(t, v, res)
            return res
        except Unsupported:
            # operands of different types: only the truth value is representable (enough for conditions)
            es = [truthy(v) for v in vals]
            return VBool(z3.And(es) if isinstance(e.op, ast.And) else z3.Or(es))

    def merge_values(self, c, a, b):
        c = z3.simplify(c)
        if z3.is_true(c):
            return a
        if z3.is_false(c):
            return b
        # `x or y` with x Optional: where x is falsy-but-not-None (e.g. "") python returns y as well
        if isinstance(a, VOpt) and not isinstance(b, (VOpt, VNone)) and a.inner_ty == b.ty:
            a = a.val
        if isinstance(b, VOpt) and not isinstance(a, (VOpt, VNone)) and b.inner_ty == a.ty:
            # result may be None only through b
            return v_ite(c, coerce(a, b.ty), b)
        if isinstance(a, VBool) and not isinstance(b, VBool):
            a = VBool(a.e)
        return v_ite(c, a, b)

    def ev_IfExp(self, e, st):
        c = truthy(self.eval(e.test, st))
        st.guards.append(c)
        try:
            a = self.eval(e.body, st)
        finally:
            st.guards.pop()
        st.guards.append(z3.Not(c))
        try:
            b = self.eval(e.orelse, st)
        finally:
            st.guards.pop()
        return self.merge_values(c, a, b)

    def ev_Compare(self, e, st):
        left = self.eval(e.left, st)
        res = []
        for op, rn in zip(e.ops, e.comparators):
            right = self.eval(rn, st)
            res.append(self.compare(op, left, right, st, e))
            left = right
        return VBool(z3.And(res) if len(res) > 1 else res[0])

    def compare(self, op, a, b, st, node):
        if isinstance(op, (ast.Eq, ast.Is)):
            return self.eq(a, b, isinstance(op, ast.Is))
        if isinstance(op, (ast.NotEq, ast.IsNot)):
            return z3.Not(self.eq(a, b, isinstance(op, ast.IsNot)))
        if isinstance(op, (ast.In, ast.NotIn)):
            r = self.contains(b, a, st, node)
            return r if isinstance(op, ast.In) else z3.Not(r)
        if isinstance(a, VOpt):
            a = a.val if self.in_spec else self.unopt(a, st, node)
        if isinstance(b, VOpt):
            b = b.val if self.in_spec else self.unopt(b, st, node)
        if isinstance(a, (VInt, VBool)) and isinstance(b, (VInt, VBool)):
            x, y = self.as_int(a), self.as_int(b)
            return {ast.Lt: x < y, ast.LtE: x <= y, ast.Gt: x > y, ast.GtE: x >= y}[type(op)]
        if isinstance(a, VStr) and isinstance(b, VStr):
            if isinstance(op, ast.Lt):
                return a.e < b.e
            if isinstance(op, ast.LtE):
                return a.e <= b.e
            if isinstance(op, ast.Gt):
                return b.e < a.e
            if isinstance(op, ast.GtE):
                return b.e <= a.e
        if isinstance(a, VOpaque) and isinstance(b, VOpaque) and a.name == b.name:
            return self.specs.opaque_compare(a, b, op)
        raise Unsupported(f"comparison {type(op).__name__} on {a.ty},{b.ty}")

    def eq(self, a, b, identity=False):
        if isinstance(a, VClass) and isinstance(b, VClass):
            return a.e == b.e
        if isinstance(a, VFunc) or isinstance(b, VFunc):
            raise Unsupported("comparison of functions")
        return v_eq(a, b)

    def contains(self, cont, x, st, node):
        if isinstance(cont, VOpt):
            cont = cont.val if self.in_spec else self.unopt(cont, st, node)
        if isinstance(cont, VList) and cont.e is None or isinstance(cont, VDict) and cont.keys is None:
            return z3.BoolVal(False)
        if isinstance(cont, VList):
            return self.seq_contains(cont.e, self.to_elem(x, cont.elem_ty))
        if isinstance(cont, VDict):
            return self.dict_has(cont, self.to_elem(x, cont.kty))
        if isinstance(cont, VSet):
            return z3.Select(cont.m, self.to_elem(x, cont.ety))
        if isinstance(cont, VStr) and isinstance(x, VStr):
            return z3.Contains(cont.e, x.e)
        if isinstance(cont, VTuple):
            return z3.Or([v_eq(x, i) for i in cont.items])
        raise Unsupported(f"`in` on {cont.ty}")

    def ev_JoinedStr(self, e, st):
        parts = []
        for v in e.values:
            if isinstance(v, ast.Constant):
                parts.append(z3.StringVal(v.value))
            else:
                val = self.eval(v.value, st)
                spec = None
                if v.format_spec is not None:
                    spec = "".join(x.value for x in v.format_spec.values if isinstance(x, ast.Constant))
                parts.append(self.to_str(val, spec, conv=v.conversion).e)
        if not parts:
            return VStr("")
        return VStr(z3.Concat(parts) if len(parts) > 1 else parts[0])

    def to_str(self, v, spec=None, conv=-1):
        if isinstance(v, VStr) and not spec:
            return v
        if isinstance(v, VInt):
            if spec:
                return self.specs.call("fmt_int", [VStr(spec), v])
            return self.specs.call("str_of_int", [v])
        if isinstance(v, VOpt):
            inner = self.to_str(v.val, spec)
            return VStr(z3.If(v.isnone, z3.StringVal("None"), inner.e))
        if isinstance(v, VNone):
            return VStr("None")
        if isinstance(v, VBool):
            return VStr(z3.If(v.e, z3.StringVal("True"), z3.StringVal("False")))
        if isinstance(v, VOpaque):
            return self.specs.call("str_of_" + v.name, [v])
        if isinstance(v, VRef) and v.cls in self.specs.str_of_class:
            return self.specs.call(self.specs.str_of_class[v.cls], [v])
        raise Unsupported(f"str() of {v.ty}")

    def ev_Tuple(self, e, st):
        return VTuple([self.eval(x, st) for x in e.elts])

    def ev_List(self, e, st):
        items = [self.eval(x, st) for x in e.elts]
        if not items:
            return VList(None, None)  # element type fixed on first use
        # the odd `[MHLHashEntry]` (a list holding a class) is kept as is
        ety = items[0].ty
        if isinstance(ety, TRef):
            ety = TRef(ety.cls)
        seq = z3.Empty(z3.SeqSort(elem_sort(ety)))
        for it in items:
            seq = z3.Concat(seq, z3.Unit(self.to_elem(it, ety)))
        return VList(ety, seq)

    def ev_Dict(self, e, st):
        if not e.keys:
            return VDict(None, None, None, None)
        ks = [self.eval(k, st) for k in e.keys]
        vs = [self.eval(v, st) for v in e.values]
        kty, vty = ks[0].ty, vs[0].ty
        d = VDict(kty, vty, z3.Empty(z3.SeqSort(elem_sort(kty))), z3.K(elem_sort(kty), flat(default_value(vty))[0]))
        for k, v in zip(ks, vs):
            d = self.dict_set(d, k, v, st)
        return d

    def ev_Set(self, e, st):
        raise Unsupported("set display")

    def ev_Lambda(self, e, st):
        return VFunc("lambda", e)

    # ---- comprehensions / quantifiers
    def ev_GeneratorExp(self, e, st):
        return VFunc("genexp", e, closure=st)

    def ev_ListComp(self, e, st):
        return self.comprehension_list(e, st)

    def comprehension_list(self, e, st):
        """[f(x) for x in seq if c(x)] -> fresh list characterised as the order-preserving filter/map of seq"""
        if len(e.generators) != 1:
            raise Unsupported("nested comprehension")
        g = e.generators[0]
        n, getter, seqv = self.eval_iterable(g.iter, st)
        # evaluate the element expression and the condition for a symbolic index
        j = z3.Int(fresh_name("cj"))
        stj = st.copy()
        item = getter(j, stj)
        self.assign(g.target, item, stj)
        cond = z3.BoolVal(True)
        saved = self.in_spec
        self.in_spec += 1  # no obligations from inside the quantified body
        try:
            for c in g.ifs:
                cond = z3.And(cond, truthy(self.eval(c, stj)))
            val = self.eval(e.elt, stj)
        finally:
            self.in_spec = saved
        ety = val.ty
        if isinstance(ety, TRef):
            ety = TRef(ety.cls)
        ve = self.to_elem(val, ety)
        res = z3.Const(fresh_name("comp"), z3.SeqSort(elem_sort(ety)))
        # skolem functions: src index of each result position, result position of each kept source index
        src = z3.Function(fresh_name("src"), z3.IntSort(), z3.IntSort())
        pos = z3.Function(fresh_name("pos"), z3.IntSort(), z3.IntSort())
        a, b = z3.Ints(fresh_name("a") + " " + fresh_name("b"))
        m = z3.Length(res)

        def at(idx):
            return z3.substitute(ve, (j, idx)), z3.substitute(cond, (j, idx))

        va, ca = at(src(a))
        vj, cj = at(a)
        ax = [
            m >= 0,
            m <= n,
            z3.ForAll([a], z3.Implies(z3.And(0 <= a, a < m), z3.And(0 <= src(a), src(a) < n, ca, res[a] == va))),
            z3.ForAll([a, b], z3.Implies(z3.And(0 <= a, a < b, b < m), src(a) < src(b))),
            z3.ForAll([a], z3.Implies(z3.And(0 <= a, a < n, cj), z3.And(0 <= pos(a), pos(a) < m, src(pos(a)) == a))),
        ]
        for x in ax:
            st.assume(x)
        return VList(ety, res)

    def quantifier(self, gen, st, is_all):
        e = gen.target if isinstance(gen, VFunc) else gen
        if len(e.generators) != 1:
            # nested: all(P for x in A for y in B) == all(all(P for y in B) for x in A)
            inner = ast.GeneratorExp(elt=e.elt, generators=e.generators[1:])
            call = ast.Call(func=ast.Name(id="all" if is_all else "any", ctx=ast.Load()), args=[inner], keywords=[])
            e = ast.GeneratorExp(elt=call, generators=e.generators[:1])
            ast.fix_missing_locations(e)
        g = e.generators[0]
        # bound variables are named by nesting depth, so the same contract text evaluated twice in the same state gives
        # syntactically identical terms (no alpha-renaming for the solver to see through)
        depth = getattr(self, "qdepth", 0)
        j = z3.Int(f"q!d{depth}")
        self.qdepth = depth + 1
        try:
            return self._quantifier_body(e, g, j, st, is_all)
        finally:
            self.qdepth = depth

    def _quantifier_body(self, e, g, j, st, is_all):
        if (
            isinstance(g.iter, ast.Call)
            and isinstance(g.iter.func, ast.Name)
            and g.iter.func.id == "range"
            and isinstance(g.target, ast.Name)
        ):
            # all(P(k) for k in range(lo, hi)): bind k itself
            args = [self.as_int(self.eval(a, st)) for a in g.iter.args]
            lo, hi = (z3.IntVal(0), args[0]) if len(args) == 1 else (args[0], args[1])
            rng = z3.And(lo <= j, j < hi)
            n = None
            getter = lambda i, s: VInt(i)  # noqa
        else:
            n, getter, seqv = self.eval_iterable(g.iter, st)
            rng = z3.And(0 <= j, j < n)
        stj = st.copy()
        saved = self.in_spec
        self.in_spec += 1
        try:
            stj.guards = list(st.guards)
            item = getter(j, stj)
            self.assign(g.target, item, stj)
            cond = rng
            for c in g.ifs:
                cond = z3.And(cond, truthy(self.eval(c, stj)))
            body = truthy(self.eval(e.elt, stj))
        finally:
            self.in_spec = saved
        # assumptions made while evaluating the body (e.g. comprehension axioms) are kept
        for extra in stj.pc[len(st.pc):]:
            st.pc.append(z3.ForAll([j], extra) if self.mentions(extra, j) else extra)
        sn = z3.simplify(n) if n is not None else None
        if sn is not None and z3.is_int_value(sn) and sn.as_long() <= 64:
            insts = [z3.substitute(z3.Implies(cond, body) if is_all else z3.And(cond, body), (j, z3.IntVal(k))) for k in range(sn.as_long())]
            return VBool((z3.And(insts) if is_all else z3.Or(insts)) if insts else z3.BoolVal(is_all))
        # ground instances at the loop indices in scope: (forall k. P) == P(c) and (forall k. P); likewise for exists.
        # Logically redundant, but it gives the solver the witnesses / instances it would otherwise have to guess.
        cands = []
        seen = set()
        pool = list(st.locals.items()) + [("_i", VInt(c)) for c in getattr(self, "witness_cands", [])]
        for nm, v in pool:
            if nm.startswith("_i") and isinstance(v, VInt):
                for c in (v.e, v.e - 1):
                    c = z3.simplify(c)
                    if c.get_id() not in seen:
                        seen.add(c.get_id())
                        cands.append(c)
        if is_all:
            return VBool(z3.ForAll([j], z3.Implies(cond, body)))
        q = z3.Exists([j], z3.And(cond, body))
        # further witness candidates: the last index of every list in scope (an element that was just appended)
        for nm, v in st.locals.items():
            if isinstance(v, VList) and v.e is not None:
                c = z3.simplify(seq_len(v) - 1)
                if c.get_id() not in seen and len(cands) < 12:
                    seen.add(c.get_id())
                    cands.append(c)
        insts = [z3.substitute(z3.And(cond, body), (j, c)) for c in cands[:12]]
        return VBool(z3.Or(insts + [q])) if insts else VBool(q)

    def mentions(self, e, v):
        seen = set()
        stack = [e]
        while stack:
            x = stack.pop()
            if x.get_id() in seen:
                continue
            seen.add(x.get_id())
            if z3.is_const(x) and x.eq(v):
                return True
            if z3.is_quantifier(x):
                stack.append(x.body())
            else:
                stack.extend(x.children())
        return False

    # ------------------------------------------------------------------ iteration
    def eval_iterable(self, node, st):
        """returns (length term, getter(index, state) -> V, VList or None)"""
        # range(...)
        if isinstance(node, ast.Call) and isinstance(node.func, ast.Name) and node.func.id == "range":
            args = [self.as_int(self.eval(a, st)) for a in node.args]
            lo, hi = (z3.IntVal(0), args[0]) if len(args) == 1 else (args[0], args[1])
            n = z3.If(hi > lo, hi - lo, 0)
            return n, (lambda i, s: VInt(lo + i)), None
        if isinstance(node, ast.Call) and isinstance(node.func, ast.Name) and node.func.id == "enumerate":
            n, g, sv = self.eval_iterable(node.args[0], st)
            return n, (lambda i, s: VTuple([VInt(i), g(i, s)])), None
        if isinstance(node, ast.Call) and isinstance(node.func, ast.Name) and node.func.id == "zip":
            its = [self.eval_iterable(a, st) for a in node.args]
            n = its[0][0]
            for x in its[1:]:
                n = z3.If(x[0] < n, x[0], n)
            return n, (lambda i, s: VTuple([g(i, s) for _, g, _ in its])), None
        if (
            isinstance(node, ast.Call)
            and isinstance(node.func, ast.Attribute)
            and node.func.attr in ("items", "keys", "values")
            and not node.args
        ):
            d = self.eval(node.func.value, st)
            if isinstance(d, VOpt):
                d = d.val
            if isinstance(d, VDict):
                if d.keys is None:
                    return z3.IntVal(0), (lambda i, s: VNone()), None
                n = z3.Length(d.keys)
                kind = node.func.attr

                def getter(i, s, d=d, kind=kind):
                    k = elem_value(d.kty, d.keys[i])
                    if kind == "keys":
                        return k
                    v = dict_select(d, d.keys[i])
                    if not self.in_spec:
                        self.assume_wf_read(s, v)
                    return v if kind == "values" else VTuple([k, v])

                return n, getter, VList(d.kty, d.keys)
        v = self.eval(node, st)
        return self.iterable_of_value(v, st, node)

    def iterable_of_value(self, v, st, node):
        if isinstance(v, VOpt):
            v = v.val if self.in_spec else self.unopt(v, st, node)
        if isinstance(v, VList):
            if v.e is None:
                return z3.IntVal(0), (lambda i, s: VNone()), v
            n = seq_len(v)

            def getter(i, s, v=v):
                x = seq_get(v, i)
                if not self.in_spec:
                    self.assume_wf_read(s, x)
                    if isinstance(x, VRef) and not x.nullable:
                        s.assume(x.e > 0)
                return x

            return n, getter, v
        if isinstance(v, VDict):
            if v.keys is None:
                return z3.IntVal(0), (lambda i, s: VNone()), None
            return z3.Length(v.keys), (lambda i, s: elem_value(v.kty, v.keys[i])), VList(v.kty, v.keys)
        if isinstance(v, VSet):
            # arbitrary enumeration order: a fresh duplicate-free sequence with the same members
            seq = z3.Const(fresh_name("setorder"), z3.SeqSort(v.m.domain()))
            a, b = z3.Ints(fresh_name("a") + " " + fresh_name("b"))
            x = z3.Const(fresh_name("x"), v.m.domain())
            st.assume(z3.ForAll([a, b], z3.Implies(z3.And(0 <= a, a < b, b < z3.Length(seq)), seq[a] != seq[b])))
            st.assume(z3.ForAll([x], z3.Select(v.m, x) == z3.Contains(seq, z3.Unit(x))))
            lv = VList(v.ety, seq)
            return self.iterable_of_value(lv, st, node)
        if isinstance(v, VStr):
            return z3.Length(v.e), (lambda i, s: VStr(z3.SubString(v.e, i, 1))), None
        if isinstance(v, VTuple):
            raise Unsupported("iteration over a tuple")
        if isinstance(v, VFunc) and v.kind == "genexp":
            return self.eval_iterable_genexp(v, st)
        raise Unsupported(f"iteration over {getattr(v,'ty',type(v).__name__)} at line {getattr(node,'lineno','?')}")

    def eval_iterable_genexp(self, v, st):
        lst = self.comprehension_list(v.target, st)
        return self.iterable_of_value(lst, st, v.target)


class DeadPath(Exception):
    """raised after an obligation `False` was emitted for an operation that certainly raises on this path"""
