"""Frame, dominance, call-graph and crash-condition obligations decided on the AST of the current source.

These are the contracts `fs_modifies` (which file-system locations a function may change), `dominates` (the history
is loaded - and thereby verified - before anything is written) and the crash conditions of the two writers.  Each
obligation is generated from /repo's working tree on every run and is either discharged (syntactic fact established,
or a small z3 query over path strings), refuted (a write primitive / call / order that the declared frame forbids;
reported with the offending source location) or unknown (the code left the shapes this checker understands).
"""
import ast
import re
import hashlib
import time

import z3

from .source import Repo

# ---------------------------------------------------------------------------------------------- primitives
WRITE_CALLS = {
    "os.mkdir", "os.makedirs", "os.remove", "os.unlink", "os.rename", "os.replace", "os.rmdir", "os.removedirs", "os.utime",
    "os.chmod", "os.chown", "os.truncate", "os.symlink", "os.link", "os.mkfifo", "os.mknod", "os.lchown", "os.renames",
    "os.open", "os.write", "os.ftruncate", "os.setxattr",
}
WRITE_PREFIXES = ("shutil.", "tempfile.", "subprocess.", "os.system", "os.popen", "os.spawn", "os.exec")
WRITE_METHODS = {"write_text", "write_bytes", "touch", "mkdir", "unlink", "rename", "replace", "rmdir", "symlink_to", "hardlink_to", "chmod", "lchmod"}
DYNAMIC = {"eval", "exec", "compile", "__import__", "getattr", "setattr", "globals", "locals"}

# declared frames: function -> list of (primitive, argument source)  [the complete set of write primitives of the package]
ALLOWED_PRIMITIVES = {
    "ascmhl.hashlist_xml_parser.write_hash_list": [
        ("os.mkdir", "directory_path"),
        ("open:wb", "temp_file_path"),
        ("os.replace", "temp_file_path, file_path"),
        ("os.remove", "temp_file_path"),
        ("os.rmdir", "directory_path"),
    ],
    "ascmhl.chain_xml_parser.write_chain": [
        ("os.mkdir", "directory_path"),
        ("open:wb", "temp_file_path"),
        ("os.replace", "temp_file_path, chain.file_path"),
        ("os.remove", "temp_file_path"),
    ],
    "ascmhl.history.MHLHistory.create_collection_at_path": [("os.mkdir", "parent_path"), ("os.mkdir", "collection_folder_path")],
    # not reachable from the shipped CLIs (checked below); declared with their own frames and excluded from the claim
    "ascmhl.chain_txt_parser.write_chain": [("open:a", "chain.file_path")],
    "ascmhl._debug_commands.create_dummy_file_structure": None,
}
# the same frames with the path arguments expressed over the writer's PARAMETERS (locals substituted by their definitions)
CANON_ALLOWED = {
    "ascmhl.hashlist_xml_parser.write_hash_list": [
        ("os.mkdir", "os.path.dirname(file_path)"),
        ("open:wb", "file_path + '.tmp'"),
        ("os.replace", "file_path + '.tmp', file_path"),
        ("os.remove", "file_path + '.tmp'"),
        ("os.rmdir", "os.path.dirname(file_path)"),
    ],
    "ascmhl.chain_xml_parser.write_chain": [
        ("os.mkdir", "os.path.dirname(chain.file_path)"),
        ("open:wb", "chain.file_path + '.tmp'"),
        ("os.replace", "chain.file_path + '.tmp', chain.file_path"),
        ("os.remove", "chain.file_path + '.tmp'"),
    ],
    "ascmhl.history.MHLHistory.create_collection_at_path": [
        ("os.mkdir", "os.path.dirname(os.path.join(root_path, collection_folder_name))"),
        ("os.mkdir", "os.path.join(root_path, collection_folder_name)"),
    ],
}
# definitions that place the written paths inside the frame (variable -> accepted defining expressions)
PATH_DEFS = {
    "ascmhl.hashlist_xml_parser.write_hash_list": {
        "directory_path": ["os.path.dirname(file_path)"],
        "temp_file_path": ["file_path + '.tmp'"],
    },
    "ascmhl.chain_xml_parser.write_chain": {
        "directory_path": ["os.path.dirname(chain.file_path)"],
        "temp_file_path": ["chain.file_path + '.tmp'"],
    },
    "ascmhl.history.MHLHistory.write_new_generation": {"file_path": ["os.path.join(self.asc_mhl_path, file_name)"]},
    "ascmhl.history.MHLHistory.load_from_path": {
        "asc_mhl_folder_path": ["os.path.join(root_path, ascmhl_folder_name)"],
    },
    "ascmhl.history.MHLHistory.create_collection_at_path": {
        "collection_folder_path": ["os.path.join(root_path, collection_folder_name)"],
        "parent_path": ["os.path.dirname(collection_folder_path)"],
    },
}
EXCLUDED_MODULES = {"ascmhl._debug_commands", "ascmhl.chain_txt_parser", "ascmhl.cli.ascmhl_debug", "ascmhl.cli.ascmhl_dev"}
WRITERS = {"ascmhl.hashlist_xml_parser.write_hash_list", "ascmhl.chain_xml_parser.write_chain", "ascmhl.history.MHLHistory.create_collection_at_path"}
# command-level frames: which writers may be reachable
COMMAND_FRAMES = {
    "ascmhl.commands.verify": set(),
    "ascmhl.commands.verify_entire_folder": set(),
    "ascmhl.commands.verify_directory_hash_subcommand": set(),
    "ascmhl.commands.diff": set(),
    "ascmhl.commands.diff_entire_folder_against_full_history_subcommand": set(),
    "ascmhl.commands.info": set(),
    "ascmhl.commands.info_for_entire_history": set(),
    "ascmhl.commands.info_for_single_file": set(),
    "ascmhl.commands.hash": set(),
    "ascmhl.commands.xsd_schema_check": set(),
    "ascmhl.commands.create": {"ascmhl.hashlist_xml_parser.write_hash_list", "ascmhl.chain_xml_parser.write_chain"},
    "ascmhl.commands.create_for_folder_subcommand": {"ascmhl.hashlist_xml_parser.write_hash_list", "ascmhl.chain_xml_parser.write_chain"},
    "ascmhl.commands.create_for_single_files_subcommand": {"ascmhl.hashlist_xml_parser.write_hash_list", "ascmhl.chain_xml_parser.write_chain"},
    "ascmhl.commands.flatten": set(WRITERS),
    "ascmhl.commands.flatten_history": set(WRITERS),
}
LOADERS = {"load_from_path", "load_from_packing_list_path"}
HISTORY_READERS = [
    "ascmhl.commands.create_for_folder_subcommand",
    "ascmhl.commands.create_for_single_files_subcommand",
    "ascmhl.commands.verify_entire_folder",
    "ascmhl.commands.verify_directory_hash_subcommand",
    "ascmhl.commands.diff_entire_folder_against_full_history_subcommand",
    "ascmhl.commands.flatten_history",
    "ascmhl.commands.info_for_entire_history",
    "ascmhl.commands.info_for_single_file",
]


def sha(fi):
    return hashlib.sha256(fi.src.encode()).hexdigest()[:16]


class Statics:
    def __init__(self, repo_root=None):
        self.repo = Repo(repo_root)
        self.obs = []
        self._callees = {}

    def ob(self, pid, func, name, ok, why="", line=None, kind="frame", unknown=False, assumed=()):
        fi = self.repo.funcs.get(func)
        self.obs.append(
            {
                "name": f"{func}:{name}",
                "kind": kind,
                "props": [pid],
                "verdict": "unknown" if unknown else ("discharged" if ok else "refuted"),
                "backend": kind,
                "time": 0.0,
                "line": line,
                "reason": None if ok and not unknown else why,
                "trace": [],
                "func": func,
                "sha": sha(fi) if fi else None,
                "model": None if ok else {"source_location": f"{fi.filename if fi else '?'}:{line}", "why": why},
                "assumed": list(assumed),
            }
        )

    # ---------------------------------------------------------------- call names
    def dotted(self, node, mod):
        """dotted library name of a call target such as os.path.join, resolved through the module's imports"""
        parts = []
        n = node
        while isinstance(n, ast.Attribute):
            parts.append(n.attr)
            n = n.value
        if not isinstance(n, ast.Name):
            return None
        parts.append(n.id)
        parts.reverse()
        r = self.repo.resolve_name(mod, parts[0])
        if r is None:
            return ".".join(parts)
        if r[0] == "module" and r[1] not in self.repo.modules:
            return ".".join([r[1]] + parts[1:])
        if r[0] == "extern":
            return ".".join([r[1], r[2]] + parts[1:])
        return None

    def primitives(self, fi):
        """direct write primitives in a function: (kind, argsrc, line)"""
        out = []
        for n in ast.walk(fi.node):
            if not isinstance(n, ast.Call):
                continue
            f = n.func
            if isinstance(f, ast.Name) and f.id == "open" and self.repo.resolve_name(fi.module, "open") is None:
                mode = None
                if len(n.args) > 1:
                    mode = n.args[1]
                for kw in n.keywords:
                    if kw.arg == "mode":
                        mode = kw.value
                if mode is None:
                    continue  # default 'r'
                if not (isinstance(mode, ast.Constant) and isinstance(mode.value, str)):
                    out.append(("open:?", ast.unparse(n.args[0]) if n.args else "", n.lineno))
                    continue
                if any(c in mode.value for c in "wax+"):
                    out.append((f"open:{mode.value}", ast.unparse(n.args[0]), n.lineno))
                continue
            if isinstance(f, ast.Name) and f.id in DYNAMIC and f.id not in ("getattr",):
                out.append((f"dynamic:{f.id}", "", n.lineno))
                continue
            d = self.dotted(f, fi.module) if isinstance(f, (ast.Attribute, ast.Name)) else None
            if d:
                if d in WRITE_CALLS or d.startswith(WRITE_PREFIXES):
                    out.append((d, ", ".join(ast.unparse(a) for a in n.args), n.lineno))
                    continue
            if isinstance(f, ast.Attribute) and f.attr in ("replace", "rename") and not (len(n.args) == 1 and not n.keywords):
                continue  # str.replace(a, b) / datetime.replace(field=...) are not Path.replace(target)
            if isinstance(f, ast.Attribute) and f.attr in WRITE_METHODS:
                # method of an unknown receiver (pathlib-style): only if the receiver is not a repo object method
                if not any(f.attr in ci.methods for ci in self.repo.classes.values()) and not any(
                    f.attr in mi.funcs for mi in self.repo.modules.values()
                ):
                    out.append((f"method:{f.attr}", ast.unparse(f.value), n.lineno))
        return out

    def callees(self, fi):
        """over-approximated set of repo functions a function may call (by name / by method name over all classes)"""
        if fi.qualname in self._callees:
            return self._callees[fi.qualname]
        res = set()
        for n in ast.walk(fi.node):
            if not isinstance(n, ast.Call):
                continue
            f = n.func
            if isinstance(f, ast.Name):
                r = self.repo.resolve_name(fi.module, f.id)
                if r and r[0] == "func":
                    res.add(r[1].qualname)
                elif r and r[0] == "class":
                    init = self.repo.find_method(r[1].name, "__init__")
                    if init:
                        res.add(init.qualname)
            elif isinstance(f, ast.Attribute):
                # module function?
                if isinstance(f.value, ast.Name):
                    r = self.repo.resolve_name(fi.module, f.value.id)
                    if r and r[0] == "module" and r[1] in self.repo.modules:
                        rr = self.repo.resolve_name(r[1], f.attr)
                        if rr and rr[0] == "func":
                            res.add(rr[1].qualname)
                            continue
                        if rr and rr[0] == "class":
                            init = self.repo.find_method(rr[1].name, "__init__")
                            if init:
                                res.add(init.qualname)
                            continue
                    if r and r[0] == "class":
                        m = self.repo.find_method(r[1].name, f.attr)
                        if m:
                            res.add(m.qualname)
                            continue
                for ci in self.repo.classes.values():
                    if f.attr in ci.methods:
                        res.add(ci.methods[f.attr].qualname)
        self._callees[fi.qualname] = res
        return res

    def reach(self, q):
        seen = set()
        stack = [q]
        while stack:
            x = stack.pop()
            if x in seen or x not in self.repo.funcs:
                continue
            seen.add(x)
            stack.extend(self.callees(self.repo.funcs[x]))
        return seen

    def assigns(self, fi, var):
        """sources of all assignments to a simple name in the function"""
        out = []
        for n in ast.walk(fi.node):
            if isinstance(n, ast.Assign):
                for t in n.targets:
                    if isinstance(t, ast.Name) and t.id == var:
                        out.append((ast.unparse(n.value), n.lineno))
            elif isinstance(n, ast.AugAssign) and isinstance(n.target, ast.Name) and n.target.id == var:
                out.append(("augmented", n.lineno))
        return out

    def canon(self, expr, fi, depth=0):
        """source of `expr` with single-assignment locals of `fi` replaced by their defining expressions (so that renaming a
        local or introducing an intermediate variable does not change the result)"""
        if depth > 5:
            return ast.unparse(expr)
        assigns = {}
        for n in ast.walk(fi.node):
            if isinstance(n, ast.Assign) and len(n.targets) == 1 and isinstance(n.targets[0], ast.Name):
                assigns.setdefault(n.targets[0].id, []).append(n.value)
            elif isinstance(n, (ast.AugAssign, ast.For, ast.With)):
                for x in ast.walk(n.target if isinstance(n, (ast.AugAssign, ast.For)) else ast.Module(body=[], type_ignores=[])):
                    if isinstance(x, ast.Name):
                        assigns.setdefault(x.id, []).extend([None, None])
        params = {a.arg for a in fi.node.args.args + fi.node.args.kwonlyargs}

        class Sub(ast.NodeTransformer):
            def visit_Name(self_, node):
                v = assigns.get(node.id)
                if node.id not in params and v is not None and len(v) == 1 and v[0] is not None:
                    return ast.parse(self.canon(v[0], fi, depth + 1), mode="eval").body
                return node

        import copy

        return ast.unparse(Sub().visit(copy.deepcopy(expr)))

    def only_via_writers(self, q):
        """is function q reachable from the shipped commands only through a declared writer function?"""
        if not hasattr(self, "_nowriter_reach"):
            seen = set()
            stack = [c for c in COMMAND_FRAMES if c in self.repo.funcs]
            while stack:
                x = stack.pop()
                if x in seen or x not in self.repo.funcs or x in WRITERS:
                    continue
                seen.add(x)
                stack.extend(self.callees(self.repo.funcs[x]))
            self._nowriter_reach = seen
        return q not in self._nowriter_reach

    # ---------------------------------------------------------------- C14
    def c14(self):
        pid = "C14"
        shipped = set()
        for q in COMMAND_FRAMES:
            if q in self.repo.funcs:
                shipped |= self.reach(q)
            else:
                self.ob(pid, q, "command-exists", False, "command function not found (renamed?)", unknown=True)
        # (1) every write primitive of the package is declared
        for q, fi in sorted(self.repo.funcs.items()):
            prims = self.primitives(fi)
            allowed = ALLOWED_PRIMITIVES.get(q, [])
            if fi.module in EXCLUDED_MODULES:
                allowed = None
            if allowed is None:
                self.ob(pid, q, "debug-helper-not-shipped", q not in shipped, "debug helper with its own frame became reachable from a shipped command")
                continue
            for kind, arg, line in prims:
                try:
                    carg = ", ".join(self.canon(a, fi) for a in ast.parse(f"f({arg})", mode="eval").body.args) if arg else arg
                except SyntaxError:
                    carg = arg
                ok = (kind, carg) in CANON_ALLOWED.get(q, [])
                if ok:
                    self.ob(pid, q, f"write-primitive-declared/{kind}@{line}", True)
                    continue
                kinds_of_writers = {k for w in WRITERS for k, _ in CANON_ALLOWED.get(w, [])}
                if q not in CANON_ALLOWED and self.only_via_writers(q) and kind in kinds_of_writers:
                    # e.g. a helper extracted from a writer: its effect belongs to the writer's frame, but the path argument
                    # can no longer be related to the writer's parameters syntactically: undecided (the bounded audit decides)
                    self.ob(pid, q, f"write-primitive-declared/{kind}@{line}", False,
                            f"write primitive {kind}({carg}) in a function that is only reachable through the declared writers: "
                            "its path cannot be related to the writer's frame syntactically", line, unknown=True)
                elif q in CANON_ALLOWED and kind in {k for k, _ in CANON_ALLOWED[q]}:
                    self.ob(pid, q, f"write-primitive-declared/{kind}@{line}", False,
                            f"write primitive {kind}({carg}): the declared frame of this writer has {CANON_ALLOWED[q]}", line, unknown=True)
                else:
                    self.ob(
                        pid, q, f"write-primitive-declared/{kind}({carg})@{line}", False,
                        f"write primitive {kind}({carg}) outside every declared file-system frame (declared writers: {sorted(CANON_ALLOWED)})", line,
                    )
            if not prims:
                self.ob(pid, q, "fs_modifies=nothing", True)
            for kind, arg in allowed:
                if not any(k == kind and a == arg for k, a, _ in prims):
                    # a declared effect that disappeared is harmless for C14 (fewer writes), nothing to prove
                    pass
        # (2) written paths are defined inside the frame
        for q, defs in PATH_DEFS.items():
            fi = self.repo.funcs.get(q)
            if fi is None:
                self.ob(pid, q, "exists", False, "function not found", unknown=True)
                continue
            if q in CANON_ALLOWED:
                continue  # covered by the canonical primitive arguments above
            for var, accepted in defs.items():
                srcs = self.assigns(fi, var)
                ok = len(srcs) >= 1 and all(s in accepted for s, _ in srcs)
                self.ob(
                    pid, q, f"path-definition/{var}", ok,
                    f"{var} is assigned {[s for s, _ in srcs]}, frame needs one of {accepted}", srcs[0][1] if srcs else None,
                    unknown=not ok,
                )
        # (3) command frames via the call graph
        for q, frame in COMMAND_FRAMES.items():
            if q not in self.repo.funcs:
                continue
            r = self.reach(q)
            w = {x for x in r if self.primitives(self.repo.funcs[x]) and self.repo.funcs[x].module not in EXCLUDED_MODULES}
            extra = sorted(w - frame)
            # helpers that are only reachable through a declared writer that is itself in this command's frame belong to
            # that writer's effect (their path arguments are judged - as undecided - by the primitive obligations above)
            hard = [x for x in extra if not (self.only_via_writers(x) and any(x in self.reach(wr) for wr in frame if wr in self.repo.funcs))]
            self.ob(
                pid, q, "command-frame", not extra,
                f"functions with file-system writes reachable from this command but outside its declared frame {sorted(frame)}: {extra}",
                self.repo.funcs[q].node.lineno, kind="callgraph", unknown=bool(extra) and not hard,
            )
            dbg = sorted(x for x in r if x.startswith(("ascmhl._debug_commands", "ascmhl.chain_txt_parser")))
            if q not in ("ascmhl.commands.create",):
                self.ob(pid, q, "no-debug-code-reachable", not dbg, f"debug / legacy writers reachable: {dbg}", kind="callgraph")
        # (4) the destination of flatten and the roots are passed through unmodified
        self.param_flow(pid, "ascmhl.commands.flatten_history", "destination_path", [])
        self.param_flow(pid, "ascmhl.commands.flatten", "destination_path", [])
        for q in HISTORY_READERS + ["ascmhl.commands.flatten_history"]:
            self.param_flow(pid, q, "root_path", ["os.path.abspath(root_path)", "os.path.join(os.getcwd(), root_path)"])
        # (5) sessions that are never committed: verify -dh builds a session but must not reach commit
        for q in ("ascmhl.commands.verify_directory_hash_subcommand", "ascmhl.commands.verify_entire_folder"):
            if q in self.repo.funcs:
                r = self.reach(q)
                bad = sorted(x for x in r if x.endswith(".commit") or x.endswith("commit_session") or x.endswith("write_new_generation"))
                self.ob(pid, q, "no-commit-reachable", not bad, f"commit path reachable from a read-only command: {bad}", kind="callgraph")

    def param_flow(self, pid, q, param, accepted):
        fi = self.repo.funcs.get(q)
        if fi is None:
            return
        srcs = self.assigns(fi, param)
        harmless = [f"os.path.abspath({param})", f"os.path.normpath({param})", f"os.path.expanduser({param})", f"str({param})", f"os.fspath({param})"]
        ok = all(s in accepted + harmless for s, _ in srcs)
        self.ob(
            pid, q, f"parameter-unmodified/{param}", ok,
            f"{param} is re-assigned to {[s for s, _ in srcs]}: whether it still denotes the documented location cannot be decided syntactically",
            srcs[0][1] if srcs else None, unknown=not ok,
        )

    # ---------------------------------------------------------------- C05
    def c05(self):
        pid = "C05"
        for q in HISTORY_READERS:
            fi = self.repo.funcs.get(q)
            if fi is None:
                self.ob(pid, q, "exists", False, "command body not found", unknown=True)
                continue
            # first statement position of a loader call and of any call that reaches a writer
            load_line = None
            in_try = False
            for n in ast.walk(fi.node):
                if isinstance(n, ast.Try):
                    for m in ast.walk(n):
                        if isinstance(m, ast.Call) and isinstance(m.func, ast.Attribute) and m.func.attr in LOADERS:
                            in_try = True
            top = fi.node.body
            first_write = None
            for idx, s in enumerate(top):
                for n in ast.walk(s):
                    if isinstance(n, ast.Call):
                        if isinstance(n.func, ast.Attribute) and n.func.attr in LOADERS and load_line is None:
                            load_line = (idx, n.lineno, isinstance(s, (ast.Assign, ast.Expr)), s)
                        tgt = self.call_targets(n, fi)
                        for t in tgt:
                            if t in self.repo.funcs and any(
                                self.primitives(self.repo.funcs[x]) for x in self.reach(t)
                            ):
                                if first_write is None:
                                    first_write = (idx, n.lineno, t)
            self.ob(pid, q, "loads-history", load_line is not None, "no call to MHLHistory.load_from_path in the command body", kind="dominance")
            if load_line is None:
                continue
            self.ob(pid, q, "load-not-in-try", not in_try, "the history load is wrapped in try/except (its refusal could be swallowed)", load_line[1], kind="dominance")
            # the load must be an unconditional top-level statement (or in an if/else whose both arms load)
            s = load_line[3]
            uncond = isinstance(s, (ast.Assign, ast.Expr)) or (
                isinstance(s, ast.If) and all(
                    any(isinstance(n, ast.Call) and isinstance(n.func, ast.Attribute) and n.func.attr in LOADERS for n in ast.walk(b_))
                    for b_ in (ast.Module(body=s.body, type_ignores=[]), ast.Module(body=s.orelse, type_ignores=[]))
                )
            )
            self.ob(pid, q, "load-unconditional", uncond, "the history load is conditional", load_line[1], kind="dominance")
            if first_write is not None:
                ok = load_line[0] < first_write[0] or (load_line[0] == first_write[0] and load_line[1] <= first_write[1])
                self.ob(
                    pid, q, "load-dominates-writes", ok,
                    f"call to {first_write[2]} (line {first_write[1]}) can write before the history was loaded and verified (line {load_line[1]})",
                    first_write[1], kind="dominance",
                )
            else:
                self.ob(pid, q, "load-dominates-writes", True, kind="dominance")
        # exceptions of the chain check carry the dedicated exit codes
        for cls, code in (("ModifiedMHLManifestFileException", 31), ("NoMHLChainException", 32), ("MissingMHLManifestException", 33),
                          ("NoMHLHistoryException", 30), ("CompletenessCheckFailedException", 10), ("VerificationFailedException", 11),
                          ("VerificationDirectoriesFailedException", 12), ("SingleFileNotFoundException", 20), ("NewFilesFoundException", 21)):
            ci = self.repo.classes.get(cls)
            val = None
            if ci is not None and "exit_code" in ci.attrs:
                try:
                    val = ast.literal_eval(ci.attrs["exit_code"])
                except Exception:
                    val = None
            q = f"ascmhl.errors.{cls}"
            self.obs.append({"name": f"{q}:exit_code=={code}", "kind": "ground", "props": ["C05", "C03"] if code in (31, 32, 33) else ["C03"],
                             "verdict": "discharged" if val == code else "refuted", "backend": "ground", "time": 0.0, "line": ci.node.lineno if ci else None,
                             "reason": None if val == code else f"exit_code is {val}", "trace": [], "func": None, "sha": None,
                             "model": None if val == code else {"exit_code": val}, "assumed": ["click: a ClickException leaving a command becomes the process exit code `exit_code`"]})
        # child histories are loaded through load_from_path, outside any try
        q = "ascmhl.history.MHLHistory._find_and_load_child_histories"
        fi = self.repo.funcs.get(q)
        if fi is not None:
            calls = [n for n in ast.walk(fi.node) if isinstance(n, ast.Call) and isinstance(n.func, ast.Attribute) and n.func.attr == "load_from_path"]
            tries = [n for n in ast.walk(fi.node) if isinstance(n, ast.Try)]
            self.ob(pid, q, "children-loaded-via-load_from_path", len(calls) >= 1 and not tries, "child histories are not (unconditionally) loaded through load_from_path", kind="dominance")
        q = "ascmhl.history.MHLHistory.load_from_path"
        fi = self.repo.funcs.get(q)
        if fi is not None:
            calls = [n for n in ast.walk(fi.node) if isinstance(n, ast.Call) and isinstance(n.func, ast.Attribute) and n.func.attr == "_find_and_load_child_histories"]
            self.ob(pid, q, "loads-children", len(calls) == 1, "load_from_path does not load the child histories", kind="dominance")
        # the chain writer copies the recorded digests of old generations and never re-reads old manifests:
        # read frame of the loop over the loaded chain entries in write_chain
        q = "ascmhl.chain_xml_parser.write_chain"
        fi = self.repo.funcs.get(q)
        if fi is None:
            self.ob("C05", q, "exists", False, "chain writer not found", unknown=True)
        else:
            loops = []
            for x in sorted(self.reach(q)):
                fx = self.repo.funcs[x]
                if fx.module == fi.module:
                    loops += [n for n in ast.walk(fx.node) if isinstance(n, ast.For) and ast.unparse(n.iter) == "chain.generations"]
            if len(loops) != 1:
                self.ob("C05", q, "old-entries-loop", False, "no single loop over chain.generations in write_chain", unknown=True)
            else:
                bad = []
                for n in ast.walk(loops[0]):
                    if isinstance(n, ast.Call):
                        if isinstance(n.func, ast.Name) and n.func.id == "open":
                            bad.append("open")
                        for t in self.call_targets(n, fi):
                            for x in self.reach(t):
                                if x.endswith(("hash_file", "generate_reference_hash", "hash_data")) or x.endswith(".parse"):
                                    bad.append(x)
                self.ob("C05", q, "old-chain-entries-rendered-from-loaded-chain-only", not bad,
                        f"the loop that re-writes existing chain entries reads files again ({sorted(set(bad))}): a manifest altered after "
                        "loading would get a fresh digest and be accepted from then on", loops[0].lineno, kind="frame")
                self.obs[-1]["props"] = ["C05", "C06"]
        q = "ascmhl.chain_xml_parser._hashlist_xml_element_from_chaingeneration"
        fi = self.repo.funcs.get(q)
        if fi is not None:
            r = self.reach(q)
            bad = sorted(x for x in r if "hash_file" in x or "generate_reference_hash" in x or x.endswith(".parse"))
            opens = [n for n in ast.walk(fi.node) if isinstance(n, ast.Call) and isinstance(n.func, ast.Name) and n.func.id == "open"]
            self.ob("C05", q, "old-entries-copied-not-recomputed", not bad and not opens,
                    f"the element for an existing chain entry is recomputed from disk ({bad}): a manifest altered after loading would be re-blessed", kind="frame")
            self.obs[-1]["props"] = ["C05", "C06"]

    def call_targets(self, n, fi):
        out = set()
        f = n.func
        if isinstance(f, ast.Name):
            r = self.repo.resolve_name(fi.module, f.id)
            if r and r[0] == "func":
                out.add(r[1].qualname)
            elif r and r[0] == "class":
                init = self.repo.find_method(r[1].name, "__init__")
                if init:
                    out.add(init.qualname)
        elif isinstance(f, ast.Attribute):
            for ci in self.repo.classes.values():
                if f.attr in ci.methods:
                    out.add(ci.methods[f.attr].qualname)
            for mi in self.repo.modules.values():
                if f.attr in mi.funcs and isinstance(f.value, ast.Name):
                    r = self.repo.resolve_name(fi.module, f.value.id)
                    if r and r[0] == "module" and r[1] == mi.name:
                        out.add(mi.funcs[f.attr].qualname)
        return out

    # ---------------------------------------------------------------- C15
    def c15(self):
        pid = "C15"
        for q, final in (("ascmhl.hashlist_xml_parser.write_hash_list", "file_path"), ("ascmhl.chain_xml_parser.write_chain", "chain.file_path")):
            fi = self.repo.funcs.get(q)
            if fi is None:
                self.ob(pid, q, "exists", False, "writer not found", unknown=True, kind="crash")
                continue
            # effect trace of the writer body, in source order; path arguments in canonical (parameter-level) form
            handler_nodes = set()
            for n in ast.walk(fi.node):
                if isinstance(n, ast.Try):
                    for h in n.handlers:
                        handler_nodes.update(id(x) for x in ast.walk(h))
            opens, repl, closes, withs = [], [], [], []
            for n in ast.walk(fi.node):
                if isinstance(n, ast.With):
                    for it in n.items:
                        c = it.context_expr
                        if isinstance(c, ast.Call) and isinstance(c.func, ast.Name) and c.func.id == "open":
                            withs.append((id(c), n))
                if isinstance(n, ast.Call):
                    f = n.func
                    if isinstance(f, ast.Name) and f.id == "open" and n.args:
                        mode = n.args[1].value if len(n.args) > 1 and isinstance(n.args[1], ast.Constant) else ("r" if len(n.args) == 1 and not n.keywords else None)
                        if mode is None or any(c in mode for c in "wax+"):
                            opens.append((n, self.canon(n.args[0], fi), mode))
                    d = self.dotted(f, fi.module) if isinstance(f, ast.Attribute) else None
                    if d in ("os.replace", "os.rename", "shutil.move") and len(n.args) == 2:
                        repl.append((n, self.canon(n.args[0], fi), self.canon(n.args[1], fi)))
                    if isinstance(f, ast.Attribute) and f.attr == "close" and id(n) not in handler_nodes:
                        closes.append(n)
            fin = self.canon(ast.parse(final, mode="eval").body, fi)
            # (a) exactly one write-open, onto the temporary name, truncating (an existing leftover must not block)
            self.ob(pid, q, "single-write-open", len(opens) == 1, f"{len(opens)} files are opened for writing", opens[0][0].lineno if opens else None,
                    kind="crash", unknown=len(opens) == 0)
            if len(opens) != 1:
                continue
            on, oarg, omode = opens[0]
            self.ob(pid, q, "writes-temporary-name", oarg != fin,
                    f"the writer opens {oarg} for writing: a kill during writing leaves a partial file under the name the loader reads", on.lineno, kind="crash")
            self.ob(pid, q, "temporary-opened-truncating", omode == "wb",
                    f"open mode {omode!r}: only 'wb' both truncates a leftover of an earlier interrupted run and creates the file", on.lineno, kind="crash",
                    unknown=omode is None)
            # (b) the loader ignores the temporary name: z3 over all strings
            t0 = time.time()
            p = z3.String("p")
            sv = z3.Solver()
            sv.set("timeout", 5000)
            mt = re.fullmatch(re.escape(fin) + r" \+ '([^']*)'", oarg)
            verdict, why = "unknown", f"the temporary name is {oarg}: not of the form <final name> + <literal suffix>"
            if mt:
                tmp = z3.Concat(p, z3.StringVal(mt.group(1)))
                sv.add(z3.Or(z3.SuffixOf(z3.StringVal(".mhl"), tmp), z3.SuffixOf(z3.StringVal("ascmhl_chain.xml"), tmp), z3.SuffixOf(z3.StringVal("ascmhl_collection.xml"), tmp)))
                r = sv.check()
                if r == z3.unsat:
                    verdict, why = "discharged", None
                elif r == z3.sat:
                    verdict, why = "refuted", f"a temporary name {oarg} can end in a name the loader reads, e.g. final name {sv.model()[p]}"
            elif oarg == fin:
                verdict, why = "refuted", "the writer writes the final name directly"
            self.obs.append({"name": f"{q}:temporary-name-invisible-to-loader", "kind": "crash", "props": [pid], "verdict": verdict,
                             "backend": "z3", "time": round(time.time() - t0, 3), "line": on.lineno, "reason": why, "trace": [], "func": q, "sha": sha(fi),
                             "model": None if verdict == "discharged" else {"temporary": oarg, "final": fin}, "assumed": []})
            # (c) the move into place is the last file-system effect and happens after the file is closed
            ok_move = len(repl) == 1 and repl[0][1] == oarg and repl[0][2] == fin
            self.ob(pid, q, "single-move-into-place", ok_move, f"moves into place: {[(t[1], t[2]) for t in repl]}, expected ({oarg} -> {fin})",
                    repl[0][0].lineno if repl else None, kind="crash", unknown=(len(repl) == 0 and oarg != fin and not ok_move))
            if len(repl) == 1:
                rn = repl[0][0]
                w = [wn for cid, wn in withs if cid == id(on)]
                if w:
                    inside = any(x is rn for x in ast.walk(w[0]))
                    closed_before, undecided = (not inside and w[0].end_lineno < rn.lineno), False
                else:
                    before = [c for c in closes if c.lineno < rn.lineno]
                    closed_before, undecided = bool(before), (not closes)
                self.ob(pid, q, "closed-before-move", closed_before,
                        "the temporary file is moved onto the final name before it is closed (buffered data is lost if the process is killed in between)",
                        rn.lineno, kind="crash", unknown=(not closed_before and undecided))
                later = [t[0].lineno for t in opens + repl if t[0].lineno > rn.lineno]
                self.ob(pid, q, "move-is-last-effect", not later, f"file-system effects after the move at lines {later}", rn.lineno, kind="crash")
                in_finally = any(isinstance(n, ast.Try) and n.finalbody and any(m is rn for fb in n.finalbody for m in ast.walk(fb)) for n in ast.walk(fi.node))
                in_handler = id(rn) in handler_nodes
                self.ob(pid, q, "move-only-on-success", not in_finally and not in_handler,
                        "the move into place sits in a finally block or exception handler: an aborted write would still publish the partial file", rn.lineno, kind="crash")
        # commit: per history the manifest is written (and complete) before the chain refers to it; children first
        q = "ascmhl.generator.MHLGenerationCreationSession.commit"
        fi = self.repo.funcs.get(q)
        if fi is not None:
            order = []
            for n in ast.walk(fi.node):
                if isinstance(n, ast.Call) and isinstance(n.func, ast.Attribute) and n.func.attr in ("write_new_generation", "write_chain", "walk_child_histories"):
                    order.append((n.lineno, n.func.attr))
            order.sort()
            names = [a for _, a in order]
            self.ob(pid, q, "manifest-before-chain", names == ["walk_child_histories", "write_new_generation", "write_chain"],
                    f"order of effects in commit is {names}", order[0][0] if order else None, kind="crash")
            self.obs[-1]["props"] = ["C15", "C06", "C08"]
        # first generation of a new history: the ascmhl folder must never be visible without its chain file, because the
        # loader refuses such a folder (exit 32).  Refuted on the pinned tree: recorded finding C15-first-generation-interrupted
        qw, ql = "ascmhl.hashlist_xml_parser.write_hash_list", "ascmhl.history.MHLHistory.load_from_path"
        fw, fl, fc = self.repo.funcs.get(qw), self.repo.funcs.get(ql), self.repo.funcs.get("ascmhl.generator.MHLGenerationCreationSession.commit")
        if fw is not None and fl is not None and fc is not None:
            mk = [n for n in ast.walk(fw.node) if isinstance(n, ast.Call) and isinstance(n.func, ast.Attribute)
                  and self.dotted(n.func, fw.module) in ("os.mkdir", "os.makedirs") and n.args]
            final_folder = [n for n in mk if self.canon(n.args[0], fw) == "os.path.dirname(file_path)"]
            refuses = any(isinstance(n, ast.Raise) and n.exc is not None and "NoMHLChainException" in ast.unparse(n.exc) for n in ast.walk(fl.node))
            names = [n.func.attr for n in ast.walk(fc.node) if isinstance(n, ast.Call) and isinstance(n.func, ast.Attribute) and n.func.attr in ("write_new_generation", "write_chain")]
            manifest_first = names[:2] == ["write_new_generation", "write_chain"]
            if mk and not final_folder:
                self.ob(pid, qw, "first-generation-folder-appears-with-its-chain", False,
                        "the new ascmhl folder is created under another name than the final one: whether it becomes visible together with its chain cannot be decided here",
                        mk[0].lineno, kind="crash", unknown=True)
            elif final_folder and refuses and manifest_first:
                self.ob(pid, qw, "first-generation-folder-appears-with-its-chain", False,
                        f"write_hash_list creates the final ascmhl folder (line {final_folder[0].lineno}) before the first manifest and long before write_chain creates the chain file; "
                        "load_from_path refuses a folder without chain file (NoMHLChainException, exit 32): a create killed in between leaves a root on which every command aborts",
                        final_folder[0].lineno, kind="crash")
            else:
                self.ob(pid, qw, "first-generation-folder-appears-with-its-chain", not final_folder or not refuses, "shape not recognised", kind="crash",
                        unknown=bool(final_folder and refuses))
        q = "ascmhl.history.MHLHistory.walk_child_histories"
        fi = self.repo.funcs.get(q)
        if fi is not None:
            ys = [(n.lineno, type(n).__name__) for n in ast.walk(fi.node) if isinstance(n, (ast.Yield, ast.YieldFrom))]
            ys.sort()
            self.ob(pid, q, "children-before-parent", [k for _, k in ys] == ["YieldFrom", "Yield"], f"yield order {ys}", kind="crash")
            self.obs[-1]["props"] = ["C15", "C08"]


    # ---------------------------------------------------------------- C12 (call-site obligations)
    def c12(self):
        pid = "C12"
        first = len(self.obs)
        SPEC_SRC = "ignore.MHLIgnoreSpec(existing_history.latest_ignore_patterns(), ignore_list, ignore_spec_file)"
        cmds = {
            "ascmhl.commands.create_for_folder_subcommand": True,
            "ascmhl.commands.create_for_single_files_subcommand": True,
            "ascmhl.commands.verify_entire_folder": False,
            "ascmhl.commands.verify_directory_hash_subcommand": False,
            "ascmhl.commands.diff_entire_folder_against_full_history_subcommand": False,
            "ascmhl.commands.flatten_history": True,
        }
        for q, has_session in cmds.items():
            fi = self.repo.funcs.get(q)
            if fi is None:
                self.ob(pid, q, "exists", False, "command body not found", unknown=True, kind="callsite")
                continue
            srcs = self.assigns(fi, "ignore_spec")
            self.ob(pid, q, "effective-spec = latest recorded + command line + pattern file", len(srcs) == 1 and srcs[0][0] == SPEC_SRC,
                    f"ignore_spec is built as {[x for x, _ in srcs]}, the effective patterns are {SPEC_SRC}", srcs[0][1] if srcs else None, kind="callsite")
            # traversal and missing-file filter use that spec
            for n in ast.walk(fi.node):
                if isinstance(n, ast.Call) and isinstance(n.func, ast.Name) and n.func.id == "post_order_lexicographic":
                    a = ast.unparse(n.args[1]) if len(n.args) > 1 else None
                    ok = a in ("ignore_spec.get_path_spec()", "session.ignore_spec.get_path_spec()")
                    self.ob(pid, q, f"traversal-uses-effective-spec@{n.lineno}", ok, f"traversal is given {a}", n.lineno, kind="callsite")
                if isinstance(n, ast.Call) and isinstance(n.func, ast.Name) and n.func.id == "test_for_missing_files":
                    a = ast.unparse(n.args[2]) if len(n.args) > 2 else None
                    self.ob(pid, q, f"missing-file-filter-uses-effective-spec@{n.lineno}", a == "ignore_spec", f"test_for_missing_files is given {a}", n.lineno, kind="callsite")
            if has_session:
                sess = [s_ for s_, _ in self.assigns(fi, "session")]
                ok = len(sess) == 1 and sess[0].endswith(", ignore_spec)") and sess[0].startswith("MHLGenerationCreationSession(")
                self.ob(pid, q, "session-carries-effective-spec", ok, f"session is built as {sess}", kind="callsite")
        # every generation written by commit gets latest(history) + session patterns, unconditionally
        q = "ascmhl.generator.MHLGenerationCreationSession.commit"
        fi = self.repo.funcs.get(q)
        if fi is not None:
            want = "MHLIgnoreSpec(history.latest_ignore_patterns(), self.ignore_spec.get_pattern_list())"
            loops = [n for n in fi.node.body if isinstance(n, ast.For)]
            found = None
            if len(loops) == 1:
                for st_ in loops[0].body:
                    if isinstance(st_, ast.Assign) and ast.unparse(st_.targets[0]) == "new_hash_list.process_info.ignore_spec":
                        found = (ast.unparse(st_.value), st_.lineno)
            cond = [ast.unparse(n.targets[0]) for n in ast.walk(fi.node) if isinstance(n, ast.Assign) and ast.unparse(n.targets[0]).endswith("process_info.ignore_spec")]
            self.ob(pid, q, "every-written-generation-gets-accumulated-patterns", found is not None and found[0] == want and len(cond) == 1,
                    f"in commit the pattern list of a new generation is set {'conditionally or elsewhere' if found is None else 'to ' + found[0]}; "
                    f"every written generation needs {want}", found[1] if found else None, kind="callsite")
        # the traversal hands the same patterns and the same root down the recursion
        q = "ascmhl.traverse.post_order_lexicographic"
        fi = self.repo.funcs.get(q)
        if fi is not None:
            calls = [n for n in ast.walk(fi.node) if isinstance(n, ast.Call) and isinstance(n.func, ast.Name) and n.func.id == "post_order_lexicographic"]
            own = [a.arg for a in fi.node.args.args][1:3]
            ok = len(calls) >= 1 and all(
                ([ast.unparse(a) for a in c_.args][1:] + [ast.unparse(k.value) for k in c_.keywords if k.arg in own]) == own for c_ in calls
            )
            self.ob(pid, q, "recursion-keeps-patterns-and-root", ok,
                    f"recursive calls pass {[[ast.unparse(a) for a in c_.args] for c_ in calls]}: sub-directories must be matched against the same patterns relative to the same root",
                    calls[0].lineno if calls else None, kind="callsite")
            self.obs[-1]["props"] = ["C12", "C13", "C07", "C02"]
        q = "ascmhl.history.MHLHistory.latest_ignore_patterns"
        fi = self.repo.funcs.get(q)
        if fi is not None:
            src = ast.unparse(fi.node)
            self.ob(pid, q, "latest = patterns of the last generation", "self.hash_lists[-1]" in src and "get_pattern_list()" in src,
                    "latest_ignore_patterns does not read the last generation's pattern list", kind="callsite")
        # these call-site obligations compare source shapes: a mismatch means "the code left the shape this checker
        # understands", not "the property is broken" -- it is reported as undecided and the bounded search and the
        # contracts of commit / MHLIgnoreSpec decide
        for o in self.obs[first:]:
            if o["kind"] == "callsite" and o["verdict"] == "refuted":
                o["verdict"] = "unknown"


    # ---------------------------------------------------------------- C20 (main-thread obligations around the updater)
    def c20(self):
        pid = "C20"
        q = "ascmhl.cli.update.Updater.__init__"
        fi = self.repo.funcs.get(q)
        if fi is None:
            self.ob(pid, q, "exists", False, "Updater.__init__ not found", unknown=True, kind="thread")
        else:
            lines = {}
            for n in ast.walk(fi.node):
                if isinstance(n, ast.Assign) and ast.unparse(n.targets[0]) == "self.daemon":
                    lines["daemon"] = (n.lineno, ast.unparse(n.value))
                if isinstance(n, ast.Call) and ast.unparse(n.func) == "self.start":
                    lines["start"] = n.lineno
            ok = "daemon" in lines and lines["daemon"][1] == "True" and ("start" not in lines or lines["daemon"][0] < lines["start"])
            self.ob(pid, q, "daemon-before-start", ok, f"the checker thread is not made a daemon before it is started: {lines}", kind="thread",
                    assumed=["threading: a daemon thread never keeps the interpreter alive; exceptions of a thread's run() do not reach the main thread"])
        for q in ("ascmhl.cli.update.Updater.run", "ascmhl.cli.update.Updater._get_latest_version"):
            fi = self.repo.funcs.get(q)
            if fi is None:
                continue
            writes = sorted({ast.unparse(n) for n in ast.walk(fi.node) if isinstance(n, ast.Attribute) and isinstance(n.ctx, ast.Store)})
            prints = [ast.unparse(n.func) for n in ast.walk(fi.node) if isinstance(n, ast.Call) and ast.unparse(n.func) in ("print", "click.echo", "click.secho", "logger.info", "logger.error", "sys.stdout.write", "sys.exit", "os._exit")]
            self.ob(pid, q, "thread-frame", set(writes) <= {"self.latest_version", "self.finished"} and not prints,
                    f"the checker thread writes {writes} / calls {prints}: its frame is {{latest_version, finished}} and it prints nothing", kind="thread")
        for mod in ("ascmhl.cli.ascmhl", "ascmhl.cli.ascmhl_debug"):
            q = f"{mod}.update"
            fi = self.repo.funcs.get(q)
            if fi is None:
                self.ob(pid, q, "exists", False, "result callback not found", unknown=True, kind="thread")
                continue
            joins = [n for n in ast.walk(fi.node) if isinstance(n, ast.Call) and isinstance(n.func, ast.Attribute) and n.func.attr == "join"]
            okj = False
            why = f"{len(joins)} join call(s)"
            if len(joins) == 1:
                kw = {k.arg: k.value for k in joins[0].keywords}
                tv = kw.get("timeout", joins[0].args[0] if joins[0].args else None)
                if isinstance(tv, ast.Constant) and isinstance(tv.value, (int, float)) and 0 <= tv.value <= 1:
                    okj = True
                else:
                    why = f"join timeout is {ast.unparse(tv) if tv is not None else None}: it must be a literal of at most 1 second"
            self.ob(pid, q, "join-with-literal-timeout<=1s", okj, why, joins[0].lineno if joins else None, kind="thread",
                    assumed=["threading: join(timeout=t) returns within about t seconds"])
            bad = [type(n).__name__ for n in ast.walk(fi.node) if isinstance(n, (ast.Raise,)) or (isinstance(n, ast.Return) and n.value is not None)]
            exits = [ast.unparse(n.func) for n in ast.walk(fi.node) if isinstance(n, ast.Call) and ast.unparse(n.func) in ("sys.exit", "exit", "os._exit", "quit")]
            self.ob(pid, q, "callback-returns-none-and-does-not-exit", not bad and not exits, f"callback contains {bad + exits}", kind="thread",
                    assumed=["click: the group's result callback runs only after a command returned normally; otherwise the process exits with the command's code"])
            echos = [n for n in ast.walk(fi.node) if isinstance(n, ast.Call) and ast.unparse(n.func) in ("click.secho", "click.echo", "print")]
            guarded = all(any(isinstance(p_, ast.If) and "needs_update" in ast.unparse(p_.test) and any(e is x for x in ast.walk(p_)) for p_ in ast.walk(fi.node)) for e in echos)
            self.ob(pid, q, "at-most-one-notice-only-if-needs_update", len(echos) <= 1 and guarded, f"{len(echos)} print call(s), guarded by needs_update: {guarded}", kind="thread")
            # module level: the updater is created once, nothing else wraps the commands
            mi = self.repo.modules.get(mod)
            cbs = [n for n in mi.tree.body if isinstance(n, ast.FunctionDef) and any("result_callback" in d for d in [ast.unparse(x) for x in n.decorator_list])]
            self.ob(pid, q, "single-result-callback", len(cbs) == 1, f"{len(cbs)} result callbacks in {mod}", kind="thread")
        q = "ascmhl.cli.update.Updater._get_latest_version"
        fi = self.repo.funcs.get(q)
        if fi is not None:
            tries = [n for n in ast.walk(fi.node) if isinstance(n, ast.Try)]
            gets = [n for n in ast.walk(fi.node) if isinstance(n, ast.Call) and ast.unparse(n.func).startswith("requests.")]
            inside = all(any(g is x for t_ in tries for b_ in t_.body for x in ast.walk(b_)) for g in gets)
            self.ob(pid, q, "network-calls-inside-thread-try", bool(gets) and inside, "a requests call outside the try block of the checker thread", kind="thread")


    # ---------------------------------------------------------------- heap frames (modifies clauses over the whole package)
    # The function contracts reason about these fields modularly: what append_file_hash / _validate_new_hash_list / the
    # constructors establish is only worth something at commit time if no OTHER function of the package writes the field
    # in between.  That is the frame half of the contracts ("nothing else changes it"), decided here for every function
    # of the package - under contract or not - from the AST of the current source: each store to the field (assignment,
    # augmented assignment, del, setattr with that name, in-place mutation of a list / dict field through a mutator call,
    # subscript store or del) must sit in a function whose declared frame contains the field.
    HEAP_FRAMES = {
        # field: (properties, functions whose frame contains it)
        "action": (["C04", "C18"], {
            "ascmhl.hashlist.MHLHashEntry.__init__",
            "ascmhl.generator.MHLGenerationCreationSession.append_file_hash",
            "ascmhl.generator.MHLGenerationCreationSession.append_multiple_format_file_hashes",
            "ascmhl.history.MHLHistory._validate_new_hash_list"}),
        "hash_string": (["C04", "C07", "C18"], {
            "ascmhl.hashlist.MHLHashEntry.__init__", "ascmhl.chain.MHLChainGeneration.__init__", "ascmhl.chain_xml_parser.parse"}),
        "hash_format": (["C04", "C07", "C18"], {
            "ascmhl.hashlist.MHLHashEntry.__init__", "ascmhl.chain.MHLChainGeneration.__init__", "ascmhl.chain_xml_parser.parse",
            "ascmhl.hasher.DirectoryHashContext.__init__"}),
        "structure_hash_string": (["C07"], {
            "ascmhl.hashlist.MHLHashEntry.__init__", "ascmhl.hashlist_xml_parser.parse",
            "ascmhl.generator.MHLGenerationCreationSession.append_directory_hashes",
            "ascmhl.generator.MHLGenerationCreationSession.append_multiple_format_directory_hashes"}),
        "hash_entries": (["C04", "C18", "C07"], {
            "ascmhl.hashlist.MHLMediaHash.__init__", "ascmhl.hashlist.MHLMediaHash.append_hash_entry"}),
        "previous_path": (["C17"], {
            "ascmhl.hashlist.MHLMediaHash.__init__", "ascmhl.hashlist_xml_parser.parse", "ascmhl.commands.create_for_folder_subcommand"}),
        "generation_number": (["C06"], {
            "ascmhl.hashlist.MHLHashList.__init__", "ascmhl.chain.MHLChainGeneration.__init__", "ascmhl.chain_xml_parser.parse",
            "ascmhl.history.MHLHistory.load_from_path", "ascmhl.history.MHLHistory.load_from_packing_list_path",
            "ascmhl.history.MHLHistory.write_new_generation"}),
        "hash_lists": (["C06"], {"ascmhl.history.MHLHistory.__init__", "ascmhl.history.MHLHistory.append_hash_list"}),
        "media_hashes": (["C02"], {"ascmhl.hashlist.MHLHashList.__init__", "ascmhl.hashlist.MHLHashList.append_hash"}),
        "media_hashes_path_map": (["C02"], {"ascmhl.hashlist.MHLHashList.__init__", "ascmhl.hashlist.MHLHashList.append_hash"}),
        "file_size": (["C16"], {
            "ascmhl.hashlist.MHLMediaHash.__init__", "ascmhl.hashlist_xml_parser.parse",
            "ascmhl.hashlist.MHLHashList.find_or_create_media_hash_for_path"}),
        "last_modification_date": (["C16"], {
            "ascmhl.hashlist.MHLMediaHash.__init__", "ascmhl.hashlist.MHLHashList.find_or_create_media_hash_for_path"}),
        "child_history_mappings": (["C08"], {"ascmhl.history.MHLHistory.__init__", "ascmhl.history.MHLHistory._update_child_history_mapping"}),
        # the recorded path of a record / reference is set where the record is created (relative to the owning history) and never rewritten
        "path": (["C02", "C08"], {
            "ascmhl.hashlist.MHLMediaHash.__init__", "ascmhl.hashlist.MHLHashListReference.__init__", "ascmhl.hashlist_xml_parser.parse",
            "ascmhl.hashlist.MHLHashList.find_or_create_media_hash_for_path", "ascmhl.hashlist_xml_parser._process_info_xml_element",
            "ascmhl.commands.commit_session_for_collection"}),
        "is_directory": (["C02", "C07"], {
            "ascmhl.hashlist.MHLMediaHash.__init__", "ascmhl.hashlist_xml_parser.parse",
            "ascmhl.generator.MHLGenerationCreationSession.append_directory_hashes",
            "ascmhl.generator.MHLGenerationCreationSession.append_multiple_format_directory_hashes"}),
        "referenced_hash_lists": (["C08"], {"ascmhl.hashlist.MHLHashList.__init__", "ascmhl.generator.MHLGenerationCreationSession.commit",
                                            "ascmhl.history.MHLHistory._resolve_hash_list_references"}),
        "ignore_spec": (["C12"], {
            "ascmhl.hashlist.MHLProcessInfo.__init__", "ascmhl.hashlist_xml_parser.parse", "ascmhl.generator.MHLGenerationCreationSession.__init__",
            "ascmhl.generator.MHLGenerationCreationSession.commit"}),
        "_ignore_list": (["C12"], {"ascmhl.ignore.MHLIgnoreSpec.__init__", "ascmhl.ignore.MHLIgnoreSpec.set_patterns",
                                   "ascmhl.ignore.MHLIgnoreSpec._append_patterns_list"}),
        "creation_date": (["C16", "C19"], {
            "ascmhl.hashlist.MHLCreatorInfo.__init__", "ascmhl.hashlist_xml_parser.parse", "ascmhl.commands.commit_session",
            "ascmhl.commands.commit_session_for_collection"}),
    }
    MUTATORS = {"append", "extend", "insert", "remove", "pop", "clear", "sort", "reverse", "update", "setdefault", "popitem", "__setitem__", "__delitem__"}

    def heap_sites(self):
        """every store to an attribute anywhere in the package: (field, owner qualname, line, how)"""
        sites = []
        for mi in self.repo.modules.values():
            def walk(node, owner):
                for ch in ast.iter_child_nodes(node):
                    o = owner
                    if isinstance(ch, (ast.FunctionDef, ast.AsyncFunctionDef)) and owner.count("<") == 0 and not owner.endswith(")"):
                        o = owner + "." + ch.name + "()"  # nested functions belong to their outermost function
                    elif isinstance(ch, (ast.FunctionDef, ast.AsyncFunctionDef)):
                        o = owner
                    elif isinstance(ch, ast.ClassDef) and not owner.endswith(")"):
                        o = owner + "." + ch.name
                    if isinstance(ch, ast.Attribute) and isinstance(ch.ctx, (ast.Store, ast.Del)):
                        own = isinstance(ch.value, ast.Name) and ch.value.id == "self" and o.endswith(".__init__()")
                        selfst = isinstance(ch.value, ast.Name) and ch.value.id == "self"
                        sites.append((ch.attr, o, ch.lineno, "constructor-initialisation" if own else ("self-assignment" if selfst else "assignment")))
                    if isinstance(ch, ast.Subscript) and isinstance(ch.ctx, (ast.Store, ast.Del)) and isinstance(ch.value, ast.Attribute):
                        sites.append((ch.value.attr, o, ch.lineno, "subscript store"))
                    if isinstance(ch, ast.Call):
                        fn = ch.func
                        if isinstance(fn, ast.Attribute) and fn.attr in self.MUTATORS and isinstance(fn.value, ast.Attribute):
                            sites.append((fn.value.attr, o, ch.lineno, f"in-place {fn.attr}()"))
                        if isinstance(fn, ast.Name) and fn.id in ("setattr", "delattr") and len(ch.args) >= 2:
                            a = ch.args[1]
                            sites.append((a.value if isinstance(a, ast.Constant) and isinstance(a.value, str) else "*", o, ch.lineno, fn.id))
                    if isinstance(ch, ast.Attribute) and ch.attr == "__dict__":
                        sites.append(("*", o, ch.lineno, "__dict__ access"))
                    if isinstance(ch, ast.AugAssign) and isinstance(ch.target, ast.Attribute):
                        pass  # the target has Store context: counted above
                    walk(ch, o)
            walk(mi.tree, mi.name)
        return [(f, o[:-2] if o.endswith("()") else o, ln, how) for f, o, ln, how in sites]

    def callers(self, q):
        if not hasattr(self, "_callers"):
            self._callers = {}
            for x, fi in self.repo.funcs.items():
                for c in self.callees(fi):
                    self._callers.setdefault(c, set()).add(x)
            # calls made from module level / nested code that is not an indexed function count as an unknown caller
        return self._callers.get(q, set())

    def helper_of(self, q, frame, depth=0, seen=()):
        fi = self.repo.funcs.get(q)
        if fi is None or depth > 4 or q in seen:
            return False
        # a name that is also referenced without being called (passed as a callback, stored) could be invoked from anywhere
        name = q.split(".")[-1]
        for mi in self.repo.modules.values():
            for n in ast.walk(mi.tree):
                if isinstance(n, (ast.Name, ast.Attribute)) and (getattr(n, "id", None) == name or getattr(n, "attr", None) == name) and isinstance(n.ctx, ast.Load):
                    par_call = any(isinstance(c, ast.Call) and c.func is n for c in ast.walk(mi.tree))
                    if not par_call:
                        return False
        cs = self.callers(q)
        if not cs:
            return False
        return all(c in frame or self.helper_of(c, frame, depth + 1, tuple(seen) + (q,)) for c in cs)

    def heap_frames(self, pid):
        sites = self.heap_sites()
        for field, (props, frame) in self.HEAP_FRAMES.items():
            if pid not in props:
                continue
            mine = [s for s in sites if s[0] == field or s[0] == "*"]
            q0 = sorted(frame)[0]
            # vacuity guard: the frame talks about a field the package really writes (a renamed field is `unknown`, not a violation)
            self.ob(pid, q0, f"heap-frame-of-{field}-is-inhabited", bool([s for s in mine if s[0] == field]),
                    f"no store to a field named {field} found in the package: the frame table no longer matches the code", unknown=not [s for s in mine if s[0] == field])
            self.obs[-1]["props"] = list(props)
            for f, owner, ln, how in mine:
                # modular frame rule: a writer outside the table is fine if it is a helper whose every caller (over the
                # call graph of the package, transitively) has the field in its frame - then the store still happens
                # inside the dynamic extent of a function the table allows (e.g. a helper extracted from append_file_hash)
                # a constructor storing to a field of its own fresh object is inside every frame (fresh objects are not in
                # anybody's pre-state): classes added later may reuse a field name such as `path`
                ok = owner in frame or how == "constructor-initialisation" or self.helper_of(owner, frame)
                # a method storing to `self.<field>` of a class that is not one of the frame's classes and initialises a field of
                # that name itself writes its OWN field, which merely shares the name (stores are resolved by name, not by type)
                init = owner.rsplit(".", 1)[0] + ".__init__"
                if not ok and how == "self-assignment" and init not in frame and any(
                        s2[0] == field and s2[1] == init and s2[3] == "constructor-initialisation" for s2 in sites):
                    ok = True
                self.ob(pid, owner, f"heap-frame-{field}@{how.replace(' ', '-')}#{sum(1 for o in self.obs if o['name'].startswith(owner + ':heap-frame-' + field))}", ok,
                        f"{how} of field `{f}` at line {ln} of {owner}: the field is outside this function's frame; the contracts of "
                        f"{', '.join(sorted(x.split('.')[-2] + '.' + x.split('.')[-1] for x in frame))} are the only writers the property's argument allows", ln)
                self.obs[-1]["props"] = list(props)


    def c17(self):
        """previous_path is recorded only under a digest match: every store to .previous_path in the rename region of create is
        guarded (enclosing if-tests, conjunctively) by an equality between the digest recorded for the missing path and a digest
        of the new path"""
        pid = "C17"
        q = "ascmhl.commands.create_for_folder_subcommand"
        fi = self.repo.funcs.get(q)
        if fi is None:
            self.ob(pid, q, "exists", False, "not found", unknown=True, kind="guard")
            return
        stores = []

        def walk(node, guards):
            for field, val in ast.iter_fields(node):
                kids = val if isinstance(val, list) else [val]
                for ch in kids:
                    if not isinstance(ch, ast.AST):
                        continue
                    g = guards
                    if isinstance(node, ast.If) and field == "body":
                        g = guards + [node.test]
                    if isinstance(ch, ast.Attribute) and ch.attr == "previous_path" and isinstance(ch.ctx, ast.Store):
                        stores.append((ch, g))
                    walk(ch, g)

        walk(fi.node, [])
        self.ob(pid, q, "rename-region-records-previous-paths", bool(stores), "no store to previous_path found in create_for_folder_subcommand", fi.node.lineno,
                kind="guard", unknown=not stores)
        for k, (st, guards) in enumerate(stores):
            eqs = [c for t in guards for c in ast.walk(t) if isinstance(c, ast.Compare) and len(c.ops) == 1 and isinstance(c.ops[0], ast.Eq)]
            match = [c for c in eqs if ast.unparse(c.left).endswith("hash_string") or ast.unparse(c.comparators[0]).endswith("hash_string")]
            both = [c for c in match if "not_found" in ast.unparse(c) and "new_path" in ast.unparse(c)]
            calls = [c for t in guards for c in ast.walk(t) if isinstance(c, ast.Call)
                     and not ast.unparse(c.func).startswith(("os.", "len", "isinstance", "hasattr", "str", "bool"))]
            mentions = any("hash_string" in ast.unparse(t) for t in guards)
            ok = bool(both)
            # a digest comparison behind a helper call or under other names cannot be recognised syntactically: undecided, not a violation
            unknown = not ok and (bool(calls) or mentions or bool(match))
            self.ob(pid, q, f"previous-path-only-under-digest-match#{k}", ok,
                    f"store to previous_path at line {st.lineno} is not guarded by an equality between the recorded digest of the missing path and a digest of the new path "
                    f"(guards: {[ast.unparse(t)[:80] for t in guards]})", st.lineno, kind="guard", unknown=unknown)

    def c06(self):
        pid = "C06"
        q = "ascmhl.utils.datetime_now_filename_string"
        fi = self.repo.funcs.get(q)
        if fi is None:
            self.ob(pid, q, "exists", False, "not found", unknown=True, kind="ground")
            return
        src = ast.unparse(fi.node)
        calls = [n for n in ast.walk(fi.node) if isinstance(n, ast.Call) and ast.unparse(n.func).endswith("strftime")]
        ok = len(calls) == 1 and len(calls[0].args) == 2 and ast.unparse(calls[0].args[0]) == "datetime.datetime.now(datetime.timezone.utc)" \
            and isinstance(calls[0].args[1], ast.Constant) and calls[0].args[1].value == "%Y-%m-%d_%H%M%SZ"
        self.ob(pid, q, "manifest-name-carries-the-UTC-clock", ok,
                f"the time in the manifest name is not strftime(now(timezone.utc), '%Y-%m-%d_%H%M%SZ'): {src[-160:]}", fi.node.lineno, kind="ground")
        self.obs[-1]["props"] = ["C06", "C16"]


def run(pid, tier, repo_root=None):
    from . import REPO

    s = Statics(repo_root or REPO)
    if pid == "C14":
        s.c14()
    elif pid == "C05":
        s.c05()
    elif pid == "C15":
        s.c15()
    elif pid == "C12":
        s.c12()
    elif pid == "C20":
        s.c20()
    elif pid in ("C13", "C07", "C02"):
        s.c12()
    elif pid in ("C06", "C08", "C03"):
        s.c05()
        s.c15()
        s.c06()
    elif pid == "C16":
        s.c06()
    if pid == "C17":
        s.c17()
    if pid in ("C02", "C04", "C06", "C07", "C08", "C12", "C16", "C17", "C18", "C19"):
        s.heap_frames(pid)
    return [o for o in s.obs if pid in o["props"]]


if __name__ == "__main__":
    import sys

    for pid in [a for a in sys.argv[1:] if not a.startswith("-")] or ["C02", "C04", "C05", "C06", "C07", "C08", "C12", "C14", "C15", "C16", "C17", "C18", "C19", "C20"]:
        obs = run(pid, "quick")
        bad = [o for o in obs if o["verdict"] != "discharged"]
        print(pid, len(obs), "obligations,", len(bad), "not discharged")
        for o in bad:
            print("  ", o["verdict"], o["name"], o["reason"])
