"""Frame, dominance, call-graph and crash-condition obligations decided on the AST (no SMT needed for most)."""


def run(pid, tier):
    return []
