"""Symbolic state, outcomes and obligations of the pyvc executor."""
import z3

from .vals import *  # noqa


class Outcome:
    def __init__(self, kind, value=None, exc=None, exc_args=None, line=None):
        self.kind = kind  # 'normal' | 'return' | 'break' | 'continue' | 'raise' | 'dead'
        self.value = value
        self.exc = exc
        self.exc_args = exc_args
        self.line = line


NORMAL = Outcome("normal")
BREAK = Outcome("break")
CONTINUE = Outcome("continue")
DEAD = Outcome("dead")


class Obligation:
    def __init__(self, name, hyps, goal, kind, line=None, props=(), trace=(), func=None, finite=None, weak=()):
        self.name = name
        self.weak = list(weak)
        self.hyps = list(hyps)
        self.goal = goal
        self.kind = kind
        self.line = line
        self.props = list(props)
        self.trace = list(trace)
        self.func = func
        self.verdict = None
        self.backend = None
        self.time = 0.0
        self.model = None
        self.reason = None

    def formula(self):
        return z3.And(self.hyps + [z3.Not(self.goal)]) if self.hyps else z3.Not(self.goal)


class State:
    """one path of the symbolic execution"""

    def __init__(self, ex):
        self.weak = []
        self.ex = ex
        self.locals = {}
        self.heap = {}  # heap array key -> z3 array term (only arrays that differ from / were created after entry)
        self.pc = []
        self.guards = []
        self.alloc = z3.Int("alloc@entry")
        self.out = z3.Const("out@entry", z3.SeqSort(z3.StringSort()))
        self.trace = []
        self.ghost = {}
        self.fs = z3.Int("fs@entry")  # abstract file-system state token (reads are functions of it)
        self.old = None  # State at function entry (for old())
        self.dead = False

    def copy(self):
        s = State.__new__(State)
        s.ex = self.ex
        s.locals = dict(self.locals)
        s.heap = dict(self.heap)
        s.pc = list(self.pc)
        s.guards = list(self.guards)
        s.alloc = self.alloc
        s.out = self.out
        s.trace = list(self.trace)
        s.ghost = dict(self.ghost)
        s.fs = self.fs
        s.old = self.old
        s.dead = self.dead
        s.weak = list(getattr(self, 'weak', ()))
        return s

    def assume(self, b):
        if z3.is_true(b):
            return
        if self.guards:
            b = z3.Implies(z3.And(self.guards), b)
        self.pc.append(b)

    def hyps(self):
        return self.pc + self.guards

    # ---- heap
    def harr(self, key, dom_sort, rng_sort):
        if key in self.heap:
            return self.heap[key]
        eh = self.ex.entry_heap
        if key not in eh:
            eh[key] = z3.Const(f"H!{key}", z3.ArraySort(dom_sort, rng_sort))
            self.ex.entry_heap_created(key, eh[key])
        return eh[key]

    def get_field(self, ref_e, key, ty):
        sorts = flat_sorts(ty)
        es = [z3.Select(self.harr(f"{key}#{i}", z3.IntSort(), s), ref_e) for i, s in enumerate(sorts)]
        return unflat(ty, es)

    def set_field(self, ref_e, key, ty, val):
        val = coerce(val, ty, f"field {key}")
        for i, e in enumerate(flat(val)):
            k = f"{key}#{i}"
            arr = self.harr(k, z3.IntSort(), e.sort())
            self.heap[k] = z3.Store(arr, ref_e, e)

    def havoc_field(self, key, ty):
        for i, s in enumerate(flat_sorts(ty)):
            k = f"{key}#{i}"
            self.heap[k] = z3.Const(fresh_name(f"H!{k}"), z3.ArraySort(z3.IntSort(), s))

    def new_ref(self, cls):
        r = z3.Int(fresh_name(f"new_{cls}"))
        self.pc.append(r > self.alloc)
        self.pc.append(r > 0)
        self.alloc = r
        k = "__class__#0"
        arr = self.harr(k, z3.IntSort(), z3.IntSort())
        self.heap[k] = z3.Store(arr, r, z3.IntVal(class_code(cls)))
        return VRef(cls, r, False)

    def class_of(self, ref_e):
        return z3.Select(self.harr("__class__#0", z3.IntSort(), z3.IntSort()), ref_e)
