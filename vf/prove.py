"""Run the VC generator over the contracts and discharge the obligations (one worker process per function)."""
import importlib
import multiprocessing as mp
import os
import pkgutil
import sys
import time
import traceback

from . import VERIF


def load_contracts():
    if VERIF not in sys.path:
        sys.path.insert(0, VERIF)
    import contracts  # noqa
    from .contracts import REG

    for m in sorted(pkgutil.iter_modules(contracts.__path__), key=lambda x: x.name):
        importlib.import_module(f"contracts.{m.name}")
    check_lemma_slots(REG)
    return REG


_LEMMA_CALL = None


def check_lemma_slots(reg):
    """the slots `lemmas`, Loop.lemmas, entry_lemmas and exit_lemmas are ASSUMED: they may only hold instances of lemma
    schemas (L_...: theorems with their own proof obligations, or definitional unfoldings).  Any other formula belongs
    into `cuts` / `exit_asserts`, where it is proved before it is used."""
    import re

    pat = re.compile(r"^\s*(all\(\s*)?(implies\(.*,\s*)?(.*\bor\s+)?(old\()?L_\w+\(")
    bad = []
    for q, c in reg.contracts.items():
        items = [e for es in c.lemmas.values() for e in es] + [e for l in c.loops.values() for e in l.lemmas] + list(c.entry_lemmas) + list(c.exit_lemmas)
        bad += [f"{q}: {e[:100]}" for e in items if not pat.match(e)]
    if bad:
        raise RuntimeError("assumed formulas that are not lemma instances:\n  " + "\n  ".join(bad))


def targets(reg, repo, props=None, only=None):
    out = []
    for q, c in reg.contracts.items():
        if c.trusted or c.inline or (c.bounded and not os.environ.get("VERIF_TRY_BOUNDED")):
            continue
        if only and not any(o in q for o in only):
            continue
        if c.family:
            fams = [k for k in repo.subclasses(c.family) if not is_abstract(repo, k)]
            base_cls = repo.funcs[q].cls if q in repo.funcs else None
            for k in fams:
                # only classes that actually inherit this implementation
                fi = repo.find_method(k, q.rsplit(".", 1)[1])
                if fi is not None and fi.qualname == q:
                    out.append((q, k))
        else:
            out.append((q, None))
    for name in reg.lemmas:
        q = "lemma." + name
        if only and not any(o in q for o in only):
            continue
        out.append((q, None))
    return out


def is_abstract(repo, cls):
    ci = repo.classes[cls]
    return any(b.split(".")[-1] == "ABC" for b in ci.bases)


_SUB_OBS, _SUB_OPTS, _SUB_FAM = [], {}, None


def _ob_dict(ob, fam, opts):
    from .smt import discharge

    discharge(ob, both=opts.get("both", False), use_cvc5=opts.get("cvc5", True))
    if ob.verdict == "refuted" and getattr(ob, "weak", None):
        ob.verdict, ob.model = "unknown", None
        ob.reason = "proof lost (not a refutation): " + "; ".join(sorted(set(ob.weak)))[:300]
    d = {"name": ob.name + (f"[{fam}]" if fam else ""), "kind": ob.kind, "props": ob.props, "verdict": ob.verdict, "backend": ob.backend,
         "time": round(ob.time, 3), "line": ob.line, "reason": ob.reason, "trace": ob.trace}
    if ob.verdict == "refuted" and ob.model is not None:
        d["model"] = model_summary(ob.model)
    if ob.verdict != "discharged" and opts.get("dump"):
        d["smt2"] = ob.formula().sexpr()[:20000]
    return d


def _discharge_slice(arg):
    k, n = arg
    out = {}
    for i, ob in enumerate(_SUB_OBS):
        if i % n == k:
            try:
                out[i] = _ob_dict(ob, _SUB_FAM, _SUB_OPTS)
            except Exception as e:  # noqa
                out[i] = {"name": ob.name, "kind": ob.kind, "props": ob.props, "verdict": "unknown", "backend": None, "time": 0.0, "line": ob.line,
                          "reason": f"discharge error: {e}", "trace": ob.trace}
    return out


def verify_one(job):
    q, fam, opts = job
    import z3  # noqa

    from . import libs  # noqa  (registers stubs)
    from .pyvc import Exec
    from .smt import discharge
    from .source import Repo
    from .specs import SPEC
    from .vals import Unsupported

    t0 = time.time()
    res = {"target": q, "family": fam, "obligations": [], "error": None, "unsupported": None, "assumed": [], "warnings": []}
    try:
        reg = load_contracts()
        repo = Repo(opts.get("repo"))
        ex = Exec(repo, reg, SPEC)
        if q.startswith("lemma."):
            lm = reg.lemmas[q[6:]]
            obs = ex.verify_lemma(lm)
            for ob in obs:
                discharge(ob, both=opts.get("both", False), use_cvc5=opts.get("cvc5", True))
                res["obligations"].append({"name": ob.name, "kind": ob.kind, "props": ob.props, "verdict": ob.verdict, "backend": ob.backend,
                                           "time": round(ob.time, 3), "line": None, "reason": ob.reason, "trace": []})
            res["cover"] = ex.cover
            res["wall"] = time.time() - t0
            return res
        c = reg.contracts[q]
        fi = repo.funcs.get(c.target)
        if fi is None:
            res["unsupported"] = f"target {q} not found in the repository (renamed or removed)"
            return res
        res["sha"] = fi.sha
        res["lines"] = [fi.node.lineno, fi.node.end_lineno]
        try:
            obs = ex.verify(c, fam)
        except Unsupported as e:
            res["unsupported"] = str(e)
            obs = []
        except Exception as e:  # noqa - the generator met code it cannot execute: undecided, never an alarm
            res["unsupported"] = f"VC generation failed on this source ({type(e).__name__}: {e})"
            obs = []
        res["gen_s"] = time.time() - t0
        k_, n_ = opts.get("slice", (0, 1))
        res["total_obligations"] = len(obs)
        sub = int(opts.get("subworkers", 1))
        if sub > 1 and len(obs) > sub:
            # the VCs are generated ONCE; the discharge is spread over forked sub-workers that inherit the formulas
            global _SUB_OBS, _SUB_OPTS, _SUB_FAM
            _SUB_OBS, _SUB_OPTS, _SUB_FAM = obs, opts, fam
            ctx = mp.get_context("fork")
            with ctx.Pool(sub) as pool:
                parts = pool.map(_discharge_slice, [(k, sub) for k in range(sub)], chunksize=1)
            by_index = {}
            for part in parts:
                by_index.update(part)
            res["obligations"] = [by_index[i] for i in sorted(by_index)]
            res["assumed"] = sorted(ex.assumed)
            res["warnings"] = ex.warnings
            res["npaths"] = ex.npaths
            res["cover"] = getattr(ex, "cover", None)
            res["wall"] = time.time() - t0
            return res
        obs = [ob for i_, ob in enumerate(obs) if i_ % n_ == k_]
        for ob in obs:
            # discharged in the process that generated the formula: z3 behaves measurably worse on the same formula after a
            # round trip through SMT-LIB text (different term order / let-structure), so nothing is re-parsed
            discharge(ob, both=opts.get("both", False), use_cvc5=opts.get("cvc5", True))
            if ob.verdict == "refuted" and getattr(ob, "weak", None):
                # the counter-model lives in an over-approximation no annotation vouches for: the proof is lost, nothing is refuted
                ob.verdict, ob.model = "unknown", None
                ob.reason = "proof lost (not a refutation): " + "; ".join(sorted(set(ob.weak)))[:300]
            d = {
                "name": ob.name + (f"[{fam}]" if fam else ""),
                "kind": ob.kind,
                "props": ob.props,
                "verdict": ob.verdict,
                "backend": ob.backend,
                "time": round(ob.time, 3),
                "line": ob.line,
                "reason": ob.reason,
                "trace": ob.trace,
            }
            if ob.verdict == "refuted" and ob.model is not None:
                d["model"] = model_summary(ob.model)
            if ob.verdict != "discharged" and opts.get("dump"):
                d["smt2"] = ob.formula().sexpr()[:20000]
            res["obligations"].append(d)
        res["assumed"] = sorted(ex.assumed)
        res["warnings"] = ex.warnings
        res["npaths"] = ex.npaths
        res["cover"] = getattr(ex, "cover", None)
    except Exception:
        res["error"] = traceback.format_exc()
    res["wall"] = time.time() - t0
    return res


def model_summary(m):
    out = {}
    for d in m.decls():
        n = d.name()
        if "!" in n and not n.startswith(("H!", "new_")):
            continue
        try:
            v = m[d]
            s = str(v)
            if len(s) > 200:
                s = s[:200] + "..."
            out[n] = s
        except Exception:
            pass
        if len(out) > 60:
            break
    return out


def _child(job, conn):
    try:
        os.setsid()  # own process group: sub-workers die with the job when it is killed at the deadline
    except OSError:
        pass
    try:
        conn.send(verify_one(job))
    except BaseException:  # noqa
        q, fam, _ = job
        conn.send({"target": q, "family": fam, "obligations": [], "error": traceback.format_exc(), "unsupported": None, "assumed": [], "warnings": []})
    finally:
        conn.close()


def run_jobs(jobs, procs):
    """one process per job (at most `procs` at a time) with a wall-clock deadline: a solver call that ignores its own
    time limit, or a worker that dies, costs the obligations of that one job (reported as undecided), never the run"""
    deadline = float(os.environ.get("VERIF_JOB_DEADLINE", "400"))
    ctx = mp.get_context("fork")
    pending = list(enumerate(jobs))
    running = {}
    results = [None] * len(jobs)

    def lost(job, why):
        q, fam, _ = job
        return {"target": q, "family": fam, "obligations": [], "error": None, "unsupported": why, "assumed": [], "warnings": [], "wall": deadline}

    while pending or running:
        while pending and len(running) < procs:
            k, job = pending.pop(0)
            a, b = ctx.Pipe(duplex=False)
            p = ctx.Process(target=_child, args=(job, b), daemon=False)
            p.start()
            b.close()
            running[k] = (p, a, time.time(), job)
        done = []
        for k, (p, a, t0, job) in running.items():
            if a.poll():
                try:
                    results[k] = a.recv()
                except (EOFError, OSError):
                    results[k] = lost(job, "worker process died")
                done.append(k)
            elif not p.is_alive():
                results[k] = lost(job, "worker process died")
                done.append(k)
            elif time.time() - t0 > deadline:
                try:
                    os.killpg(p.pid, 9)
                except OSError:
                    p.terminate()
                results[k] = lost(job, f"worker exceeded the wall-clock budget of {deadline:.0f}s (slice {job[2].get('slice')})")
                done.append(k)
        for k in done:
            p, a, _, _ = running.pop(k)
            p.join(timeout=5)
            if p.is_alive():
                p.kill()
            a.close()
        if not done:
            time.sleep(0.05)
    return results


def run(props=None, only=None, both=False, cvc5=True, dump=False, repo_root=None, procs=None):
    from .source import Repo

    reg = load_contracts()
    repo = Repo(repo_root)
    tg = targets(reg, repo, props, only)
    if props:
        keep = []
        for q, fam in tg:
            if q.startswith("lemma."):
                if set(reg.lemmas[q[6:]].props) & set(props):
                    keep.append((q, fam))
                continue
            c = reg.contracts[q]
            tags = set(c.props)
            for e in c.ensures:
                if isinstance(e, tuple):
                    tags.update(e[1])
            if tags & set(props):
                keep.append((q, fam))
        tg = keep
    jobs = []
    for q, fam in tg:
        n = 1
        if not q.startswith("lemma."):
            n = max(1, int(getattr(reg.contracts[q], "slices", 1)))
        jobs.append((q, fam, {"both": both, "cvc5": cvc5, "dump": dump, "repo": repo_root, "slice": (0, 1), "subworkers": n}))
    procs = procs or 16
    # heaviest first
    jobs.sort(key=lambda j_: -j_[2]["subworkers"])
    parts = run_jobs(jobs, procs)
    # merge the slices of one function back into one result
    merged = {}
    order = []
    for r in parts:
        key = (r["target"], r["family"])
        if key not in merged:
            merged[key] = r
            order.append(key)
        else:
            m = merged[key]
            m["obligations"].extend(r["obligations"])
            m["assumed"] = sorted(set(m["assumed"]) | set(r["assumed"]))
            m["wall"] = max(m.get("wall", 0), r.get("wall", 0))
            m["error"] = m["error"] or r["error"]
            m["unsupported"] = m["unsupported"] or r["unsupported"]
    return [merged[k] for k in order]


if __name__ == "__main__":
    import argparse
    import json

    ap = argparse.ArgumentParser()
    ap.add_argument("--only", nargs="*")
    ap.add_argument("--props", nargs="*")
    ap.add_argument("--dump", action="store_true")
    ap.add_argument("--procs", type=int)
    ap.add_argument("-v", action="store_true")
    a = ap.parse_args()
    rs = run(props=a.props, only=a.only, dump=a.dump, procs=a.procs)
    tot = dis = 0
    for r in rs:
        tag = r["target"] + (f"[{r['family']}]" if r["family"] else "")
        if r["error"]:
            print("ERROR", tag)
            print(r["error"])
            continue
        if r["unsupported"]:
            print("UNSUPPORTED", tag, "--", r["unsupported"])
        n = len(r["obligations"])
        d = sum(1 for o in r["obligations"] if o["verdict"] == "discharged")
        tot += n
        dis += d
        cv = r.get("cover") or {}
        vac = " VACUOUS?" if cv and cv.get("exits") and not (cv.get("reachable") or cv.get("unknown")) else ""
        print(f"{tag}: {d}/{n} discharged, {r.get('wall',0):.1f}s paths={r.get('npaths')} cover={cv.get('reachable')}+{cv.get('unknown')}?/{cv.get('exits')}{vac}")
        for w in r["warnings"]:
            print("   warn:", w)
        for o in r["obligations"]:
            if o["verdict"] != "discharged" or a.v:
                print(f"   {o['verdict']:10s} {o['name']}  ({o['backend']}, {o['time']}s) {o.get('reason') or ''}")
                if o["verdict"] == "refuted" and a.v:
                    print("      model:", json.dumps(o.get("model"))[:1500])
                if a.dump and o.get("smt2"):
                    print(o["smt2"])
    print(f"TOTAL {dis}/{tot}")
