"""Type descriptors and symbolic values of the pyvc symbolic executor.

Encoding (what is assumed about Python is listed in pyvc.PY_SEMANTICS):
  int -> SMT Int (exact), bool -> Bool, str -> String, bytes -> String (code points 0..255 are a subset),
  None -> no term; Optional[scalar] -> (isnone Bool, value); object reference -> Int (> 0), None reference -> 0,
  list -> Seq, dict -> (insertion-ordered key Seq, Array key->value), set -> Array elem->Bool, tuple -> tuple of values,
  class objects / opaque library values -> Int codes.
"""
import itertools
import re

import z3

_ctr = itertools.count()


def fresh_name(base):
    return f"{base}!{next(_ctr)}"


# ---------------------------------------------------------------- types
class Ty:
    def __eq__(self, o):
        return type(self) is type(o) and self.__dict__ == o.__dict__

    def __hash__(self):
        return hash((type(self).__name__, tuple(sorted((k, str(v)) for k, v in self.__dict__.items()))))

    def __repr__(self):
        return tystr(self)


class TInt(Ty):
    pass


class TBool(Ty):
    pass


class TStr(Ty):
    pass


class TBytes(Ty):
    pass


class TNone(Ty):
    pass


class TRef(Ty):
    def __init__(self, cls, nullable=False):
        self.cls = cls
        self.nullable = nullable


class TOpt(Ty):
    def __init__(self, inner):
        self.inner = inner


class TList(Ty):
    def __init__(self, elem):
        self.elem = elem


class TDict(Ty):
    def __init__(self, key, val, default=None):
        self.key = key
        self.val = val
        self.default = default  # class name for defaultdict(factory)


class TSet(Ty):
    def __init__(self, elem):
        self.elem = elem


class TTuple(Ty):
    def __init__(self, items):
        self.items = tuple(items)


class TClass(Ty):
    """a class object (e.g. the `cls` parameter of a classmethod)"""

    pass


class TOpaque(Ty):
    def __init__(self, name):
        self.name = name


def tystr(t):
    if isinstance(t, TInt):
        return "int"
    if isinstance(t, TBool):
        return "bool"
    if isinstance(t, TStr):
        return "str"
    if isinstance(t, TBytes):
        return "bytes"
    if isinstance(t, TNone):
        return "None"
    if isinstance(t, TRef):
        return t.cls + ("?" if t.nullable else "")
    if isinstance(t, TOpt):
        return tystr(t.inner) + "?"
    if isinstance(t, TList):
        return f"list[{tystr(t.elem)}]"
    if isinstance(t, TDict):
        return f"dict[{tystr(t.key)},{tystr(t.val)}]"
    if isinstance(t, TSet):
        return f"set[{tystr(t.elem)}]"
    if isinstance(t, TTuple):
        return "tuple[" + ",".join(tystr(x) for x in t.items) + "]"
    if isinstance(t, TClass):
        return "class"
    if isinstance(t, TOpaque):
        return "opaque:" + t.name
    return "?"


OPAQUES = {"datetime", "pathspec", "file", "hashlib", "element", "version", "timedelta"}


def parse_type(s):
    s = s.strip()
    toks = re.findall(r"[A-Za-z_][A-Za-z_0-9:]*|[\[\],?]", s)
    pos = [0]

    def peek():
        return toks[pos[0]] if pos[0] < len(toks) else None

    def eat(t=None):
        x = peek()
        if t is not None and x != t:
            raise ValueError(f"type syntax: expected {t} got {x} in {s!r}")
        pos[0] += 1
        return x

    def p():
        name = eat()
        if name in ("list", "dict", "set", "tuple", "defaultdict") and peek() == "[":
            eat("[")
            args = [p()]
            while peek() == ",":
                eat(",")
                args.append(p())
            eat("]")
            if name == "list":
                t = TList(args[0])
            elif name == "set":
                t = TSet(args[0])
            elif name == "dict":
                t = TDict(args[0], args[1])
            elif name == "defaultdict":
                t = TDict(args[0], args[1], default=args[1].cls if isinstance(args[1], TRef) else "list")
            else:
                t = TTuple(args)
        elif name == "int":
            t = TInt()
        elif name == "bool":
            t = TBool()
        elif name == "str":
            t = TStr()
        elif name == "bytes":
            t = TBytes()
        elif name == "None":
            t = TNone()
        elif name == "class":
            t = TClass()
        elif name in OPAQUES or name.startswith("opaque:"):
            t = TOpaque(name.split(":")[-1])
        else:
            t = TRef(name)
        if peek() == "?":
            eat("?")
            if isinstance(t, TRef):
                t = TRef(t.cls, True)
            else:
                t = TOpt(t)
        return t

    t = p()
    if pos[0] != len(toks):
        raise ValueError(f"type syntax: trailing tokens in {s!r}")
    return t


def elem_sort(t):
    """SMT sort of a value stored inside a Seq / Array (single sort only)."""
    if isinstance(t, (TInt, TRef, TClass, TOpaque)):
        return z3.IntSort()
    if isinstance(t, TBool):
        return z3.BoolSort()
    if isinstance(t, (TStr, TBytes)):
        return z3.StringSort()
    if isinstance(t, TList):
        return z3.SeqSort(elem_sort(t.elem))
    raise Unsupported(f"type {tystr(t)} cannot be stored inside a container in this encoding")


class Unsupported(Exception):
    """the function uses something outside the modelled subset: the obligation is *undecided*, never a violation"""


# ---------------------------------------------------------------- values
class V:
    ty = None


class VInt(V):
    ty = TInt()

    def __init__(self, e):
        self.e = e if z3.is_expr(e) else z3.IntVal(e)


class VBool(V):
    ty = TBool()

    def __init__(self, e):
        self.e = e if z3.is_expr(e) else z3.BoolVal(e)


class VStr(V):
    ty = TStr()

    def __init__(self, e):
        self.e = e if z3.is_expr(e) else z3.StringVal(e)


class VBytes(V):
    ty = TBytes()

    def __init__(self, e):
        if isinstance(e, (bytes, bytearray)):
            e = z3.StringVal(e.decode("latin-1"))
        self.e = e


class VNone(V):
    ty = TNone()


class VRef(V):
    def __init__(self, cls, e, nullable=False):
        self.cls = cls
        self.e = e if z3.is_expr(e) else z3.IntVal(e)
        self.nullable = nullable
        self.ty = TRef(cls, nullable)


class VOpt(V):
    def __init__(self, inner_ty, isnone, val):
        self.inner_ty = inner_ty
        self.isnone = isnone
        self.val = val  # V of inner_ty
        self.ty = TOpt(inner_ty)


class VList(V):
    def __init__(self, elem_ty, e):
        self.elem_ty = elem_ty
        self.e = e
        self.ty = TList(elem_ty)


class VDict(V):
    def __init__(self, kty, vty, keys, m, default=None):
        self.kty = kty
        self.vty = vty
        self.keys = keys
        self.m = m
        self.default = default
        self.ty = TDict(kty, vty, default)


class VSet(V):
    def __init__(self, ety, m):
        self.ety = ety
        self.m = m
        self.ty = TSet(ety)


class VTuple(V):
    def __init__(self, items):
        self.items = list(items)
        self.ty = TTuple([i.ty for i in self.items])


class VClass(V):
    """class object; `e` is an Int code.  `name` is set when statically known."""

    ty = TClass()

    def __init__(self, e=None, name=None):
        self.name = name
        self.e = e if e is not None else z3.IntVal(class_code(name))


class VOpaque(V):
    def __init__(self, name, e):
        self.name = name
        self.e = e
        self.ty = TOpaque(name)


class VFunc(V):
    """a callable known statically: repo function, bound method, nested closure, library stub"""

    ty = None

    def __init__(self, kind, target, self_val=None, closure=None):
        self.kind = kind  # 'repo' | 'lib' | 'closure' | 'ctor' | 'spec'
        self.target = target
        self.self_val = self_val
        self.closure = closure


class VModule(V):
    def __init__(self, name, repo_module=False):
        self.name = name
        self.repo_module = repo_module


_class_codes = {}


def class_code(name):
    if name not in _class_codes:
        _class_codes[name] = 1000 + len(_class_codes)
    return _class_codes[name]


# ---------------------------------------------------------------- constructors / helpers
def fresh(ty, base="v"):
    n = fresh_name(base)
    return from_consts(ty, n)


def from_consts(ty, n):
    if isinstance(ty, TInt):
        return VInt(z3.Int(n))
    if isinstance(ty, TBool):
        return VBool(z3.Bool(n))
    if isinstance(ty, TStr):
        return VStr(z3.String(n))
    if isinstance(ty, TBytes):
        return VBytes(z3.String(n))
    if isinstance(ty, TNone):
        return VNone()
    if isinstance(ty, TRef):
        return VRef(ty.cls, z3.Int(n), ty.nullable)
    if isinstance(ty, TOpt):
        return VOpt(ty.inner, z3.Bool(n + "?none"), from_consts(ty.inner, n + "?val"))
    if isinstance(ty, TList):
        if isinstance(ty.elem, TTuple):
            # struct of sequences: one sequence per tuple component, all of the same length
            return VList(ty.elem, [z3.Const(f"{n}#c{i}", z3.SeqSort(srt)) for i, srt in enumerate(flat_sorts(ty.elem))])
        return VList(ty.elem, z3.Const(n, z3.SeqSort(elem_sort(ty.elem))))
    if isinstance(ty, TDict):
        if isinstance(ty.val, TTuple):
            # struct of arrays: one map per component of the tuple value
            ms = [z3.Const(f"{n}#map{i}", z3.ArraySort(elem_sort(ty.key), srt)) for i, srt in enumerate(flat_sorts(ty.val))]
            return VDict(ty.key, ty.val, z3.Const(n + "#keys", z3.SeqSort(elem_sort(ty.key))), ms, ty.default)
        return VDict(
            ty.key,
            ty.val,
            z3.Const(n + "#keys", z3.SeqSort(elem_sort(ty.key))),
            z3.Const(n + "#map", z3.ArraySort(elem_sort(ty.key), elem_sort(ty.val))),
            ty.default,
        )
    if isinstance(ty, TSet):
        return VSet(ty.elem, z3.Const(n, z3.ArraySort(elem_sort(ty.elem), z3.BoolSort())))
    if isinstance(ty, TTuple):
        return VTuple([from_consts(t, f"{n}.{i}") for i, t in enumerate(ty.items)])
    if isinstance(ty, TClass):
        return VClass(z3.Int(n))
    if isinstance(ty, TOpaque):
        return VOpaque(ty.name, z3.Int(n))
    raise Unsupported(f"fresh value of type {ty}")


def flat(v):
    """list of z3 terms that make up the value (used for heap storage, equality, ite)."""
    if isinstance(v, VList) and isinstance(v.e, list):
        return list(v.e)
    if isinstance(v, (VInt, VBool, VStr, VBytes, VRef, VList, VClass, VOpaque)):
        return [v.e]
    if isinstance(v, VNone):
        return []
    if isinstance(v, VOpt):
        return [v.isnone] + flat(v.val)
    if isinstance(v, VDict):
        return [v.keys] + (list(v.m) if isinstance(v.m, list) else [v.m])
    if isinstance(v, VSet):
        return [v.m]
    if isinstance(v, VTuple):
        return [x for i in v.items for x in flat(i)]
    raise Unsupported(f"flat({type(v).__name__})")


def flat_sorts(ty):
    return [e.sort() for e in flat(from_consts(ty, "sort_probe"))]


def unflat(ty, es):
    es = list(es)

    def go(t):
        if isinstance(t, TInt):
            return VInt(es.pop(0))
        if isinstance(t, TBool):
            return VBool(es.pop(0))
        if isinstance(t, TStr):
            return VStr(es.pop(0))
        if isinstance(t, TBytes):
            return VBytes(es.pop(0))
        if isinstance(t, TNone):
            return VNone()
        if isinstance(t, TRef):
            return VRef(t.cls, es.pop(0), t.nullable)
        if isinstance(t, TOpt):
            n = es.pop(0)
            return VOpt(t.inner, n, go(t.inner))
        if isinstance(t, TList):
            if isinstance(t.elem, TTuple):
                return VList(t.elem, [es.pop(0) for _ in flat_sorts(t.elem)])
            return VList(t.elem, es.pop(0))
        if isinstance(t, TDict):
            k = es.pop(0)
            if isinstance(t.val, TTuple):
                m = [es.pop(0) for _ in flat_sorts(t.val)]
            else:
                m = es.pop(0)
            return VDict(t.key, t.val, k, m, t.default)
        if isinstance(t, TSet):
            return VSet(t.elem, es.pop(0))
        if isinstance(t, TTuple):
            return VTuple([go(x) for x in t.items])
        if isinstance(t, TClass):
            return VClass(es.pop(0))
        if isinstance(t, TOpaque):
            return VOpaque(t.name, es.pop(0))
        raise Unsupported(f"unflat {t}")

    return go(ty)


def elem_value(ty, e):
    """wrap a term taken out of a Seq/Array as a value of element type ty"""
    if isinstance(ty, TRef):
        return VRef(ty.cls, e, ty.nullable)
    return unflat(ty, [e])


def coerce(v, ty, what="value"):
    """adapt value v to declared type ty (Optional wrapping, nullable refs, None)."""
    if ty is None:
        return v
    if isinstance(ty, TOpt):
        if isinstance(v, VOpt):
            if v.inner_ty != ty.inner:
                raise Unsupported(f"{what}: Optional of {v.inner_ty} where {ty} expected")
            return v
        if isinstance(v, VNone):
            return VOpt(ty.inner, z3.BoolVal(True), default_value(ty.inner))
        return VOpt(ty.inner, z3.BoolVal(False), coerce(v, ty.inner, what))
    if isinstance(ty, TRef):
        if isinstance(v, VNone):
            if not ty.nullable:
                raise Unsupported(f"{what}: None where non-null {ty} expected")
            return VRef(ty.cls, z3.IntVal(0), True)
        if isinstance(v, VRef):
            return VRef(ty.cls if v.cls is None else v.cls, v.e, v.nullable)
        raise Unsupported(f"{what}: {v.ty} where {ty} expected")
    if isinstance(ty, TBool) and isinstance(v, VBool):
        return v
    if isinstance(ty, TInt) and isinstance(v, VBool):
        return VInt(z3.If(v.e, 1, 0))
    if isinstance(v, VOpt) and v.inner_ty == ty:
        # caller must have emitted the not-None obligation
        return v.val
    if isinstance(ty, TList) and isinstance(v, VList):
        if v.e is None:
            return default_value(ty)
        if isinstance(ty.elem, TRef) and isinstance(v.elem_ty, TRef):
            return VList(ty.elem, v.e)
        if v.elem_ty == ty.elem:
            return v
    if isinstance(ty, TDict) and isinstance(v, VDict):
        if v.keys is None:
            return empty_dict(ty)
        return VDict(ty.key, ty.val, v.keys, v.m, ty.default or v.default)
    if isinstance(ty, TTuple) and isinstance(v, VTuple) and len(ty.items) == len(v.items):
        return VTuple([coerce(x, t, what) for x, t in zip(v.items, ty.items)])
    if isinstance(ty, TStr) and isinstance(v, VBytes) or isinstance(ty, TBytes) and isinstance(v, VStr):
        raise Unsupported(f"{what}: str/bytes confusion")
    if v.ty == ty:
        return v
    raise Unsupported(f"{what}: cannot use {v.ty} as {ty}")


def dict_select(d, ke):
    if isinstance(d.m, list):
        return unflat(d.vty, [z3.Select(a, ke) for a in d.m])
    return elem_value(d.vty, z3.Select(d.m, ke))


def dict_store(d, ke, v):
    if isinstance(d.m, list):
        return [z3.Store(a, ke, x) for a, x in zip(d.m, flat(coerce(v, d.vty, "dict value")))]
    fl = flat(coerce(v, d.vty, "dict value"))
    return z3.Store(d.m, ke, fl[0])


def empty_dict(ty):
    ks = elem_sort(ty.key)
    if isinstance(ty.val, TTuple):
        return VDict(ty.key, ty.val, z3.Empty(z3.SeqSort(ks)), [z3.K(ks, x) for x in flat(default_value(ty.val))], ty.default)
    return VDict(ty.key, ty.val, z3.Empty(z3.SeqSort(ks)), z3.K(ks, flat(default_value(ty.val))[0]), ty.default)


def default_value(ty):
    if isinstance(ty, TInt):
        return VInt(0)
    if isinstance(ty, TBool):
        return VBool(False)
    if isinstance(ty, TStr):
        return VStr("")
    if isinstance(ty, TBytes):
        return VBytes(z3.StringVal(""))
    if isinstance(ty, TRef):
        return VRef(ty.cls, 0, True)
    if isinstance(ty, TOpaque):
        return VOpaque(ty.name, z3.IntVal(0))
    if isinstance(ty, TClass):
        return VClass(z3.IntVal(0))
    if isinstance(ty, TList):
        if isinstance(ty.elem, TTuple):
            return VList(ty.elem, [z3.Empty(z3.SeqSort(srt)) for srt in flat_sorts(ty.elem)])
        return VList(ty.elem, z3.Empty(z3.SeqSort(elem_sort(ty.elem))))
    if isinstance(ty, TDict):
        return empty_dict(ty)
    if isinstance(ty, TSet):
        return VSet(ty.elem, z3.K(elem_sort(ty.elem), z3.BoolVal(False)))
    if isinstance(ty, TOpt):
        return VOpt(ty.inner, z3.BoolVal(True), default_value(ty.inner))
    if isinstance(ty, TTuple):
        return VTuple([default_value(t) for t in ty.items])
    raise Unsupported(f"default value of {ty}")


def v_eq(a, b):
    """Python == on modelled values (structural on scalars / sequences, identity on references)."""
    if isinstance(a, VNone) and isinstance(b, VNone):
        return z3.BoolVal(True)
    if isinstance(a, VNone):
        a, b = b, a
    if isinstance(b, VNone):
        if isinstance(a, VOpt):
            return a.isnone
        if isinstance(a, VRef):
            return a.e == 0
        return z3.BoolVal(False)
    if isinstance(a, VOpt) and z3.is_false(a.isnone):
        return v_eq(a.val, b)
    if isinstance(b, VOpt) and z3.is_false(b.isnone):
        return v_eq(a, b.val)
    if isinstance(a, VOpt) and z3.is_true(a.isnone):
        return v_eq(VNone(), b)
    if isinstance(b, VOpt) and z3.is_true(b.isnone):
        return v_eq(a, VNone())
    if isinstance(a, VOpt) and isinstance(b, VOpt):
        return z3.Or(z3.And(a.isnone, b.isnone), z3.And(z3.Not(a.isnone), z3.Not(b.isnone), v_eq(a.val, b.val)))
    if isinstance(a, VOpt):
        return z3.And(z3.Not(a.isnone), v_eq(a.val, b))
    if isinstance(b, VOpt):
        return z3.And(z3.Not(b.isnone), v_eq(a, b.val))
    if isinstance(a, VTuple) and isinstance(b, VTuple):
        if len(a.items) != len(b.items):
            return z3.BoolVal(False)
        return z3.And([v_eq(x, y) for x, y in zip(a.items, b.items)] or [z3.BoolVal(True)])
    if isinstance(a, VBool) and isinstance(b, VInt):
        return z3.If(a.e, 1, 0) == b.e
    if isinstance(a, VInt) and isinstance(b, VBool):
        return a.e == z3.If(b.e, 1, 0)
    if isinstance(a, VDict) and isinstance(b, VDict):
        raise Unsupported("dict == dict")
    fa, fb = flat(a), flat(b)
    if len(fa) != len(fb) or any(x.sort() != y.sort() for x, y in zip(fa, fb)):
        # different python types compare unequal
        return z3.BoolVal(False)
    return z3.And([x == y for x, y in zip(fa, fb)])


def v_ite(c, a, b):
    if isinstance(a, VNone) and isinstance(b, VNone):
        return a
    if a.ty != b.ty:
        # try Optional unification
        if isinstance(a, VNone) or isinstance(b, VNone) or isinstance(a, VOpt) or isinstance(b, VOpt):
            inner = None
            for x in (a, b):
                if isinstance(x, VOpt):
                    inner = x.inner_ty
                elif not isinstance(x, VNone):
                    inner = x.ty
            if isinstance(inner, TRef):
                t = TRef(inner.cls, True)
            else:
                t = TOpt(inner)
            a, b = coerce(a, t), coerce(b, t)
        elif isinstance(a, VRef) and isinstance(b, VRef):
            pass
        else:
            raise Unsupported(f"conditional value of two types {a.ty} / {b.ty}")
    fa, fb = flat(a), flat(b)
    ty = a.ty
    if isinstance(a, VRef) and isinstance(b, VRef):
        ty = TRef(a.cls, a.nullable or b.nullable)
    return unflat(ty, [z3.If(c, x, y) for x, y in zip(fa, fb)])


def truthy(v):
    if isinstance(v, VBool):
        return v.e
    if isinstance(v, VInt):
        return v.e != 0
    if isinstance(v, VList) and v.e is None:
        return z3.BoolVal(False)
    if isinstance(v, VDict) and v.keys is None:
        return z3.BoolVal(False)
    if isinstance(v, VList) and isinstance(v.e, list):
        return z3.Length(v.e[0]) > 0
    if isinstance(v, (VStr, VBytes, VList)):
        return z3.Length(v.e) > 0
    if isinstance(v, VNone):
        return z3.BoolVal(False)
    if isinstance(v, VRef):
        return v.e != 0 if v.nullable else z3.BoolVal(True)
    if isinstance(v, VOpt):
        return z3.And(z3.Not(v.isnone), truthy(v.val))
    if isinstance(v, VDict):
        return z3.Length(v.keys) > 0
    if isinstance(v, VTuple):
        return z3.BoolVal(len(v.items) > 0)
    if isinstance(v, (VClass, VFunc, VOpaque)):
        return z3.BoolVal(True)
    raise Unsupported(f"truth value of {type(v).__name__}")


def seq_len(v):
    return z3.Length(v.e[0] if isinstance(v.e, list) else v.e)


def seq_get(v, i):
    if isinstance(v.e, list):
        return unflat(v.elem_ty, [x[i] for x in v.e])
    return elem_value(v.elem_ty, v.e[i])
