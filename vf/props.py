"""Per-property configuration of the checks (which engines decide it, level, explanation, trusted base)."""
import json
import os

from . import VERIF
from .pyvc import DROPPED, PY_SEMANTICS  # noqa

PROPS = {}


def prop(pid, **kw):
    PROPS[pid] = kw


def baseline_count(pid):
    p = os.path.join(VERIF, "baseline", "obligations.json")
    if not os.path.exists(p):
        return 0
    return json.load(open(p)).get(pid, {}).get("obligations", 0)


def bounded_functions(pid):
    """contracts kept for the run-time monitors only (never counted as proved)"""
    try:
        from .prove import load_contracts

        reg = load_contracts()
    except Exception:
        return []
    out = []
    for q, c in reg.contracts.items():
        tags = set(c.props)
        if c.bounded and pid in tags:
            out.append({"function": q, "why_not_proved": c.bounded})
    return out


prop(
    "C01",
    level="proof",
    prover=True,
    lemmas=True,
    bounded="c01",
    explanation=(
        "Contracts on every digest function of ascmhl/hasher.py (read loops, per-class constructors and format table, hex and "
        "C4 text codecs with loop invariants over spec functions val58/pow58, directory-hash helpers, module wrappers) are "
        "turned into verification conditions from the current source by vf/pyvc.py and discharged by z3 / cvc5; induction "
        "lemmas have their own obligations (vf/lemmas.py). AggregateHasher.hash_file (read-once multi-format loop) is "
        "bounded: its contract is used by callers as an assumption and checked at run time on boundary inputs. The bounded "
        "part also samples the assumed library contracts against hashlib/xxhash test vectors."
    ),
    assumptions=[
        "hashlib.md5/sha1/sha512 and xxhash.xxh32/xxh64/xxh3_64/xxh3_128 implement the standard algorithms (sampled against published vectors)",
        "ALG is a function of (algorithm, bytes): update() appends, hexdigest() renders lower-case hex of fixed width",
        "Python int is unbounded (SMT Int is exact); str.rjust, str.index, int(s,16), int.to_bytes, binascii.unhexlify have their documented meaning",
        "click passes the -h choices unchanged to the Python parameters",
    ],
)

NOT_APPLICABLE = {}
