"""Per-property configuration of the checks (which engines decide it, level, explanation, trusted base)."""
import json
import os

from . import VERIF
from .pyvc import DROPPED, PY_SEMANTICS  # noqa

PROPS = {}


def prop(pid, **kw):
    PROPS[pid] = kw


def baseline_count(pid):
    p = os.path.join(VERIF, "baseline", "obligations.json")
    if not os.path.exists(p):
        return 0
    return json.load(open(p)).get(pid, {}).get("obligations", 0)


def bounded_functions(pid):
    """contracts kept for the run-time monitors only (never counted as proved)"""
    try:
        from .prove import load_contracts

        reg = load_contracts()
    except Exception:
        return []
    out = []
    for q, c in reg.contracts.items():
        tags = set(c.props)
        if c.bounded and pid in tags:
            out.append({"function": q, "why_not_proved": c.bounded})
    return out


prop(
    "C01",
    level="proof",
    prover=True,
    lemmas=True,
    bounded="c01",
    explanation=(
        "Contracts on every digest function of ascmhl/hasher.py (read loops, per-class constructors and format table, hex and "
        "C4 text codecs with loop invariants over spec functions val58/pow58, directory-hash helpers, module wrappers) are "
        "turned into verification conditions from the current source by vf/pyvc.py and discharged by z3 / cvc5; induction "
        "lemmas have their own obligations (vf/lemmas.py). AggregateHasher.hash_file (read-once multi-format loop) is "
        "bounded: its contract is used by callers as an assumption and checked at run time on boundary inputs. The bounded "
        "part also samples the assumed library contracts against hashlib/xxhash test vectors."
    ),
    assumptions=[
        "hashlib.md5/sha1/sha512 and xxhash.xxh32/xxh64/xxh3_64/xxh3_128 implement the standard algorithms (sampled against published vectors)",
        "ALG is a function of (algorithm, bytes): update() appends, hexdigest() renders lower-case hex of fixed width",
        "Python int is unbounded (SMT Int is exact); str.rjust, str.index, int(s,16), int.to_bytes, binascii.unhexlify have their documented meaning",
        "click passes the -h choices unchanged to the Python parameters",
    ],
)

NOT_APPLICABLE = {}

STATIC_TECH = "contract-based frame / dominance / crash-condition obligations generated from the AST of the current source (vf/statics.py), z3 for the path-string facts"

prop(
    "C14",
    level="proof",
    static=True,
    bounded="c14",
    technique=STATIC_TECH + "; bounded: audit-hook + snapshot runs of every command",
    explanation=(
        "Every function of the package has a file-system frame (fs_modifies, default: nothing). Obligations, regenerated from the "
        "source on every run: each write primitive (open with a write mode, os.mkdir/replace/..., shutil, tempfile, subprocess, "
        "pathlib writers, dynamic code) occurring anywhere in ascmhl/ is one the owning function's frame declares, with the path "
        "argument defined inside the frame (ascmhl folder of the history / below the flatten destination); per command, the set of "
        "writer functions reachable in the call graph (over-approximated by method name) is within the command's documented frame "
        "(verify*, diff, info*, hash, xsd-schema-check: none); read-only commands cannot reach commit; root/destination parameters "
        "are not redirected. The bounded part runs every command on small worlds under an audit hook and a before/after snapshot."
    ),
    assumptions=[
        "writes made by C extensions or through objects obtained dynamically are invisible to the AST walk (dynamic code / subprocess use is itself flagged)",
        "method calls are resolved by name over all classes of the package (over-approximation)",
        "creating the ascmhl folder updates the parent directory's mtime: that is the documented effect",
    ],
)
prop(
    "C05",
    level="proof",
    static=True,
    prover=True,
    bounded="c05",
    technique="contracts on the chain-check region of MHLHistory.load_from_path (pyvc VCs, z3) + dominance/frame obligations on every command body (vf/statics.py); bounded: tamper runs",
    explanation=(
        "load_from_path's chain-check region is under contract (returns normally only if every chained manifest exists and its "
        "digest equals the recorded one; the three refusals carry exit codes 31/32/33 - ground obligations on errors.py); every "
        "history-reading command body loads the history unconditionally, outside any try, before the first call that can reach a "
        "write primitive (dominance obligations over the call graph); child histories are loaded through the same function; the "
        "chain writer copies recorded digests of old generations and never recomputes them from disk. 'Bytes differ => digest "
        "differs' is relative to collision resistance of C4/SHA-512 (assumed)."
    ),
    assumptions=["collision resistance of SHA-512 (CR)", "click turns a ClickException into the process exit code", "lxml parses the chain file the writer wrote (C10)"],
)
prop(
    "C15",
    level="proof",
    static=True,
    bounded="c15",
    technique=STATIC_TECH + "; bounded: kill -9 at every file-system event of create in a subprocess, then info/verify/create",
    explanation=(
        "Crash conditions of write_hash_list and write_chain as obligations over their effect trace (extracted from the AST): the "
        "only file opened for writing is the temporary name, opened truncating; the temporary name is invisible to the loader for "
        "every path (z3 over strings: no p with (p+'.tmp') ending in .mhl / the chain or collection file name); the single "
        "os.replace onto the final name comes after close, is the last effect and is not in a finally block; commit writes each "
        "history's manifest before its chain entry and children before parents. Hence after any prefix of the trace every file the "
        "loader opens is a complete old or complete new document."
    ),
    assumptions=["os.replace is atomic on POSIX; a killed process loses only its unflushed user-space buffers", "power loss without fsync is outside the statement"],
)
