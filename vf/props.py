"""Per-property configuration of the checks (which engines decide it, level, explanation, trusted base)."""
import json
import os

from . import VERIF
from .pyvc import DROPPED, PY_SEMANTICS  # noqa

PROPS = {}


def prop(pid, **kw):
    PROPS[pid] = kw


def baseline_count(pid):
    p = os.path.join(VERIF, "baseline", "obligations.json")
    if not os.path.exists(p):
        return 0
    return json.load(open(p)).get(pid, {}).get("obligations", 0)


def bounded_functions(pid):
    """contracts kept for the run-time monitors only (never counted as proved)"""
    try:
        from .prove import load_contracts

        reg = load_contracts()
    except Exception:
        return []
    out = []
    for q, c in reg.contracts.items():
        tags = set(c.props)
        if c.bounded and pid in tags:
            out.append({"function": q, "why_not_proved": c.bounded})
    return out


prop(
    "C01",
    level="proof",
    prover=True,
    lemmas=True,
    bounded="c01",
    explanation=(
        "Contracts on every digest function of ascmhl/hasher.py (read loops, per-class constructors and format table, hex and "
        "C4 text codecs with loop invariants over spec functions val58/pow58, directory-hash helpers, module wrappers) are "
        "turned into verification conditions from the current source by vf/pyvc.py and discharged by z3 / cvc5; induction "
        "lemmas have their own obligations (vf/lemmas.py). AggregateHasher.hash_file (read-once multi-format loop over a dict "
        "of hashers) is proved as well (per-key invariants, separation of the hasher objects). Only the judging half of seal_file_path (region contract `judge`, 307-308 of 308 "
        "obligations from run to run) stays bounded. The bounded part also samples the assumed library contracts against hashlib/xxhash test vectors."
    ),
    assumptions=[
        "hashlib.md5/sha1/sha512 and xxhash.xxh32/xxh64/xxh3_64/xxh3_128 implement the standard algorithms (sampled against published vectors)",
        "ALG is a function of (algorithm, bytes): update() appends, hexdigest() renders lower-case hex of fixed width",
        "Python int is unbounded (SMT Int is exact); str.rjust, str.index, int(s,16), int.to_bytes, binascii.unhexlify have their documented meaning",
        "click passes the -h choices unchanged to the Python parameters",
    ],
)

NOT_APPLICABLE = {}

STATIC_TECH = "contract-based frame / dominance / crash-condition obligations generated from the AST of the current source (vf/statics.py), z3 for the path-string facts"

prop(
    "C14",
    level="proof",
    static=True,
    bounded="c14",
    technique=STATIC_TECH + "; bounded: audit-hook + snapshot runs of every command",
    explanation=(
        "Every function of the package has a file-system frame (fs_modifies, default: nothing). Obligations, regenerated from the "
        "source on every run: each write primitive (open with a write mode, os.mkdir/replace/..., shutil, tempfile, subprocess, "
        "pathlib writers, dynamic code) occurring anywhere in ascmhl/ is one the owning function's frame declares, with the path "
        "argument defined inside the frame (ascmhl folder of the history / below the flatten destination); per command, the set of "
        "writer functions reachable in the call graph (over-approximated by method name) is within the command's documented frame "
        "(verify*, diff, info*, hash, xsd-schema-check: none); read-only commands cannot reach commit; root/destination parameters "
        "are not redirected. The bounded part runs every command on small worlds under an audit hook and a before/after snapshot."
    ),
    assumptions=[
        "writes made by C extensions or through objects obtained dynamically are invisible to the AST walk (dynamic code / subprocess use is itself flagged)",
        "method calls are resolved by name over all classes of the package (over-approximation)",
        "creating the ascmhl folder updates the parent directory's mtime: that is the documented effect",
    ],
)
prop(
    "C05",
    level="proof",
    static=True,
    prover=True,
    bounded="c05",
    technique="contracts on the chain-check region of MHLHistory.load_from_path (pyvc VCs, z3) + dominance/frame obligations on every command body (vf/statics.py); bounded: tamper runs",
    explanation=(
        "load_from_path's chain-check region is under contract (returns normally only if every chained manifest exists and its "
        "digest equals the recorded one; the three refusals carry exit codes 31/32/33 - ground obligations on errors.py); every "
        "history-reading command body loads the history unconditionally, outside any try, before the first call that can reach a "
        "write primitive (dominance obligations over the call graph); child histories are loaded through the same function; the "
        "chain writer copies recorded digests of old generations and never recomputes them from disk. 'Bytes differ => digest "
        "differs' is relative to collision resistance of C4/SHA-512 (assumed)."
    ),
    assumptions=["collision resistance of SHA-512 (CR)", "click turns a ClickException into the process exit code", "lxml parses the chain file the writer wrote (C10)"],
)
prop(
    "C15",
    # not "proof": one of the crash obligations is refuted on the pinned tree (recorded finding), so the property is decided
    # as "holds for histories with >= 1 committed generation, fails for the first generation"
    level="other",
    static=True,
    bounded="c15",
    technique=STATIC_TECH + "; bounded: kill -9 at every file-system event of create in a subprocess, then info/verify/create",
    explanation=(
        "Crash conditions of write_hash_list and write_chain as obligations over their effect trace (extracted from the AST): the "
        "only file opened for writing is the temporary name, opened truncating; the temporary name is invisible to the loader for "
        "every path (z3 over strings: no p with (p+'.tmp') ending in .mhl / the chain or collection file name); the single "
        "os.replace onto the final name comes after close, is the last effect and is not in a finally block; commit writes each "
        "history's manifest before its chain entry and children before parents. Hence after any prefix of the trace every file the "
        "loader opens is a complete old or complete new document. One obligation is REFUTED on the pinned tree and recorded as a "
        "finding (known_findings.json, C15-first-generation-interrupted): the ascmhl folder of a NEW history becomes visible before "
        "its chain file, and the loader refuses such a folder - the property holds for histories with >= 1 committed generation only."
    ),
    assumptions=["os.replace is atomic on POSIX; a killed process loses only its unflushed user-space buffers", "power loss without fsync is outside the statement"],
)

PYVC = "contract-based deductive verification: sidecar contracts on the real functions, VCs generated from the AST (vf/pyvc.py), discharged by z3/cvc5"
BOUNDED_NOTE = " Functions outside the prover's reach are covered by the bounded stand-in: the real commands run on enumerated small worlds against an independent oracle derived from the statement (labelled bounded, never counted as proved)."


def other(pid, text, prover=True, static=False, lemmas=False, assumptions=(), technique=None):
    prop(
        pid,
        level="other",
        prover=prover,
        static=static,
        lemmas=lemmas,
        bounded=pid.lower(),
        technique=technique or (PYVC + " for the kernel functions" + ("; heap-frame / call-site / order obligations over the whole package decided on the AST (vf/statics.py)" if static else "") + "; bounded small-world runs of the command loops"),
        explanation=text + BOUNDED_NOTE,
        assumptions=list(assumptions),
    )


other(
    "C02",
    "Proved: routing of a path to its history (find_history_for_path: the registered history of the NEAREST registered ancestor path, else "
    "the history itself; _update_child_history_mapping registers every child and every entry of the children's transitive mappings), record creation "
    "(find_or_create_media_hash_for_path: exactly one record per path, indexed, fresh when new), entry append, digest functions (C01). "
    "post_order_lexicographic's per-directory kernel (children = the listed, non-excluded entries, sorted; region contract). "
    "Bounded: the recursion of the traversal generator and the children loop of create_for_folder_subcommand / create_for_single_files_subcommand.",
    static=True,
    assumptions=["pathspec.match_file is a function of (patterns, relative path)", "POSIX paths, no symlinked directories inside the tree"],
)
other(
    "C03",
    "Proved: exit-code constants (ground obligations on errors.py), find_original_hash_entry_for_path (the reference is the first "
    "'original' entry in generation order), history-load dominance, the exit-decision tails of verify / diff / create (region contracts), "
    "the reporting half of test_for_missing_files (region `report`: None iff no unignored path is left, otherwise the completeness failure and one "
    "output line per missing path). Bounded: the three traversal loops and exit-decision tails of "
    "verify / diff / create on every single and pairwise mutation of small sealed worlds.",
    static=True,
    assumptions=["collision resistance (CR) for 'detects every change'", "click maps ClickException.exit_code to the process exit code"],
)
other(
    "C04",
    "Proved: find_original / find_first / find_existing_hash_formats (loop invariants over generations and entries, ghost witness "
    "lists), append_file_hash's judgement (original iff never recorded as original, else new / verified / failed against the FIRST "
    "entry of the format in the pre-state history; result == not failed), _validate_new_hash_list, the child-history mapping and "
    "nearest-ancestor routing, lemmas L_first_excl / L_orig_excl. Bounded: the planning half of seal_file_path is proved (region `plan`), its judging half is bounded (region `judge`: 307-308 of 308 obligations "
    "discharge: not counted) and the command loops, on all format-subset "
    "sequences of length 3 with content kept / altered / restored, and rename-then-create sequences with -dr."
    " Heap frames (vf/statics.py): every store to the action / hash_string / hash_format / hash_entries fields anywhere in the package sits in a function whose declared frame contains the field, so what the contracts establish is not rewritten behind their back.",
    static=True,
    assumptions=["the session's new hash lists are disjoint from the loaded history's lists (ownership, structural)"],
)
other(
    "C06",
    "Proved: latest_generation_number == n under the representation invariant (numbers 1..n ascending), manifest-before-chain and "
    "children-before-parents order in commit, old chain entries are rendered from the loaded chain only (read frame), write frames "
    "of the writers (C14) so existing manifests are outside every frame. Bounded: numbering, names, chain contents over long "
    "sequences of runs (>= 11 generations, failing runs, nested histories, several runs per second).",
    static=True,
)
other(
    "C07",
    "Proved: hash_of_hash_list (digest of the concatenated decoded digests of the SORTED list, empty list = empty input, for all "
    "seven classes), DirectoryHashContext.append_file_hash / append_directory_hashes (structure entry = digest(utf8(name) + "
    "decode(child STRUCTURE hash))), final_content/structure_hash_str, the C4 and hex codecs (C01) incl. induction lemmas. "
    "Bounded: the command loops feeding the contexts (create, verify -dh) against an independent implementation of the definition."
    " Heap frames (vf/statics.py): every store to hash_string / structure_hash_string / hash_format / hash_entries anywhere in the package sits in a function whose declared frame contains the field, so what the contracts establish is not rewritten behind their back.",
    lemmas=True,
    static=True,
    assumptions=["collision resistance (CR) for the 'changes whenever' clauses", "os.path.basename/normpath of a path give its last component"],
)
other(
    "C08",
    "Proved: _update_child_history_mapping (every child under its relative path, every entry of a child's mapping under the joined path: "
    "the mapping reaches descendants at any depth), find_history_for_path (routing to the nearest registered ancestor), one iteration of the "
    "commit loop (children first, references = the child generations written in this run), commit order obligations. Bounded: discovery (_find_and_load_child_histories), references and copied root hashes on all "
    "placements of nested histories incl. prefix-named siblings and depth-4 chains.",
    static=True,
)
other(
    "C09",
    "Proved: _compare_and_log_directory_hashes (result 2 iff content AND structure hash both equal the recorded ones, else 1 and the "
    "mismatch is logged) and the exit decision of verify_directory_hash_subcommand as a region contract (exit 12 iff every calculated "
    "format has a recorded failure), for all values of the failure bookkeeping; find_directory_hash_entries_for_path (the recorded entries "
    "the comparison runs over: every hash entry of every directory record of the path in EVERY generation, for '.' also every root hash "
    "entry of every generation - nothing of a later or earlier generation is dropped - and nothing else; four loop invariants); the list of calculated formats (region `formats`: duplicate-free, non-empty, the -h format alone when given, else complete over the root history's root hashes); the directory-hash kernel it calls is proved under "
    "C07. Bounded: the traversal / comparison loops of the 200-line body (nested closure, nonlocal) on every single mutation at every "
    "depth incl. the root, histories with -n / -sf generations and nested histories with differing formats.",
)
other(
    "C10",
    "Proved (writer side, over an infoset model of lxml elements: tag, text, attrib, children): _media_hash_xml_element (path text, size "
    "whenever the model has one incl. 0, modification date, one child per entry in format order carrying digest / action / hash date, "
    "previousPath last), the two chain element builders and the whole content of the chain file (_write_chain_to_file: every loaded entry "
    "unchanged and in order, then exactly one new entry with the C4 of the new manifest's bytes), _ignorespec_xml_element, "
    "_ascmhlreference_xml_element, _directory_hash_xml_element / _root_media_hash_xml_element (content and structure containers always "
    "present, one child each per entry), _creator_info_xml_element (fixed head, authors in order with exactly their attributes, location, "
    "comment), _process_info_xml_element, and the manifest body _write_hash_list_to_file (creator info, process info, one element per "
    "record in record order inside <hashes> - never an empty <hashes> -, one reference per referenced generation). Bounded: the "
    "event-driven readers (hashlist_xml_parser.parse, chain_xml_parser.parse) and the lxml serialisation itself - round trip on enumerated model "
    "objects and on every manifest of the small worlds, with an independent ElementTree reader.",
    assumptions=["lxml.builder.E / etree.tostring render the infoset faithfully for text without control characters", "None and '' are identified in creator text fields; author name '-' is the reader's sentinel"],
)
other(
    "C11",
    "Proved: the structural facts the schema needs from _media_hash_xml_element (path first, one element per entry in ascending format "
    "order, previousPath last, no attribute without value), <directoryhash> / <roothash> (content and structure always written, in that "
    "order), <creatorinfo> and <processinfo> child order, <hashes> / <references> only around at least one child, chain entries (path, c4, "
    "sequencenr), <ignore> children. Bounded: lxml "
    "XMLSchema validation (the XSDs of the current tree) of every manifest / chain / collection file written over all option "
    "combinations, failing and aborted runs, reference-only parents, empty folders. The XSD itself is not compiled into a predicate.",
    assumptions=["lxml.etree.XMLSchema is the validator"],
)
other(
    "C12",
    "Proved: MHLIgnoreSpec._append_patterns_list (desugared extend-generator loop: old list is a prefix, nothing lost, nothing "
    "else added, duplicate-free, exact equality for a duplicate-free list appended to the empty list), set_patterns / __init__ "
    "(duplicate-free; recorded list kept as prefix in order; defaults first otherwise; command-line patterns included), "
    "call-site obligations (every command builds latest+CLI+file, traversal and missing-file filter use it, commit gives every "
    "written generation latest(history)+session patterns unconditionally). Bounded: pattern semantics (pathspec) end to end.",
    static=True,
    assumptions=["pathspec gitwildmatch semantics", "_append_patterns_from_file hands the file's lines to _append_patterns_list (file reading not modelled)"],
)
other(
    "C13",
    "Proved: the children of one directory computed by post_order_lexicographic (region contract up to the recursion): with os.listdir "
    "specified as returning the entries in ARBITRARY order, the children are exactly the listed names not matched by the patterns - "
    "matched relative to the ROOT, not to the absolute location - in strictly ascending name order, each with the file system's "
    "directory flag (loop invariant with a ghost index map into the sorted listing); the recursion passes the same patterns and root "
    "(call-site obligation). Bounded: the two-run statement itself - byte comparison of manifests and chains of identical trees sealed at "
    "different root locations / spellings and under permuted enumeration, frozen clock; relocated copies verified.",
    static=True,
    assumptions=["list.sort() yields an ascending permutation", "os.listdir lists each entry once", "pathspec.match_file depends only on (patterns, path string)"],
    technique=PYVC + " for the per-directory kernel of the traversal; bounded relational runs (same tree, different location / enumeration order) with byte comparison",
)
other("C16", "Proved: the manifest name carries strftime(now(timezone.utc)) (ground obligation); _media_hash_xml_element writes size = str(file_size) whenever the model has a size - including 0 - and "
      "lastmodificationdate / hashdate = iso(date) exactly when present. Bounded: datetime_isostring (library glue; assumed contract) and "
      "the capture of size / mtime in the command loops: sizes and ISO-8601 dates of written manifests against the file system under "
      "16-26 TZ settings incl. DST switches in both hemispheres and the repeated hour.",
      static=True,
      assumptions=["datetime / time zone database: naive.astimezone() attaches the offset in force at that local time (fold-aware)"])
other("C17", "Proved: find_hash_entry_for_format, find_first_hash_entry_for_path (used to match renamed files). Bounded: the rename "
      "matching region of create -dr and the follow-up commands on all sets of simultaneous renames / moves, also with runs between the renames and the -dr run. "
      "Guard obligations (vf/statics.py): every store to previous_path in the rename region is under a test equating the recorded digest of the missing path with a digest of the new path."
      " Heap frames (vf/statics.py): every store to previous_path anywhere in the package sits in a function whose declared frame contains the field, so what the contracts establish is not rewritten behind their back.", static=True)
other("C18", "Proved: one iteration of the merge loop of flatten_history as a region contract, for an arbitrary recorded entry and arbitrary "
      "contents of the collection so far - a failed entry is never copied; an entry is copied (format, digest, action unchanged) exactly if "
      "the collection's record for the path has no entry of that format yet, so the earliest entry that did not fail is the one kept and it "
      "is the only one of its format; otherwise the record keeps its entries; append_file_hash with an action override, "
      "find_or_create_media_hash_for_path (one record per path). Bounded: the enclosing loops of flatten_history, the writer's choice of "
      "external manifest, and verify -pl."
      " Heap frames (vf/statics.py): every store to action / hash_string / hash_format / hash_entries anywhere in the package sits in a function whose declared frame contains the field, so what the contracts establish is not rewritten behind their back.", static=True)
other("C19", "Proved: log_child_histories (non-verbose): exactly one line per generation of the history, in list order, carrying its number and "
      "creation date, directly after what was printed before, followed by the sections of the child histories (recursive contract over the "
      "predicate hist_ok); one iteration of the generation loop of info_for_single_file (non-verbose): a generation without a record for the "
      "path prints nothing, otherwise one line per recorded digest in entry order with generation number, creation date, format, digest "
      "and action as recorded. Bounded: the verbose branch, the upward search of info and click's output plumbing - info / info -sf output "
      "against the manifests read independently; no-history exit code. Heap frame (vf/statics.py): the creation date a generation is listed with is "
      "stored only by the constructor, the reader and the two commit functions.", static=True)
other("C20", "Proved (main-thread side, under the rely condition that the checker thread writes latest_version once, None -> Version): "
      "Updater.needs_update raises nothing and returns a bool for every interleaving of that write with its four reads (volatile-field "
      "havoc); thread obligations on the AST: daemon flag set before start, the thread's frame is {latest_version, finished} and it prints "
      "nothing, requests calls sit inside its try, each CLI has exactly one result callback which joins with a literal timeout <= 1 s, "
      "prints at most the one notice guarded by needs_update, returns None and never exits. Not decidable by contracts (assumed): what "
      "the network does, real-time bounds of join, exceptions of the thread not reaching the main thread. Bounded: the real entry "
      "points in subprocesses against a scripted local server (168 behaviours).", static=True,
      technique="contracts on the main-thread functions with volatile-field havoc (pyvc) + thread-frame obligations on the AST; bounded subprocess runs against a scripted local update server for schedules and real time")
