"""Entry point of every registered check:  ./check <ID> [--tier quick|thorough] [--replay FILE]

exit 0  property held on everything explored (KNOWN-FINDING lines for findings listed in known_findings.json)
exit 1  VIOLATION property=<id> replay=<path>[ no-failing-input-found]
exit 2  undecided (an obligation is `unknown`, a target function disappeared, the subset is exceeded)
exit 3  checker error (traceback, vacuous proof, obligation count below the committed baseline)
"""
import argparse
import hashlib
import json
import os
import subprocess
import sys
import time
import traceback

from . import REPO, VERIF
from . import props as P

VENV_PY = "/venv/bin/python"


def load_known():
    p = os.path.join(VERIF, "known_findings.json")
    if not os.path.exists(p):
        return {"findings": [], "fixed": []}
    return json.load(open(p))


def run_bounded(pid, tier, seed):
    """bounded stand-in / replay harness: runs under the repository's interpreter against the real code"""
    mod = P.PROPS[pid].get("bounded")
    if not mod or not os.path.exists(os.path.join(VERIF, "bounded", mod + ".py")):
        return None
    env = dict(os.environ)
    env["PYTHONPATH"] = VERIF + os.pathsep + REPO
    env["VERIF_REPO"] = REPO
    env["VERIF_TIER"] = tier
    env["VERIF_SEED"] = str(seed)
    env.setdefault("TZ", "UTC")
    cmd = [VENV_PY, "-m", f"bounded.{mod}", "--tier", tier, "--seed", str(seed)]
    t = time.time()
    try:
        p = subprocess.run(cmd, cwd=VERIF, env=env, capture_output=True, text=True, timeout=P.PROPS[pid].get("bounded_timeout", 3000))
    except subprocess.TimeoutExpired:
        return {"error": "bounded driver timed out", "wall": time.time() - t}
    out = p.stdout.strip().splitlines()
    res = None
    for line in reversed(out):
        if line.startswith("{"):
            try:
                res = json.loads(line)
                break
            except Exception:
                pass
    if res is None:
        return {"error": f"bounded driver produced no result (exit {p.returncode}): {p.stderr[-2000:]}", "wall": time.time() - t}
    res["wall"] = time.time() - t
    return res


def main(argv=None):
    ap = argparse.ArgumentParser()
    ap.add_argument("pid")
    ap.add_argument("--tier", default=os.environ.get("VERIF_TIER", "quick"))
    ap.add_argument("--replay")
    ap.add_argument("--no-bounded", action="store_true")
    ap.add_argument("--no-proof", action="store_true")
    a = ap.parse_args(argv)
    pid = a.pid
    tier = a.tier if a.tier in ("quick", "thorough") else "quick"
    seed = int(os.environ.get("VERIF_SEED", "0") or 0)
    t0 = time.time()
    if a.replay:
        return replay(pid, a.replay)
    try:
        return check(pid, tier, seed, a, t0)
    except SystemExit:
        raise
    except Exception:
        traceback.print_exc()
        print(f"CHECKER-ERROR property={pid}")
        return 3


def replay(pid, path):
    r = json.load(open(path))
    print(json.dumps({k: r[k] for k in r if k not in ("solver_output",)}, indent=1)[:4000])
    cmd = r.get("replay_cmd")
    if not cmd:
        print("no concrete input recorded for this obligation (no-failing-input-found); solver output follows")
        print(r.get("solver_output", ""))
        return 1
    env = dict(os.environ)
    env["PYTHONPATH"] = VERIF + os.pathsep + REPO
    env["VERIF_REPO"] = REPO
    p = subprocess.run(cmd, shell=True, cwd=VERIF, env=env)
    return p.returncode


def check(pid, tier, seed, a, t0):
    from . import prove, statics

    spec = P.PROPS[pid]
    known = load_known()
    kf = [f for f in known.get("findings", []) if f["property"] == pid]
    violations = []  # dicts: obligation/witness, replay path, concrete?
    undecided = []
    errors = []
    known_hit = []
    ev = {
        "property_id": pid,
        "tier": tier,
        "seed": seed,
        "level": spec["level"],
        "coverage": {},
        "assumptions": [],
        "violations": 0,
        "wall_s": 0.0,
    }
    cov = ev["coverage"]
    obligations = []
    funcs = {}
    assumed = set()
    # ---------------------------------------------------------------- deductive part
    solver_time = 0.0
    by_backend = {}
    if spec.get("prover") and not a.no_proof:
        rs = prove.run(props=[pid], both=(tier == "thorough"))
        for r in rs:
            tag = r["target"] + (f"[{r['family']}]" if r["family"] else "")
            if r["error"]:
                errors.append(f"{tag}: {r['error'][-1500:]}")
                continue
            cv = r.get("cover") or {}
            if cv.get("exits") and not cv.get("reachable") and not cv.get("unknown"):
                errors.append(f"{tag}: vacuous - no exit of the function is reachable under the contract's assumptions")
            if r["unsupported"]:
                undecided.append({"obligation": tag, "reason": "outside the modelled subset / target missing: " + r["unsupported"]})
            f = funcs.setdefault(r["target"], {"sha": r.get("sha"), "lines": r.get("lines"), "obligations": 0, "instances": 0})
            f["instances"] += 1
            for o in r["obligations"]:
                if pid not in (o["props"] or []):
                    continue
                f["obligations"] += 1
                o["func"] = r["target"]
                obligations.append(o)
            assumed.update(r["assumed"])
        if spec.get("lemmas"):
            from . import lemmas

            for o in lemmas.run():
                if pid in o["props"]:
                    o["func"] = "vf.lemmas"
                    obligations.append(o)
    if spec.get("static"):
        for o in statics.run(pid, tier):
            obligations.append(o)
            if o.get("func"):
                f = funcs.setdefault(o["func"], {"sha": o.get("sha"), "lines": None, "obligations": 0, "instances": 1})
                f["obligations"] += 1
            assumed.update(o.get("assumed", []))
    for o in obligations:
        solver_time += o.get("time", 0) or 0
        if o["verdict"] == "discharged":
            by_backend[o["backend"]] = by_backend.get(o["backend"], 0) + 1
    # z3 `unsat` but cvc5 `sat` on the exported text (thorough tier cross-check): one of the two is wrong - the obligation
    # is not counted as discharged and not reported as a violation either
    for o in obligations:
        if o["verdict"] == "disagree":
            o["verdict"] = "unknown"
    refuted = [o for o in obligations if o["verdict"] == "refuted"]
    unknown = [o for o in obligations if o["verdict"] == "unknown"]
    # ---------------------------------------------------------------- bounded part (stand-in + witness search)
    bres = None
    if spec.get("bounded") and not a.no_bounded:
        bres = run_bounded(pid, tier, seed)
        if bres and bres.get("error"):
            errors.append("bounded: " + bres["error"])
    # ---------------------------------------------------------------- verdicts
    RP = os.environ.get("VERIF_REPLAY_DIR", os.path.join(VERIF, "replays"))
    os.makedirs(os.path.join(RP, pid), exist_ok=True)
    bviol = (bres or {}).get("violations", [])
    concrete = []
    for v in bviol:
        match = match_known_case(v, kf)
        if match:
            known_hit.append((match, v))
            continue
        concrete.append(v)
    for o in refuted:
        match = match_known(o["name"], o["name"], kf)
        if match:
            known_hit.append((match, {"what": o["name"]}))
            continue
        # a refuted obligation: attach a concrete failing input from the bounded search when there is one
        rp = os.path.join(RP, pid, safe(o["name"]) + ".json")
        w = concrete[0] if concrete else None
        json.dump(
            {
                "property": pid,
                "obligation": o["name"],
                "verdict": o["verdict"],
                "backend": o["backend"],
                "line": o.get("line"),
                "path": o.get("trace"),
                "solver_output": json.dumps(o.get("model"), indent=1) if o.get("model") else (o.get("reason") or "sat"),
                "concrete_input": w,
                "replay_cmd": (w or {}).get("replay_cmd"),
            },
            open(rp, "w"),
            indent=1,
        )
        violations.append({"what": o["name"], "replay": rp, "concrete": w is not None})
    # concrete failing inputs of the bounded search are always reported (also next to refuted obligations, and when every
    # refuted obligation is a listed finding)
    if True:
        seen_cls = set()
        for v in concrete:
            if v.get("witness_class") in seen_cls:
                continue
            seen_cls.add(v.get("witness_class"))
            rp = os.path.join(RP, pid, safe(v.get("witness_class", "bounded")) + ".json")
            json.dump({"property": pid, "obligation": v.get("contract", "bounded oracle"), "concrete_input": v, "replay_cmd": v.get("replay_cmd")}, open(rp, "w"), indent=1)
            violations.append({"what": v.get("what"), "replay": rp, "concrete": True})
    for o in unknown:
        undecided.append({"obligation": o["name"], "reason": o.get("reason")})
    # vacuity / baseline
    base = P.baseline_count(pid)
    if spec.get("prover") and not a.no_proof and len(obligations) == 0:
        errors.append("no obligation was generated for this property (vacuous run)")
    if base and len(obligations) * 2 < base and not undecided and not errors:
        errors.append(f"{len(obligations)} obligations generated, committed baseline has {base}: contracts or targets were lost")
    # ---------------------------------------------------------------- evidence
    discharged = sum(1 for o in obligations if o["verdict"] == "discharged")
    cov.update(
        {
            "obligations": len(obligations),
            "discharged": discharged,
            "by_backend": by_backend,
            "solver_time_s": round(solver_time, 2),
            "checker_cmd": f"./check {pid} --tier {tier}",
            "trusted_base": sorted(assumed) + spec.get("trusted_base", []),
            "functions_under_contract": [
                {"function": k, "source_sha256_16": v["sha"], "lines": v["lines"], "obligations": v["obligations"], "instances": v["instances"]}
                for k, v in sorted(funcs.items())
            ],
            "bounded_functions": P.bounded_functions(pid),
            "samples": [
                {k: o.get(k) for k in ("name", "kind", "verdict", "backend", "time", "line")} for o in (obligations[:6] + refuted[:3] + unknown[:3])
            ],
            "extraction_drops": P.DROPPED,
            "python_semantics_assumed": P.PY_SEMANTICS,
            "explanation": spec["explanation"],
            "known_findings_hit": [m["id"] for m, _ in known_hit],
            "undecided": undecided[:20],
        }
    )
    if bres and not bres.get("error"):
        cov["bounded"] = {k: bres.get(k) for k in ("bound", "evaluations", "distinct_nontrivial", "rule", "contract_evaluations", "exhaustive") if k in bres}
        cov["bounded"]["samples"] = bres.get("samples", [])[:5]
        cov["evaluations"] = bres.get("evaluations", 0)
        cov["distinct_nontrivial"] = bres.get("distinct_nontrivial", 0)
        cov["rule"] = bres.get("rule", "")
    ev["assumptions"] = spec.get("assumptions", []) + sorted(assumed)
    ev["violations"] = len(violations)
    ev["wall_s"] = round(time.time() - t0, 2)
    evdir = os.environ.get("VERIF_EVIDENCE_DIR", os.path.join(VERIF, "evidence"))
    os.makedirs(evdir, exist_ok=True)
    json.dump(ev, open(os.path.join(evdir, f"{pid}.json"), "w"), indent=1)
    # ---------------------------------------------------------------- report
    print(f"property {pid}: {discharged}/{len(obligations)} obligations discharged {by_backend}; "
          f"bounded evaluations={cov.get('evaluations', 0)}; {ev['wall_s']}s")
    seen = set()
    for m, v in known_hit:
        if m["id"] in seen:
            continue
        seen.add(m["id"])
        print(f"KNOWN-FINDING: property={pid} {m['what']}")
    if errors:
        for e in errors:
            print("CHECKER-ERROR:", e)
        return 3
    if violations:
        for v in violations:
            print(f"VIOLATION property={pid} replay={v['replay']}" + ("" if v["concrete"] else " no-failing-input-found"))
            print("   ", v["what"])
        return 1
    if undecided:
        for u in undecided[:20]:
            print(f"UNDECIDED property={pid} obligation={u['obligation']} reason={u['reason']}")
        if bres is None or bres.get("error"):
            return 2
        # the proof part could not be (re-)established for these obligations, e.g. because a function left the subset the
        # VC generator models; a failed proof is not a violation: the verdict rests on the bounded part, which found none
        print(f"property {pid}: undecided obligations are not violations; the bounded stand-in explored {cov.get('evaluations', 0)} cases and found none")
        return 0
    return 0


def match_known_case(v, kf):
    """a bounded violation is a known finding only if both its case id and its witness class are the listed ones"""
    for f in kf:
        cases = f.get("cases", [])
        wcs = f.get("witness_classes", [])
        if cases and any(str(v.get("case", "")).startswith(c) for c in cases) and (not wcs or v.get("witness_class") in wcs):
            return f
    return None


def match_known(key, text, kf):
    for f in kf:
        pats = f.get("match", [])
        if any(p in key or p in text for p in pats):
            return f
    return None


def safe(s):
    return "".join(ch if ch.isalnum() or ch in "._-" else "_" for ch in s)[:120]


if __name__ == "__main__":
    sys.exit(main())
