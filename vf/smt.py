"""Discharging obligations: z3 first, cvc5 on `unknown`; only `unsat` counts as discharged."""
import os
import subprocess
import tempfile
import time

import z3

Z3_TIMEOUT_MS = int(os.environ.get("VERIF_Z3_TIMEOUT_MS", "10000"))
CVC5_TIMEOUT_S = int(os.environ.get("VERIF_CVC5_TIMEOUT_S", "20"))


def smt2_of(ob):
    s = z3.Solver()
    s.add(ob.formula())
    return s.to_smt2()


def run_z3(ob, timeout_ms=None):
    s = z3.Solver()
    s.set("timeout", timeout_ms or Z3_TIMEOUT_MS)
    for h in ob.hyps:
        s.add(h)
    s.add(z3.Not(ob.goal))
    t = time.time()
    try:
        r = s.check()
    except z3.Z3Exception as e:
        return "unknown", time.time() - t, None, f"z3 exception: {e}"
    dt = time.time() - t
    if r == z3.unsat:
        return "unsat", dt, None, None
    if r == z3.sat:
        return "sat", dt, s.model(), None
    return "unknown", dt, None, s.reason_unknown()


ARITH_KINDS = None


def _arith_kinds():
    global ARITH_KINDS
    if ARITH_KINDS is None:
        ARITH_KINDS = {
            z3.Z3_OP_ADD, z3.Z3_OP_SUB, z3.Z3_OP_MUL, z3.Z3_OP_IDIV, z3.Z3_OP_DIV, z3.Z3_OP_MOD, z3.Z3_OP_UMINUS,
            z3.Z3_OP_LE, z3.Z3_OP_LT, z3.Z3_OP_GE, z3.Z3_OP_GT, z3.Z3_OP_EQ, z3.Z3_OP_DISTINCT, z3.Z3_OP_ITE,
            z3.Z3_OP_AND, z3.Z3_OP_OR, z3.Z3_OP_NOT, z3.Z3_OP_IMPLIES, z3.Z3_OP_IFF, z3.Z3_OP_XOR,
            z3.Z3_OP_TRUE, z3.Z3_OP_FALSE, z3.Z3_OP_ANUM,
        }
    return ARITH_KINDS


def abstract_arith(exprs):
    """generalise: every maximal sub-term that is not integer arithmetic / propositional structure becomes a fresh
    constant (the same term always the same constant).  If the generalised formula is unsat, so is the original."""
    kinds = _arith_kinds()
    cache = {}
    names = {}

    def go(e):
        k = e.get_id()
        if k in cache:
            return cache[k]
        if z3.is_quantifier(e):
            r = z3.Const(f"abs!q{len(names)}", e.sort())
            names[k] = r
        elif z3.is_app(e) and e.decl().kind() in kinds and all(
            z3.is_int(c) or z3.is_bool(c) or (e.decl().kind() in (z3.Z3_OP_EQ, z3.Z3_OP_DISTINCT, z3.Z3_OP_ITE)) for c in e.children()
        ):
            ch = [go(c) for c in e.children()]
            r = e.decl()(*ch) if ch else e
        elif z3.is_const(e) and e.decl().kind() == z3.Z3_OP_UNINTERPRETED:
            r = e
        else:
            r = z3.Const(f"abs!{len(names)}", e.sort())
            names[k] = r
        cache[k] = r
        return r

    return [go(e) for e in exprs]


# NOTE: a stage that asserted the same formulas as tracked literals (assert_and_track / unsat-core mode) was removed: on
# sequence formulas z3 5.1.0 answered `unsat` in that mode for a set of three formulas that cvc5 shows satisfiable (and
# plain z3 leaves unknown) - found when a deliberately broken seal_file_path still "verified".  No answer of that mode is
# trusted any more.


def _symbols(e, cache):
    k = e.get_id()
    if k in cache:
        return cache[k]
    out = set()
    stack = [e]
    seen = set()
    while stack:
        x = stack.pop()
        i = x.get_id()
        if i in seen:
            continue
        seen.add(i)
        if z3.is_quantifier(x):
            stack.append(x.body())
        elif z3.is_app(x):
            d = x.decl()
            if d.kind() == z3.Z3_OP_UNINTERPRETED:
                out.add(d.name())
            stack.extend(x.children())
    cache[k] = out
    return out


def run_z3_relevant(ob, timeout_ms=4000):
    """proving from FEWER hypotheses is sound.  Keep the hypotheses that share an uninterpreted symbol with the goal
    (then with those hypotheses, one more round): the facts about other program points only make the solver diverge"""
    t = time.time()
    cache = {}
    try:
        gs = _symbols(ob.goal, cache)
        hs = [(h, _symbols(h, cache)) for h in ob.hyps]
        for rounds in (1, 2):
            syms = set(gs)
            sel = set()
            for _ in range(rounds):
                for i, (h, ss) in enumerate(hs):
                    if i not in sel and ss & syms:
                        sel.add(i)
                for i in sel:
                    syms |= hs[i][1]
            if len(sel) == len(hs):
                break
            s = z3.Solver()
            s.set("timeout", timeout_ms)
            for i in sorted(sel):
                s.add(hs[i][0])
            s.add(z3.Not(ob.goal))
            if s.check() == z3.unsat:
                return "unsat", time.time() - t
    except z3.Z3Exception:
        pass
    return "unknown", time.time() - t


def _has_op(e, kinds, cache):
    k = e.get_id()
    if k in cache:
        return cache[k]
    stack, seen, found = [e], set(), False
    while stack and not found:
        x = stack.pop()
        i = x.get_id()
        if i in seen:
            continue
        seen.add(i)
        if z3.is_quantifier(x):
            stack.append(x.body())
        elif z3.is_app(x):
            if x.decl().kind() in kinds:
                found = True
            stack.extend(x.children())
    cache[k] = found
    return found


def run_z3_noconcat(ob, timeout_ms=6000):
    """fewer hypotheses (sound): leave out every hypothesis that contains a sequence concatenation when the goal has none.
    The purified appends / dict stores state lengths, elements and membership of the new sequence separately, so the
    Concat equations are only fodder for the sequence solver"""
    t = time.time()
    kinds = {z3.Z3_OP_SEQ_CONCAT}
    cache = {}
    try:
        if _has_op(ob.goal, kinds, cache):
            return "unknown", 0.0
        hy = [h for h in ob.hyps if not _has_op(h, kinds, cache)]
        if len(hy) == len(ob.hyps):
            return "unknown", time.time() - t
        s = z3.Solver()
        s.set("timeout", timeout_ms)
        s.add(hy)
        s.add(z3.Not(ob.goal))
        r = s.check()
        if r != z3.unsat:
            # second attempt: also without the hypotheses that nest quantifiers (instances of membership lemmas for every
            # element of a list): they multiply instantiations and are rarely what a preservation step needs
            hy2 = [h for h in hy if _quant_depth(h) <= 1]
            if len(hy2) < len(hy):
                s = z3.Solver()
                s.set("timeout", timeout_ms)
                s.add(hy2)
                s.add(z3.Not(ob.goal))
                r = s.check()
    except z3.Z3Exception:
        return "unknown", time.time() - t
    return ("unsat" if r == z3.unsat else "unknown"), time.time() - t


def _quant_depth(e):
    best = 0
    stack = [(e, 0)]
    seen = set()
    while stack:
        x, d = stack.pop()
        key = (x.get_id(), d)
        if key in seen:
            continue
        seen.add(key)
        if z3.is_quantifier(x):
            d += 1
            best = max(best, d)
            stack.append((x.body(), d))
        elif z3.is_app(x):
            stack.extend((c, d) for c in x.children())
    return best


def run_z3_abstract(ob, timeout_ms=5000):
    t = time.time()
    try:
        fs = abstract_arith(ob.hyps + [z3.Not(ob.goal)])
        s = z3.Solver()
        s.set("timeout", timeout_ms)
        s.add(fs)
        r = s.check()
    except z3.Z3Exception as e:
        return "unknown", time.time() - t
    return ("unsat" if r == z3.unsat else "unknown"), time.time() - t


def cvc5_text(ob):
    txt = smt2_of(ob)
    txt = txt.replace("seq.nth_u", "seq.nth").replace("seq.nth_i", "seq.nth")
    return "(set-logic ALL)\n" + txt


def run_cvc5(ob, timeout_s=None):
    t = time.time()
    try:
        txt = cvc5_text(ob)
    except Exception as e:  # noqa
        return "unknown", 0.0, f"cvc5 export failed: {e}"
    with tempfile.NamedTemporaryFile("w", suffix=".smt2", delete=False) as f:
        f.write(txt)
        path = f.name
    try:
        p = subprocess.run(
            ["/usr/bin/cvc5", "--strings-exp", f"--tlimit={(timeout_s or CVC5_TIMEOUT_S) * 1000}", path],
            capture_output=True,
            text=True,
            timeout=(timeout_s or CVC5_TIMEOUT_S) + 5,
        )
        out = (p.stdout or "").strip().splitlines()
        res = out[0] if out else "unknown"
        if res not in ("sat", "unsat"):
            return "unknown", time.time() - t, (p.stderr or p.stdout or "")[:200]
        return res, time.time() - t, None
    except subprocess.TimeoutExpired:
        return "unknown", time.time() - t, "cvc5 timeout"
    finally:
        os.unlink(path)


_HINTS = None


def hints():
    """which back end discharged an obligation of this name on the unchanged tree and how long it took (baseline/hints.json).
    Only the ORDER and the time limits of the attempts depend on it, never a verdict."""
    global _HINTS
    if _HINTS is None:
        try:
            import json

            from . import VERIF

            _HINTS = json.load(open(os.path.join(VERIF, "baseline", "hints.json")))
        except (OSError, ValueError):
            _HINTS = {}
    return _HINTS


def discharge(ob, both=False, use_cvc5=True):
    """z3 (short) -> z3 on the arithmetic generalisation -> cvc5 -> z3 (long).  Only unsat = discharged."""
    nm = getattr(ob, "name", None) or ""
    # path-specific hint first (the same obligation name occurs once per path), then the hint of the name
    h = hints().get(nm + "|" + "/".join(getattr(ob, "trace", None) or [])) or hints().get(nm)
    first_ms = 2000
    if h:
        zt = h.get("per_backend", {}).get("z3", h["max_time"] if set(h["backends"]) == {"z3"} else 0.0)
        if "z3" in h["backends"] and zt > 0.5:
            # known to need a longer plain z3 run (on some path): give it 8x its time (load on 16 cores) before the detours
            first_ms = int(min(60000, max(4000, 8000 * zt)))
        elif "z3" not in h["backends"]:
            first_ms = 1000
    r, dt, model, reason = run_z3(ob, first_ms)
    ob.time = dt
    tried = ["z3"]
    if r == "unknown" and h:
        # the stages that discharged obligations of this name before go first, each with a budget of a few times what it needed
        # (names repeat across paths, so several stages may be listed); every budget is capped
        pb = h.get("per_backend", {})

        def budget(name, lo, hi):
            return int(min(hi, max(lo, 4000 * pb.get(name, 0.0) + 2000)))

        if "z3-relevant-hypotheses" in pb:
            rr_, dtr = run_z3_relevant(ob, budget("z3-relevant-hypotheses", 4000, 20000))
            ob.time += dtr
            if rr_ == "unsat":
                ob.verdict, ob.backend = "discharged", "z3-relevant-hypotheses"
                return ob
        if "z3-without-concat-hypotheses" in pb:
            rn_, dtn = run_z3_noconcat(ob, budget("z3-without-concat-hypotheses", 6000, 20000))
            ob.time += dtn
            if rn_ == "unsat":
                ob.verdict, ob.backend = "discharged", "z3-without-concat-hypotheses"
                return ob
        if use_cvc5 and "cvc5" in pb:
            r2, dt2, why = run_cvc5(ob, int(min(45, max(CVC5_TIMEOUT_S, 3 * pb["cvc5"] + 5))))
            ob.time += dt2
            if r2 == "unsat":
                ob.verdict, ob.backend = "discharged", "cvc5"
                return ob
    if r == "unknown":
        rr_, dtr = run_z3_relevant(ob)
        ob.time += dtr
        if rr_ == "unsat":
            ob.verdict, ob.backend = "discharged", "z3-relevant-hypotheses"
            return ob
        rn_, dtn = run_z3_noconcat(ob)
        ob.time += dtn
        if rn_ == "unsat":
            ob.verdict, ob.backend = "discharged", "z3-without-concat-hypotheses"
            return ob
        ra, dta = run_z3_abstract(ob, 3000)
        ob.time += dta
        if ra == "unsat":
            ob.verdict, ob.backend = "discharged", "z3-arith-abstraction"
            return ob
        rs_, dts = run_z3_strabs(ob)
        ob.time += dts
        if rs_ == "unsat":
            ob.verdict, ob.backend = "discharged", "z3-strings-as-uninterpreted"
            return ob
        if use_cvc5:
            r2, dt2, why = run_cvc5(ob)
            ob.time += dt2
            if r2 == "unsat":
                ob.verdict, ob.backend = "discharged", "cvc5"
                return ob
            # a cvc5 `sat` is not taken as a refutation: the exported text differs from the z3 terms in the semantics of
            # out-of-range seq.nth, and no model is read back; z3 gets its long run and only its `sat` (with a model) counts
            reason = f"z3: {reason}; cvc5: {why}"
        r, dt, model, reason2 = run_z3(ob, max(Z3_TIMEOUT_MS, 3 * first_ms))
        ob.time += dt
        if r == "unknown":
            # last resort: fewer hypotheses.  Dropping hypotheses is sound for proving (unsat of a subset implies unsat of
            # the whole); it removes quantified facts about earlier program points that only make the solver diverge.
            goal_last = ob.hyps[-1] if isinstance(ob, TextOb) else None
            hy = ob.hyps[:-1] if isinstance(ob, TextOb) else ob.hyps
            for k in (60, 30, 15, 8):
                if k >= len(hy):
                    continue
                sub = hy[-k:]
                s_ = z3.Solver()
                s_.set("timeout", 2500)
                s_.add(sub)
                s_.add(goal_last if goal_last is not None else z3.Not(ob.goal))
                t_ = time.time()
                try:
                    rr = s_.check()
                except z3.Z3Exception:
                    rr = z3.unknown
                ob.time += time.time() - t_
                if rr == z3.unsat:
                    ob.verdict, ob.backend = "discharged", f"z3-last-{k}-hypotheses"
                    return ob
            ob.verdict, ob.reason = "unknown", f"{reason}; z3 long: {reason2}"
            return ob
    if r == "unsat":
        ob.verdict, ob.backend = "discharged", "z3"
        if both and use_cvc5:
            r2, dt2, why = run_cvc5(ob)
            ob.time += dt2
            if r2 == "sat":
                ob.verdict, ob.reason = "disagree", "z3 unsat / cvc5 sat"
        return ob
    ob.verdict, ob.backend, ob.model = "refuted", "z3", model
    return ob


# ---------------------------------------------------------------------------------------------------------------
# "strings as an uninterpreted sort": a generalisation used only for proving (unsat).  Every String term becomes a
# term of an uninterpreted sort U, string literals become pairwise distinct constants, string operations become
# uninterpreted functions.  Every model of the original formula induces a model of the translated one, so unsat of
# the translation implies unsat of the original.  z3 is far more reliable on EUF + arrays + LIA + quantifiers than on
# the same formula mixed with the sequence solver over strings.
class _NoAbs(Exception):
    pass


def abstract_strings(exprs):
    U = z3.DeclareSort("StrU")
    lits = {}
    ufs = {}
    cache = {}

    def ts(s):
        k = s.kind()
        if k == z3.Z3_SEQ_SORT:
            if s.is_string():
                return U
            return z3.SeqSort(ts(s.basis()))
        if k == z3.Z3_ARRAY_SORT:
            return z3.ArraySort(ts(s.domain()), ts(s.range()))
        return s

    def uf(name, arg_sorts, res_sort):
        key = (name, tuple(str(a) for a in arg_sorts), str(res_sort))
        if key not in ufs:
            ufs[key] = z3.Function(f"{name}!u{len(ufs)}", *(list(arg_sorts) + [res_sort]))
        return ufs[key]

    def go(e):
        k = e.get_id()
        if k in cache:
            return cache[k]
        r = go1(e)
        cache[k] = r
        return r

    def go1(e):
        if z3.is_quantifier(e):
            if e.is_lambda():
                raise _NoAbs()
            n = e.num_vars()
            ovars = [z3.Const(f"{e.var_name(i)}", e.var_sort(i)) for i in range(n)]
            body = z3.substitute_vars(e.body(), *reversed(ovars))
            nb = go(body)
            nvars = [z3.Const(f"{e.var_name(i)}", ts(e.var_sort(i))) for i in range(n)]
            # the translated body mentions the translated constants of the same names
            return z3.ForAll(nvars, nb) if e.is_forall() else z3.Exists(nvars, nb)
        if z3.is_var(e):
            raise _NoAbs()
        if not z3.is_app(e):
            raise _NoAbs()
        if z3.is_string_value(e):
            v = e.as_string()
            if v not in lits:
                lits[v] = z3.Const(f"strlit!{len(lits)}", U)
            return lits[v]
        d = e.decl()
        dk = d.kind()
        ch = [go(c) for c in e.children()]
        osorts = [c.sort() for c in e.children()]
        nsorts = [c.sort() for c in ch]
        rs = ts(e.sort())
        if e.num_args() == 0:
            if dk == z3.Z3_OP_UNINTERPRETED:
                return z3.Const(d.name(), rs)
            if dk == z3.Z3_OP_SEQ_EMPTY:
                return z3.Empty(rs) if rs.kind() == z3.Z3_SEQ_SORT else uf("empty", [], rs)
            if rs.eq(e.sort()):
                return e
            raise _NoAbs()
        same = all(a.eq(b) for a, b in zip(osorts, nsorts)) and rs.eq(e.sort())
        if same:
            return d(*ch)
        if dk == z3.Z3_OP_EQ:
            return ch[0] == ch[1]
        if dk == z3.Z3_OP_DISTINCT:
            return z3.Distinct(*ch)
        if dk == z3.Z3_OP_ITE:
            return z3.If(ch[0], ch[1], ch[2])
        if dk == z3.Z3_OP_SELECT:
            return z3.Select(ch[0], ch[1])
        if dk == z3.Z3_OP_STORE:
            return z3.Store(ch[0], ch[1], ch[2])
        if dk == z3.Z3_OP_CONST_ARRAY:
            return z3.K(rs.domain(), ch[0])
        if dk == z3.Z3_OP_UNINTERPRETED:
            return uf(d.name(), nsorts, rs)(*ch)
        # sequence operations: native when the (translated) sequence is still a sequence, uninterpreted otherwise
        first_is_seq = nsorts and nsorts[0].kind() == z3.Z3_SEQ_SORT
        if first_is_seq:
            if dk == z3.Z3_OP_SEQ_LENGTH:
                return z3.Length(ch[0])
            if dk == z3.Z3_OP_SEQ_NTH:
                return ch[0][ch[1]]
            if dk == z3.Z3_OP_SEQ_CONCAT and all(s.kind() == z3.Z3_SEQ_SORT for s in nsorts):
                return z3.Concat(*ch)
            if dk == z3.Z3_OP_SEQ_CONTAINS:
                return z3.Contains(ch[0], ch[1])
            if dk == z3.Z3_OP_SEQ_EXTRACT:
                return z3.SubSeq(ch[0], ch[1], ch[2])
            if dk == z3.Z3_OP_SEQ_PREFIX:
                return z3.PrefixOf(ch[0], ch[1])
            if dk == z3.Z3_OP_SEQ_SUFFIX:
                return z3.SuffixOf(ch[0], ch[1])
            if dk == z3.Z3_OP_SEQ_INDEX:
                return z3.IndexOf(ch[0], ch[1], ch[2])
            if dk == z3.Z3_OP_SEQ_AT:
                return uf("seq_at", nsorts, rs)(*ch)
        if dk == z3.Z3_OP_SEQ_UNIT:
            return z3.Unit(ch[0])
        return uf(d.name(), nsorts, rs)(*ch)

    out = [go(e) for e in exprs]
    if len(lits) > 1:
        out.append(z3.Distinct(*lits.values()))
    return out


def run_z3_strabs(ob, timeout_ms=6000):
    t = time.time()
    try:
        fs = abstract_strings(ob.hyps + [z3.Not(ob.goal)])
        s = z3.Solver()
        s.set("timeout", timeout_ms)
        s.add(fs)
        r = s.check()
    except (_NoAbs, z3.Z3Exception, Exception):
        return "unknown", time.time() - t
    return ("unsat" if r == z3.unsat else "unknown"), time.time() - t



class TextOb:
    """an obligation shipped between processes as SMT-LIB text"""

    def __init__(self, text):
        fs = z3.parse_smt2_string(text)
        self.hyps = list(fs)
        self.goal = z3.BoolVal(False)  # the text already contains the negated goal
        self._text = text
        self.verdict = self.backend = self.model = self.reason = None
        self.time = 0.0

    def formula(self):
        return z3.And(self.hyps)


def discharge_text(args):
    text, both, use_cvc5 = args
    t = time.time()
    try:
        ob = TextOb(text)
        discharge(ob, both=both, use_cvc5=use_cvc5)
        model = None
        if ob.verdict == "refuted" and ob.model is not None:
            model = {}
            for d in ob.model.decls():
                n = d.name()
                if "!" in n and not n.startswith(("H!", "new_")):
                    continue
                sv = str(ob.model[d])
                model[n] = sv[:200]
                if len(model) > 60:
                    break
        return {"verdict": ob.verdict, "backend": ob.backend, "time": round(time.time() - t, 3), "reason": ob.reason, "model": model}
    except Exception as e:  # noqa
        return {"verdict": "unknown", "backend": None, "time": round(time.time() - t, 3), "reason": f"discharge error: {e}", "model": None}
