"""Discharging obligations: z3 first, cvc5 on `unknown`; only `unsat` counts as discharged."""
import os
import subprocess
import tempfile
import time

import z3

Z3_TIMEOUT_MS = int(os.environ.get("VERIF_Z3_TIMEOUT_MS", "10000"))
CVC5_TIMEOUT_S = int(os.environ.get("VERIF_CVC5_TIMEOUT_S", "20"))


def smt2_of(ob):
    s = z3.Solver()
    s.add(ob.formula())
    return s.to_smt2()


def run_z3(ob, timeout_ms=None):
    s = z3.Solver()
    s.set("timeout", timeout_ms or Z3_TIMEOUT_MS)
    for h in ob.hyps:
        s.add(h)
    s.add(z3.Not(ob.goal))
    t = time.time()
    try:
        r = s.check()
    except z3.Z3Exception as e:
        return "unknown", time.time() - t, None, f"z3 exception: {e}"
    dt = time.time() - t
    if r == z3.unsat:
        return "unsat", dt, None, None
    if r == z3.sat:
        return "sat", dt, s.model(), None
    return "unknown", dt, None, s.reason_unknown()


ARITH_KINDS = None


def _arith_kinds():
    global ARITH_KINDS
    if ARITH_KINDS is None:
        ARITH_KINDS = {
            z3.Z3_OP_ADD, z3.Z3_OP_SUB, z3.Z3_OP_MUL, z3.Z3_OP_IDIV, z3.Z3_OP_DIV, z3.Z3_OP_MOD, z3.Z3_OP_UMINUS,
            z3.Z3_OP_LE, z3.Z3_OP_LT, z3.Z3_OP_GE, z3.Z3_OP_GT, z3.Z3_OP_EQ, z3.Z3_OP_DISTINCT, z3.Z3_OP_ITE,
            z3.Z3_OP_AND, z3.Z3_OP_OR, z3.Z3_OP_NOT, z3.Z3_OP_IMPLIES, z3.Z3_OP_IFF, z3.Z3_OP_XOR,
            z3.Z3_OP_TRUE, z3.Z3_OP_FALSE, z3.Z3_OP_ANUM,
        }
    return ARITH_KINDS


def abstract_arith(exprs):
    """generalise: every maximal sub-term that is not integer arithmetic / propositional structure becomes a fresh
    constant (the same term always the same constant).  If the generalised formula is unsat, so is the original."""
    kinds = _arith_kinds()
    cache = {}
    names = {}

    def go(e):
        k = e.get_id()
        if k in cache:
            return cache[k]
        if z3.is_quantifier(e):
            r = z3.Const(f"abs!q{len(names)}", e.sort())
            names[k] = r
        elif z3.is_app(e) and e.decl().kind() in kinds and all(
            z3.is_int(c) or z3.is_bool(c) or (e.decl().kind() in (z3.Z3_OP_EQ, z3.Z3_OP_DISTINCT, z3.Z3_OP_ITE)) for c in e.children()
        ):
            ch = [go(c) for c in e.children()]
            r = e.decl()(*ch) if ch else e
        elif z3.is_const(e) and e.decl().kind() == z3.Z3_OP_UNINTERPRETED:
            r = e
        else:
            r = z3.Const(f"abs!{len(names)}", e.sort())
            names[k] = r
        cache[k] = r
        return r

    return [go(e) for e in exprs]


def run_z3_abstract(ob, timeout_ms=5000):
    t = time.time()
    try:
        fs = abstract_arith(ob.hyps + [z3.Not(ob.goal)])
        s = z3.Solver()
        s.set("timeout", timeout_ms)
        s.add(fs)
        r = s.check()
    except z3.Z3Exception as e:
        return "unknown", time.time() - t
    return ("unsat" if r == z3.unsat else "unknown"), time.time() - t


def cvc5_text(ob):
    txt = smt2_of(ob)
    txt = txt.replace("seq.nth_u", "seq.nth").replace("seq.nth_i", "seq.nth")
    return "(set-logic ALL)\n" + txt


def run_cvc5(ob, timeout_s=None):
    t = time.time()
    try:
        txt = cvc5_text(ob)
    except Exception as e:  # noqa
        return "unknown", 0.0, f"cvc5 export failed: {e}"
    with tempfile.NamedTemporaryFile("w", suffix=".smt2", delete=False) as f:
        f.write(txt)
        path = f.name
    try:
        p = subprocess.run(
            ["/usr/bin/cvc5", "--strings-exp", f"--tlimit={(timeout_s or CVC5_TIMEOUT_S) * 1000}", path],
            capture_output=True,
            text=True,
            timeout=(timeout_s or CVC5_TIMEOUT_S) + 5,
        )
        out = (p.stdout or "").strip().splitlines()
        res = out[0] if out else "unknown"
        if res not in ("sat", "unsat"):
            return "unknown", time.time() - t, (p.stderr or p.stdout or "")[:200]
        return res, time.time() - t, None
    except subprocess.TimeoutExpired:
        return "unknown", time.time() - t, "cvc5 timeout"
    finally:
        os.unlink(path)


def discharge(ob, both=False, use_cvc5=True):
    """z3 (short) -> z3 on the arithmetic generalisation -> cvc5 -> z3 (long).  Only unsat = discharged."""
    r, dt, model, reason = run_z3(ob, 2000)
    ob.time = dt
    tried = ["z3"]
    if r == "unknown":
        ra, dta = run_z3_abstract(ob, 3000)
        ob.time += dta
        if ra == "unsat":
            ob.verdict, ob.backend = "discharged", "z3-arith-abstraction"
            return ob
        if use_cvc5:
            r2, dt2, why = run_cvc5(ob)
            ob.time += dt2
            if r2 == "unsat":
                ob.verdict, ob.backend = "discharged", "cvc5"
                return ob
            if r2 == "sat":
                ob.verdict, ob.backend, ob.reason = "refuted", "cvc5", "cvc5 sat (no model extracted)"
                return ob
            reason = f"z3: {reason}; cvc5: {why}"
        r, dt, model, reason2 = run_z3(ob)
        ob.time += dt
        if r == "unknown":
            ob.verdict, ob.reason = "unknown", f"{reason}; z3 long: {reason2}"
            return ob
    if r == "unsat":
        ob.verdict, ob.backend = "discharged", "z3"
        if both and use_cvc5:
            r2, dt2, why = run_cvc5(ob)
            ob.time += dt2
            if r2 == "sat":
                ob.verdict, ob.reason = "disagree", "z3 unsat / cvc5 sat"
        return ob
    ob.verdict, ob.backend, ob.model = "refuted", "z3", model
    return ob
