"""Verification framework for ascmitc/mhl (see /verif/DESIGN.md)."""
import os

REPO = os.environ.get("VERIF_REPO", "/repo")
VERIF = os.path.dirname(os.path.dirname(os.path.abspath(__file__)))
