"""Calls: contracts (modular), inlining of small helpers, constructors, closures, library stubs, spec functions."""
import ast

import z3

from .state import *  # noqa
from .vals import *  # noqa
from .expr import DeadPath

MAX_INLINE = 5


class CallMixin:
    BUILTINS = {
        "len", "str", "int", "sorted", "isinstance", "type", "hasattr", "set", "list", "dict", "all", "any",
        "min", "max", "repr", "divmod", "open", "bool", "iter", "tuple", "super", "print", "getattr", "old", "implies",
    }
    LIB = {}
    LIB_ALIASES = {}
    LIB_CONSTS = {}
    DROPPED_CALLS = {("logger", "verbose"), ("logger", "debug")}

    def ev_Call(self, e, st):
        f = e.func
        # dropped calls: arguments are not evaluated either
        if isinstance(f, ast.Attribute) and isinstance(f.value, ast.Name) and (f.value.id, f.attr) in self.DROPPED_CALLS:
            return VNone()
        # quantifiers and old() need unevaluated arguments
        if isinstance(f, ast.Name) and f.id not in st.locals:
            if f.id in ("all", "any") and len(e.args) == 1 and isinstance(e.args[0], ast.GeneratorExp):
                return self.quantifier(e.args[0], st, f.id == "all")
            if f.id == "old" and self.in_spec:
                o = self.spec_old
                tmp = o.copy()
                # bound variables of enclosing quantifiers / loop ghosts stay visible inside old()
                for k, v in st.locals.items():
                    if k not in tmp.locals:
                        tmp.locals[k] = v
                return self.eval(e.args[0], tmp)
            if f.id == "implies" and self.in_spec:
                a = truthy(self.eval(e.args[0], st))
                st.guards.append(a)
                try:
                    b = truthy(self.eval(e.args[1], st))
                finally:
                    st.guards.pop()
                return VBool(z3.Implies(a, b))
            if self.in_spec and f.id in self.reg.lemmas:
                lm = self.reg.lemmas[f.id]
                args = [self.eval(a, st) for a in e.args]
                tmp = st.copy()
                tmp.locals = dict(st.locals)
                for (pn, pt), av in zip(lm.params.items(), args):
                    tmp.locals[pn] = coerce(av, parse_type(pt), f"lemma argument {pn}")
                hy = [truthy(self.eval(ast.parse(r, mode="eval").body, tmp)) for r in lm.requires]
                cs = [truthy(self.eval(ast.parse(r, mode="eval").body, tmp)) for r in lm.ensures]
                self.assumed_lemmas.add(lm.name)
                return VBool(z3.Implies(z3.And(hy) if hy else z3.BoolVal(True), z3.And(cs)))
            if f.id == "sorted" and e.keywords:
                return self.lib_sorted(e, st)
        if isinstance(f, ast.Attribute) and f.attr == "sort" and e.keywords:
            return self.lib_sort_method(e, st)
        fv = self.eval(f, st)
        args = []
        for a in e.args:
            if isinstance(a, ast.Starred):
                raise Unsupported("*args in call")
            args.append(self.eval(a, st))
        kwargs = {}
        for kw in e.keywords:
            if kw.arg is None:
                raise Unsupported("**kwargs in call")
            kwargs[kw.arg] = self.eval(kw.value, st)
        return self.call_value(fv, args, kwargs, st, e)

    def call_value(self, fv, args, kwargs, st, node):
        if isinstance(fv, VFunc):
            if fv.kind == "spec":
                return self.specs.call(fv.target, args, st=st, ex=self)
            if fv.kind == "lib":
                return self.call_lib(fv, args, kwargs, st, node)
            if fv.kind == "repo":
                a = list(args)
                if fv.self_val is not None:
                    a = [fv.self_val] + a
                return self.call_repo(fv.target, a, kwargs, st, node)
            if fv.kind == "closure":
                return self.call_closure(fv.target, args, kwargs, st, node)
            raise Unsupported(f"call of {fv.kind}")
        if isinstance(fv, VClass):
            return self.construct(fv, args, kwargs, st, node)
        if isinstance(fv, VOpaque) and fv.name == "typing":
            return VNone()
        if isinstance(fv, VModule) and (fv.name == "lxml.builder.E" or fv.name.startswith("lxml.builder.E.")):
            return self.make_element(fv, args, kwargs, st, node)
        raise Unsupported(f"call of non-function {getattr(fv,'ty',type(fv).__name__)} at line {node.lineno}: {ast.unparse(node)[:60]}")

    # ------------------------------------------------------------------ library
    def call_lib(self, fv, args, kwargs, st, node):
        name = fv.target
        if name.startswith("method:"):
            meth = name[7:]
            h = self.LIB.get(f"{type(fv.self_val).__name__}.{meth}")
            if h is None:
                raise Unsupported(f"method {meth} of {fv.self_val.ty} at line {node.lineno}")
            return h(self, st, fv.self_val, args, kwargs, node)
        if name.startswith("exc:"):
            return VOpaque("exc", z3.IntVal(self.specs.exception_codes[name[4:]]))
        if name.startswith("namedtuple:"):
            t = VTuple(args)
            t.fields = self.specs.namedtuples[name.split(":")[1]]
            return t
        h = self.LIB.get(name)
        if h is None:
            raise Unsupported(f"library function {name} at line {node.lineno}")
        if fv.self_val is not None:
            return h(self, st, fv.self_val, args, kwargs, node)
        return h(self, st, args, kwargs, node)

    def make_element(self, fv, args, kwargs, st, node):
        """lxml.builder.E.tag(*children_or_text, **attributes) / E(tag, ...): a new element of the infoset model
        (assumed contract of lxml.builder: string arguments become the text, element arguments are appended in order,
        keyword arguments become attributes)"""
        self.assumed.add("library: lxml.builder.E builds an element with the given tag, text, attributes (keyword arguments) and children in argument order")
        args = list(args)
        if fv.name == "lxml.builder.E":
            tag = args.pop(0)
        else:
            tag = VStr(fv.name.rsplit(".", 1)[1])
        el = st.new_ref("Element")
        st.set_field(el.e, "Element.tag", TStr(), tag)
        text = VNone()
        children = default_value(TList(TRef("Element")))
        for a in args:
            if isinstance(a, VOpt):
                a = self.unopt(a, st, node)
            if isinstance(a, VStr):
                if not isinstance(text, VNone):
                    raise Unsupported("several text arguments to E")
                text = a
            elif isinstance(a, VRef) and a.cls == "Element":
                children = self.list_append(children, a)
            else:
                raise Unsupported(f"argument of type {a.ty} to lxml.builder.E")
        st.set_field(el.e, "Element.text", TOpt(TStr()), text)
        st.set_field(el.e, "Element.children", TList(TRef("Element")), children)
        attrib = empty_dict(TDict(TStr(), TStr()))
        for k, v in kwargs.items():
            if isinstance(v, VOpt):
                v = self.unopt(v, st, node)
            attrib = self.dict_set(attrib, VStr(k), v, st)
        st.set_field(el.e, "Element.attrib", TDict(TStr(), TStr()), attrib)
        return el

    def lib_sorted(self, e, st):
        """sorted(list_of_objects, key=lambda x: x.attr): a permutation of the list, ascending in the key (assumed library fact)"""
        kw = {k.arg: k.value for k in e.keywords}
        key = kw.get("key")
        lst = self.eval(e.args[0], st)
        if not (isinstance(lst, VList) and isinstance(key, ast.Lambda) and len(key.args.args) == 1):
            raise Unsupported("sorted(..., key=...) of this shape")
        self.assumed.add("library: sorted(l, key=f) returns a permutation of l that is ascending in f (stable)")
        res = z3.Const(fresh_name("sorted"), lst.e.sort())
        n = z3.Length(lst.e)
        perm = z3.Function(fresh_name("perm"), z3.IntSort(), z3.IntSort())
        inv = z3.Function(fresh_name("perminv"), z3.IntSort(), z3.IntSort())
        a, b = z3.Ints(fresh_name("a") + " " + fresh_name("b"))

        def keyof(elem_e, s_):
            tmp = s_.copy()
            tmp.locals = dict(s_.locals)
            tmp.locals[key.args.args[0].arg] = elem_value(lst.elem_ty, elem_e)
            saved = self.in_spec
            self.in_spec += 1
            try:
                v = self.eval(key.body, tmp)
            finally:
                self.in_spec = saved
            return flat(v)[0]

        ka, kb = keyof(res[a], st), keyof(res[b], st)
        st.assume(z3.Length(res) == n)
        st.assume(z3.ForAll([a], z3.Implies(z3.And(0 <= a, a < n), z3.And(0 <= perm(a), perm(a) < n, res[a] == lst.e[perm(a)], inv(perm(a)) == a))))
        st.assume(z3.ForAll([a], z3.Implies(z3.And(0 <= a, a < n), z3.And(0 <= inv(a), inv(a) < n, perm(inv(a)) == a))))
        if ka.sort() == z3.StringSort():
            st.assume(z3.ForAll([a, b], z3.Implies(z3.And(0 <= a, a < b, b < n), ka <= kb)))
        else:
            st.assume(z3.ForAll([a, b], z3.Implies(z3.And(0 <= a, a < b, b < n), ka <= kb)))
        return VList(lst.elem_ty, res)

    def lib_sort_method(self, e, st):
        raise Unsupported(f"list.sort(key=...) at line {e.lineno}")

    def mutate(self, node, st, newval):
        """write the new value of a list/dict/set back to the lvalue expression it was reached through"""
        target = node.func.value
        self.assign(self.as_store(target), newval, st)

    def as_store(self, t):
        return t

    # ------------------------------------------------------------------ repo functions
    def bind_params(self, fi, args, kwargs, st):
        a = fi.node.args
        names = [x.arg for x in a.posonlyargs + a.args]
        defaults = a.defaults
        env = {}
        if len(args) > len(names):
            raise Unsupported(f"too many positional arguments for {fi.qualname}")
        for n, v in zip(names, args):
            env[n] = v
        for k, v in kwargs.items():
            if k in env:
                raise Unsupported(f"duplicate argument {k}")
            env[k] = v
        nd = len(defaults)
        for i, n in enumerate(names):
            if n not in env:
                di = i - (len(names) - nd)
                if di < 0:
                    raise Unsupported(f"missing argument {n} for {fi.qualname}")
                env[n] = self.eval_default(defaults[di], fi, st)
        for kwn, d in zip(a.kwonlyargs, a.kw_defaults):
            if kwn.arg not in env:
                env[kwn.arg] = self.eval_default(d, fi, st)
        return env

    def eval_default(self, d, fi, st):
        try:
            return self.literal(ast.literal_eval(d))
        except Exception:
            src = ast.unparse(d)
            if src == "MHLIgnoreSpec()":
                return self.specs.default_ignore_spec(self, st)
            raise Unsupported(f"default value {src} of {fi.qualname}")

    def contract_for(self, fi, recv_cls=None):
        return self.reg.get(fi.qualname)

    def call_repo(self, fi, args, kwargs, st, node):
        if fi.qualname in self.LIB:
            return self.LIB[fi.qualname](self, st, args, kwargs, node)
        c = self.contract_for(fi)
        # dynamic dispatch on a receiver whose static class has overriding subclasses
        if fi.cls and args and isinstance(args[0], VRef) and fi.kind in ("method", "property"):
            recv = args[0]
            subs = [s for s in self.repo.subclasses(recv.cls) if fi.node.name in self.repo.classes[s].methods]
            if subs and c is None:
                raise Unsupported(
                    f"dynamic dispatch of {fi.qualname} over {subs} without a contract on the base method"
                )
        if c is not None and (c.start_at or c.stop_at or c.body_of_loop is not None):
            # a region contract speaks about a statement range, not about a call of the whole function
            raise Unsupported(f"call of {fi.qualname}, which only has a region contract")
        if c is not None and not c.inline:
            return self.apply_contract(c, fi, args, kwargs, st, node)
        return self.inline_call(fi, args, kwargs, st, node, c)

    def apply_contract(self, c, fi, args, kwargs, st, node):
        env = self.bind_params(fi, args, kwargs, st)
        # coerce to declared parameter types
        for n, ts in c.params.items():
            if n in env:
                env[n] = self.coerce_checked(st, env[n], parse_type(ts), f"argument {n} of {fi.node.name}@{node.lineno}")
        pre = st.copy()
        pre.locals = dict(env)
        tag = f"call/{fi.qualname.split('.', 1)[1]}@{node.lineno}"
        if c.trusted:
            self.assumed.add(f"trusted contract: {fi.qualname}" + (f" ({c.note})" if c.note else ""))
        for i, r in enumerate(c.requires):
            g = self.eval_spec(r, st, env, pre)
            self.oblige(st, g, f"{tag}/requires[{i}]", kind="precondition", line=node.lineno)
        for exc, cond in c.raises.items():
            g = self.eval_spec(cond, st, env, pre)
            sg = z3.simplify(g)
            if not z3.is_false(sg):
                s_exc = st.copy()
                s_exc.pc.extend(st.guards)
                s_exc.guards = []
                s_exc.pc.append(g)
                self.exc_out.append((s_exc, Outcome("raise", exc=exc, line=node.lineno)))
            if c.raises_iff:
                st.assume(z3.Not(g))
        # frame
        for m in c.modifies or []:
            base, _, f = m.rpartition(".")
            if base == "*":
                for key in list(self.all_field_keys()):
                    if key.split(".")[-1] == f or key == f:
                        st.havoc_field(key, parse_type(self.reg.field_types[key]))
                        self.check_havoc_allowed(st, key, node)
                continue
            b = self.eval_spec_value(base, pre, env, pre)
            if isinstance(b, VRef):
                key, ty = self.field_info(b.cls, f)
                self.check_write(st, b.e, key, node)
                nv = fresh(ty, f"{f}_post")
                st.set_field(b.e, key, ty, nv)
            else:
                raise Unsupported(f"modifies clause {m}")
        if not c.pure:
            a1 = st.alloc
            a2 = z3.Int(fresh_name("alloc"))
            st.pc.append(a2 >= st.alloc)
            st.alloc = a2
            self.assume_new_objects_wf(st, a1, a2)
        if c.logs:
            o2 = z3.Const(fresh_name("out"), st.out.sort())
            st.pc.append(z3.PrefixOf(st.out, o2))
            st.out = o2
        if c.fs_modifies:
            st.fs = z3.Int(fresh_name("fs"))
        rty = parse_type(c.returns) if c.returns else TNone()
        if fi.is_generator:
            rty = parse_type(c.yields)
        res = fresh(rty, f"{fi.node.name}_result")
        self.assume_wellformed(st, res)
        env2 = dict(env)
        env2["result"] = res
        for nm, ty in c.exposes.items():
            xv = fresh(parse_type(ty), f"x_{nm}")
            self.assume_wellformed(st, xv)
            env2["_x_" + nm] = xv
        for g, (gty, _init) in c.ghost_init.items():
            # the callee's ghost variables in their final state: existential for the caller
            gv = fresh(parse_type(gty), f"g_{g}")
            self.assume_wellformed(st, gv)
            env2[g] = gv
        for d in c.defines:
            st.assume(self.eval_spec(d, st, env2, pre))
        for ens in c.ensures:
            if isinstance(ens, tuple):
                ens = ens[0]
            st.assume(self.eval_spec(ens, st, env2, pre))
        # in-place mutation of list arguments is written back to the caller's lvalue
        if c.out_params:
            a = fi.node.args
            names = [x.arg for x in a.posonlyargs + a.args]
            off = 1 if fi.kind in ("method", "classmethod") else 0
            for pn, spec in c.out_params.items():
                val = self.eval_spec_value(spec, st, env2, pre)
                idx = names.index(pn) - off
                argn = None
                if isinstance(node, ast.Call):
                    if 0 <= idx < len(node.args):
                        argn = node.args[idx]
                    for kw in node.keywords:
                        if kw.arg == pn:
                            argn = kw.value
                if argn is not None and isinstance(argn, (ast.Name, ast.Attribute)):
                    self.assign(argn, val, st)
        return res

    def assume_new_objects_wf(self, st, a1, a2):
        """no dangling references: every reference stored in a field of an object that the callee allocated (a1 < r <= a2)
        is an allocated object (<= a2) or None.  True of the real heap at every point; stated for the reference-typed field
        arrays this path has touched so far."""
        r = z3.Int(fresh_name("wfr"))
        j = z3.Int(fresh_name("wfj"))
        new = z3.And(a1 < r, r <= a2)
        keys = set(st.heap) | set(self.entry_heap)
        for key in sorted(keys):
            fld, _, idx = key.rpartition("#")
            ts = self.reg.field_types.get(fld)
            if ts is None:
                continue
            ty = parse_type(ts)
            arr = st.heap.get(key, self.entry_heap.get(key))
            if isinstance(ty, TRef) and idx == "0":
                st.pc.append(z3.ForAll([r], z3.Implies(new, z3.And(arr[r] >= 0, arr[r] <= a2))))
            elif isinstance(ty, TList) and isinstance(ty.elem, TRef) and idx == "0":
                st.pc.append(z3.ForAll([r, j], z3.Implies(z3.And(new, 0 <= j, j < z3.Length(arr[r])), z3.And(arr[r][j] > 0, arr[r][j] <= a2))))

    def check_havoc_allowed(self, st, key, node):
        c = self.cur[1]
        if c.modifies is None:
            return
        f = key.split(".")[-1]
        if not any(m == f"*.{f}" for m in c.modifies):
            self.oblige(st, z3.BoolVal(False), f"frame/*.{f}@{node.lineno}", kind="frame", line=node.lineno)

    inline_loops = None

    def inline_call(self, fi, args, kwargs, st, node, c=None):
        if self.inline_depth >= MAX_INLINE:
            raise Unsupported(f"inline depth exceeded at {fi.qualname}")
        if fi.is_generator:
            raise Unsupported(f"generator {fi.qualname} needs a contract")
        env = self.bind_params(fi, args, kwargs, st)
        saved_locals, saved_guards = st.locals, st.guards
        base_pc = len(st.pc)
        sub = st.copy()
        sub.locals = env
        sub.pc = st.pc + st.guards
        sub.guards = []
        base_len = len(sub.pc)
        saved = (self.loop_ord, self.inline_loops, getattr(self, "inline_mod", None), self.exc_out)
        self.loop_ord = {}
        for k, n in enumerate(self._loops_in_order(fi.node)):
            self.loop_ord[n if isinstance(n, tuple) else id(n)] = k
        self.inline_loops = c.loops if c is not None else {}
        self.inline_mod = (saved[2] or []) + [fi.module]
        self.inline_depth += 1
        self.exc_out = []
        try:
            outs = self.exec_block(fi.node.body, sub)
            inner_exc = self.exc_out
        finally:
            self.inline_depth -= 1
            self.loop_ord, self.inline_loops, self.inline_mod, self.exc_out = saved
        results = []
        for s2, o in outs + inner_exc:
            if o.kind == "dead":
                continue
            if o.kind == "raise":
                s2.locals = dict(saved_locals)
                self.exc_out.append((s2, o))
                continue
            if o.kind in ("break", "continue"):
                raise Unsupported("break/continue escaping inlined function")
            val = o.value if o.kind == "return" and o.value is not None else VNone()
            results.append((s2, val))
        if not results:
            raise DeadPath()
        self.merge_into(st, results, base_len)
        return self._merged_value

    def merge_into(self, st, results, base_len):
        """merge the normal exits of an inlined callee back into the single caller state `st`"""
        if len(results) == 1:
            s2, val = results[0]
            extra = s2.pc[base_len:]
            if st.guards:
                g = z3.And(st.guards)
                st.pc.extend(z3.Implies(g, x) for x in extra)
            else:
                st.pc.extend(extra)
            st.heap, st.alloc, st.out, st.fs = s2.heap, s2.alloc, s2.out, s2.fs
            st.ghost = s2.ghost
            st.weak = list(getattr(s2, "weak", ()))
            self._merged_value = val
            return
        conds = []
        st.weak = sorted({w for s2, _ in results for w in getattr(s2, "weak", ())} | set(getattr(st, "weak", ())))
        for s2, _ in results:
            extra = s2.pc[base_len:]
            conds.append(z3.And(extra) if extra else z3.BoolVal(True))
        st.assume(z3.Or(conds))
        # value
        val = results[-1][1]
        for (s2, v), cnd in zip(reversed(results[:-1]), reversed(conds[:-1])):
            val = self.merge_values(cnd, v, val)
        # heap
        keys = set()
        for s2, _ in results:
            keys.update(s2.heap.keys())
        newheap = {}
        for k in keys:
            cur = None
            for (s2, _), cnd in zip(reversed(results), reversed(conds)):
                arr = s2.heap.get(k)
                if arr is None:
                    arr = st.heap.get(k, self.entry_heap.get(k))
                    if arr is None:
                        # created lazily inside one branch only: it is an entry array
                        arr = self.entry_heap[k]
                cur = arr if cur is None else z3.If(cnd, arr, cur)
            newheap[k] = cur
        alloc = results[-1][0].alloc
        out = results[-1][0].out
        fs = results[-1][0].fs
        for (s2, _), cnd in zip(reversed(results[:-1]), reversed(conds[:-1])):
            alloc = z3.If(cnd, s2.alloc, alloc)
            out = z3.If(cnd, s2.out, out)
            fs = z3.If(cnd, s2.fs, fs)
        st.heap.update(newheap)
        st.alloc, st.out, st.fs = alloc, out, fs
        self._merged_value = val

    def call_closure(self, fnode, args, kwargs, st, node):
        """nested function with access to the enclosing locals (nonlocal): executed in the caller's namespace"""
        names = [a.arg for a in fnode.args.args]
        shadow = {n: st.locals.get(n) for n in names}
        for n, v in zip(names, args):
            st.locals[n] = v
        saved = self.exc_out
        self.exc_out = []
        outs = self.exec_block(fnode.body, st.copy())
        inner = self.exc_out
        self.exc_out = saved + inner
        normal = [(s2, o.value if o.kind == "return" and o.value is not None else VNone()) for s2, o in outs if o.kind in ("normal", "return")]
        if not normal:
            raise DeadPath()
        base_len = len(st.pc)
        # locals of the closure's paths: merge assigned enclosing variables
        if len(normal) == 1:
            s2, val = normal[0]
            st.locals, st.pc, st.heap, st.alloc, st.out = s2.locals, s2.pc, s2.heap, s2.alloc, s2.out
        else:
            conds = [z3.And(s2.pc[base_len:]) if s2.pc[base_len:] else z3.BoolVal(True) for s2, _ in normal]
            allnames = set()
            for s2, _ in normal:
                allnames.update(s2.locals)
            merged = {}
            for nm in allnames:
                cur = None
                for (s2, _), cnd in zip(reversed(normal), reversed(conds)):
                    v = s2.locals.get(nm)
                    if v is None:
                        cur = None
                        break
                    cur = v if cur is None else (cur if v is cur else self.merge_values(cnd, v, cur))
                if cur is not None:
                    merged[nm] = cur
            self.merge_into(st, normal, base_len)
            val = self._merged_value
            st.locals = merged
        for n in names:
            if shadow[n] is None:
                st.locals.pop(n, None)
            else:
                st.locals[n] = shadow[n]
        return val

    # ------------------------------------------------------------------ constructors
    def construct(self, cv, args, kwargs, st, node):
        if cv.name is None:
            return self.construct_symbolic(cv, args, kwargs, st, node)
        name = cv.name
        if name in self.specs.lib_ctors:
            return self.specs.lib_ctors[name](self, st, args, kwargs, node)
        if name in self.specs.exception_codes:
            return VOpaque("exc", z3.IntVal(self.specs.exception_codes[name]))
        ci = self.repo.classes.get(name)
        if ci is None:
            raise Unsupported(f"constructor of unknown class {name}")
        if any(b.split(".")[-1] in ("ClickException", "Exception") for b in ci.bases):
            return VOpaque("exc", z3.IntVal(self.specs.exception_codes[name]))
        obj = st.new_ref(name)
        init = self.repo.find_method(name, "__init__")
        if init is not None:
            self.call_repo(init, [obj] + list(args), kwargs, st, node)
        return obj

    def construct_symbolic(self, cv, args, kwargs, st, node):
        """cls() where cls is a symbolic class object of a known family: uses the family constructor contract"""
        fam = self.specs.class_family(self, cv, st)
        if fam is None:
            raise Unsupported("constructor call on a symbolic class")
        r = z3.Int(fresh_name(f"new_{fam}"))
        st.pc.append(r > st.alloc)
        st.pc.append(r > 0)
        st.alloc = r
        k = "__class__#0"
        arr = st.harr(k, z3.IntSort(), z3.IntSort())
        st.heap[k] = z3.Store(arr, r, cv.e)
        obj = VRef(fam, r, False)
        init = self.repo.find_method(fam, "__init__")
        if init is not None:
            c = self.reg.get(init.qualname)
            if c is None or c.inline:
                raise Unsupported(f"symbolic construction needs a contract on {init.qualname}")
            self.apply_contract(c, init, [obj] + list(args), kwargs, st, node)
        return obj

    def enum_lookup(self, enum_name, key, st, node):
        """HashType[name]: KeyError unless `name` is a member; value is the member's class"""
        ci = self.repo.classes[enum_name]
        members = [(n, v) for n, v in ci.attrs.items() if isinstance(v, ast.Name)]
        if not isinstance(key, VStr):
            key = self.coerce_checked(st, key, TStr(), "enum key")
        is_member = z3.Or([key.e == z3.StringVal(n) for n, _ in members])
        s_exc = st.copy()
        s_exc.pc.extend(st.guards)
        s_exc.guards = []
        s_exc.pc.append(z3.Not(is_member))
        self.exc_out.append((s_exc, Outcome("raise", exc="KeyError", line=node.lineno)))
        st.assume(is_member)
        code = z3.IntVal(0)
        for n, v in reversed(members):
            code = z3.If(key.e == z3.StringVal(n), z3.IntVal(class_code(v.id)), code)
        ev = VOpaque("enum:" + enum_name, code)
        return ev

    # ------------------------------------------------------------------ static frame lookup for loop havoc
    def static_callee_frame(self, call, st, depth=0):
        f = call.func
        cands = []
        if isinstance(f, ast.Name):
            if f.id in st.locals and isinstance(st.locals[f.id], VFunc) and st.locals[f.id].kind == "closure":
                return self.frame_of_body(st.locals[f.id].target.body, st, depth)
            r = self.repo.resolve_name(self.cur_module(), f.id)
            if r and r[0] == "func":
                cands = [r[1]]
            elif r and r[0] == "class":
                init = self.repo.find_method(r[1].name, "__init__")
                cands = [init] if init else []
        elif isinstance(f, ast.Attribute):
            if isinstance(f.value, ast.Name) and f.value.id == "logger" and f.attr in ("info", "error"):
                return [], True
            for ci in self.repo.classes.values():
                if f.attr in ci.methods:
                    cands.append(ci.methods[f.attr])
            for mi in self.repo.modules.values():
                if f.attr in mi.funcs:
                    cands.append(mi.funcs[f.attr])
        mods, logs = [], False
        for fi in cands:
            c = self.reg.get(fi.qualname)
            if c is not None and not c.inline:
                mods.extend(c.modifies or [])
                logs = logs or c.logs
            elif depth < 3:
                m2, l2 = self.frame_of_body(fi.node.body, st, depth + 1)
                mods.extend(m2)
                logs = logs or l2
        return mods, logs

    def frame_of_body(self, body, st, depth):
        mods, logs = [], False
        for s in body:
            for n in ast.walk(s):
                if isinstance(n, ast.Attribute) and isinstance(n.ctx, ast.Store):
                    mods.append("*." + n.attr)
                elif isinstance(n, ast.Call):
                    if isinstance(n.func, ast.Attribute) and n.func.attr in self.MUTATORS and isinstance(n.func.value, ast.Attribute):
                        mods.append("*." + n.func.value.attr)
                    fr = self.static_callee_frame(n, st, depth + 1) if depth < 3 else ([], False)
                    mods.extend(fr[0])
                    logs = logs or fr[1]
        return mods, logs
