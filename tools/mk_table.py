"""Regenerate the table of section A.1 of DESIGN.md (between the TABLE markers) from the evidence files written by the checks."""
import glob
import json
import re

rows = []
tot = dis = 0
for f in sorted(glob.glob("/verif/evidence/C*.json")):
    e = json.load(open(f))
    c = e["coverage"]
    fu = c.get("functions_under_contract", [])
    names = sorted({x["function"].replace("ascmhl.", "") for x in fu})
    short = ", ".join(n.split(".")[-1] if n.count(".") < 2 else ".".join(n.split(".")[-2:]) for n in names[:9]) + (f", ... ({len(names)} in all)" if len(names) > 9 else "")
    be = ", ".join(f"{k} {v}" for k, v in sorted(c.get("by_backend", {}).items(), key=lambda kv: -kv[1]))
    bf = "; ".join(b["function"].replace("ascmhl.", "") for b in c.get("bounded_functions", [])) or "-"
    rows.append(
        f"| {e['property_id']} | {e.get('level')} | {len(names)}: {short} | {c.get('discharged')}/{c.get('obligations')} ({be}) | "
        f"{c.get('solver_time_s')} | {c.get('evaluations', 0)} | {bf} |"
    )
    tot += c.get("obligations", 0)
    dis += c.get("discharged", 0)
head = (
    "| property | level | functions under contract | obligations discharged (by back end) | solver s | bounded evaluations | contracts only bounded |\n"
    "|---|---|---|---|---|---|---|\n"
)
table = head + "\n".join(rows) + f"\n\nSum over the properties (obligations shared by several properties are counted once per property): {dis}/{tot}.\n"
p = "/verif/DESIGN.md"
s = open(p).read()
s2 = re.sub(r"(<!-- TABLE:BEGIN -->\n).*?(<!-- TABLE:END -->)", lambda m: m.group(1) + table + m.group(2), s, flags=re.S)
open(p, "w").write(s2)
print(table)
