"""Development helper: generate the obligations of ONE function once, discharge only those whose name contains a substring,
16 at a time (fork after generation).   usage: python3-vt tools/dev_prove.py <function qualname> [name substring] [--hyps N]"""
import os
import sys
import time

os.environ.setdefault("VERIF_TRY_BOUNDED", "1")
sys.path.insert(0, "/verif")
import multiprocessing as mp  # noqa: E402

import vf.lemmas  # noqa: E402,F401
import vf.libs  # noqa: E402,F401
from vf.prove import load_contracts  # noqa: E402
from vf.pyvc import Exec  # noqa: E402
from vf.smt import discharge  # noqa: E402
from vf.source import Repo  # noqa: E402
from vf.specs import SPEC  # noqa: E402

q = sys.argv[1]
sub = sys.argv[2] if len(sys.argv) > 2 and not sys.argv[2].startswith("--") else ""
reg = load_contracts()
repo = Repo()
t0 = time.time()
ex = Exec(repo, reg, SPEC)
OBS = ex.verify(reg.contracts[q])
sel = [i for i, o in enumerate(OBS) if sub in o.name]
print(f"{len(OBS)} obligations generated in {time.time() - t0:.1f}s, {len(sel)} selected; warnings: {ex.warnings[:3]}", flush=True)


def work(i):
    o = OBS[i]
    discharge(o)
    return i, o.verdict, o.backend, round(o.time, 1), (o.reason or "")[:80]


if __name__ == "__main__":
    ctx = mp.get_context("fork")
    with ctx.Pool(16) as pool:
        res = pool.map(work, sel, chunksize=1)
    bad = 0
    for i, v, b, t, r in res:
        if v != "discharged" or t > 5:
            print(f"  {v:10s} {OBS[i].name}  ({b}, {t}s) trace={OBS[i].trace[-4:]} {r}")
        bad += v != "discharged"
    print(f"{len(res) - bad}/{len(res)} discharged, {time.time() - t0:.0f}s")
