"""Record the obligation count per property from the evidence files of the unchanged tree (run after ./check)."""
import glob
import json

out = {}
for f in sorted(glob.glob("/verif/evidence/*.json")):
    e = json.load(open(f))
    out[e["property_id"]] = {"obligations": e["coverage"].get("obligations", 0), "discharged": e["coverage"].get("discharged", 0)}
json.dump(out, open("/verif/baseline/obligations.json", "w"), indent=1)
print(out)

# number of loops of every function under contract (invariants are attached by loop ordinal)
import sys

sys.path.insert(0, "/verif")
from vf.prove import load_contracts  # noqa: E402
from vf.pyvc import Exec  # noqa: E402
from vf.source import Repo  # noqa: E402

reg = load_contracts()
repo = Repo("/repo")
ex = Exec.__new__(Exec)
loops = {}
for q, c in reg.contracts.items():
    fi = repo.funcs.get(c.target)
    if fi is not None:
        loops[c.target] = len(ex._loops_in_order(fi.node))
json.dump(loops, open("/verif/baseline/loops.json", "w"), indent=1, sort_keys=True)
print(len(loops), "functions with loop counts")

# solver hints: which back end discharged an obligation of a given name on the unchanged tree, and in what time
from vf import prove  # noqa: E402

hints = {}
for r in prove.run():
    for o in r["obligations"]:
        if o["verdict"] != "discharged":
            continue
        name = o["name"].split("[")[0] if o["name"].endswith("]") else o["name"]
        for key in (name, name + "|" + "/".join(o.get("trace") or [])):
            h = hints.setdefault(key, {"backends": [], "max_time": 0.0, "per_backend": {}})
            if o["backend"] not in h["backends"]:
                h["backends"].append(o["backend"])
            h["max_time"] = max(h["max_time"], o["time"])
            h["per_backend"][o["backend"]] = max(h["per_backend"].get(o["backend"], 0.0), o["time"])
hints = {k: v for k, v in hints.items() if v["max_time"] > 0.5 or v["backends"] != ["z3"]}
json.dump(hints, open("/verif/baseline/hints.json", "w"), indent=1, sort_keys=True)
print(len(hints), "solver hints")
