"""Record the obligation count per property from the evidence files of the unchanged tree (run after ./check)."""
import glob
import json

out = {}
for f in sorted(glob.glob("/verif/evidence/*.json")):
    e = json.load(open(f))
    out[e["property_id"]] = {"obligations": e["coverage"].get("obligations", 0), "discharged": e["coverage"].get("discharged", 0)}
json.dump(out, open("/verif/baseline/obligations.json", "w"), indent=1)
print(out)
