"""Record the obligation count per property from the evidence files of the unchanged tree (run after ./check)."""
import glob
import json

out = {}
for f in sorted(glob.glob("/verif/evidence/*.json")):
    e = json.load(open(f))
    out[e["property_id"]] = {"obligations": e["coverage"].get("obligations", 0), "discharged": e["coverage"].get("discharged", 0)}
json.dump(out, open("/verif/baseline/obligations.json", "w"), indent=1)
print(out)

# number of loops of every function under contract (invariants are attached by loop ordinal)
import sys

sys.path.insert(0, "/verif")
from vf.prove import load_contracts  # noqa: E402
from vf.pyvc import Exec  # noqa: E402
from vf.source import Repo  # noqa: E402

reg = load_contracts()
repo = Repo("/repo")
ex = Exec.__new__(Exec)
loops = {}
for q, c in reg.contracts.items():
    fi = repo.funcs.get(q)
    if fi is not None:
        loops[q] = len(ex._loops_in_order(fi.node))
json.dump(loops, open("/verif/baseline/loops.json", "w"), indent=1, sort_keys=True)
print(len(loops), "functions with loop counts")
