"""False-alarm test: run the deductive part (all contracts + all static obligations) against behaviour-preserving
refactorings, each applied in its own scratch worktree of /repo.  Any `refuted` obligation is a false alarm of the
machinery; `unknown`/unsupported ones show how brittle a proof is (they do not fail a check).
usage: python3 tools/run_refacs.py <dir with *.diff> [name-substring]"""
import glob
import os
import subprocess
import sys

VERIF = __import__("os").path.dirname(__import__("os").path.dirname(__import__("os").path.abspath(__file__)))


def one(patch):
    name = os.path.basename(patch)[:-5]
    wt = f"/tmp/refacrun/{name}"
    subprocess.run(["git", "-C", "/repo", "worktree", "remove", "--force", wt], capture_output=True)
    subprocess.run(["rm", "-rf", wt])
    subprocess.run(["git", "-C", "/repo", "worktree", "add", "-q", "--detach", wt, "HEAD"], check=True, capture_output=True)
    try:
        r = subprocess.run(["git", "-C", wt, "apply", "--3way", patch], capture_output=True, text=True)
        if r.returncode:
            return name, "apply-failed", r.stderr[-200:]
        env = dict(os.environ, VERIF_REPO=wt)
        # the contracts of the modules the patch touches (all static obligations are always run)
        import re

        mods = sorted({m.group(1)[:-3].split("/")[-1] for m in re.finditer(r"^\+\+\+ b/(ascmhl/\S+\.py)", open(patch).read(), re.M)})
        only = ["ascmhl." + m + "." for m in mods] + ["ascmhl.cli." + m + "." for m in mods]
        p = subprocess.run(["python3-vt", "-m", "vf.prove", "--only"] + only, cwd=VERIF, env=env, capture_output=True, text=True)
        s = subprocess.run(["python3-vt", "-m", "vf.statics"], cwd=VERIF, env=env, capture_output=True, text=True)
        bad = [l for l in (p.stdout + s.stdout).splitlines() if l.lstrip().startswith(("refuted", "unknown", "ERROR", "UNSUPPORTED", "Traceback")) or "VACUOUS" in l]
        tot = [l for l in p.stdout.splitlines() if l.startswith("TOTAL")]
        return name, (tot[0] if tot else "no-total " + p.stderr[-300:]), bad
    finally:
        subprocess.run(["git", "-C", "/repo", "worktree", "remove", "--force", wt], capture_output=True)
        subprocess.run(["rm", "-rf", wt])


if __name__ == "__main__":
    d = sys.argv[1]
    sub = sys.argv[2] if len(sys.argv) > 2 else ""
    os.makedirs("/tmp/refacrun", exist_ok=True)
    for patch in sorted(glob.glob(os.path.join(d, "*.diff"))):
        if sub not in patch:
            continue
        name, tot, bad = one(patch)
        print(f"== {name}: {tot}", flush=True)
        for b in bad if isinstance(bad, list) else [bad]:
            print("    ", b[:300], flush=True)
    subprocess.run(["git", "-C", "/repo", "worktree", "prune"])
    subprocess.run(["rm", "-rf", "/tmp/refacrun"])
