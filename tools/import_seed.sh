#!/bin/bash
# import_seed.sh <PID> <letter> <agent-worktree>: confirm an independently written property-breaking change in a fresh scratch
# worktree (tests pass with it, demo exits 1 with it and 0 without), store it under seeded/<PID>/, run ./check <PID> on it
set -u
PID=$1; X=$2; SRC=$3
VERIF=$(cd "$(dirname "$0")/.." && pwd)
WT=/tmp/seedimp_${PID}${X}
git -C /repo worktree remove --force $WT 2>/dev/null; rm -rf $WT
git -C /repo worktree add -q --detach $WT HEAD || exit 3
cp $SRC/patch.diff /tmp/seedimp_${PID}${X}.diff; cp $SRC/demo.py /tmp/seedimp_${PID}${X}_demo.py
/venv/bin/python /tmp/seedimp_${PID}${X}_demo.py /repo >/tmp/seedimp_${PID}${X}.pre 2>&1; pre=$?
git -C $WT apply /tmp/seedimp_${PID}${X}.diff || { echo APPLY-FAILED; exit 3; }
t=$(cd $WT && /venv/bin/python -m pytest -q -p no:cacheprovider --timeout=900 2>&1 | tail -1)
/venv/bin/python /tmp/seedimp_${PID}${X}_demo.py $WT >/tmp/seedimp_${PID}${X}.post 2>&1; post=$?
echo "$PID$X pristine_demo_exit=$pre patched_demo_exit=$post tests='$t'"
tail -3 /tmp/seedimp_${PID}${X}.post
if [ $pre = 0 ] && [ $post = 1 ]; then
  mkdir -p $VERIF/seeded/$PID
  cp /tmp/seedimp_${PID}${X}.diff $VERIF/seeded/$PID/patch_$X.diff
  cp /tmp/seedimp_${PID}${X}_demo.py $VERIF/seeded/$PID/demo_$X.py
  (cd $VERIF && VERIF_REPO=$WT VERIF_EVIDENCE_DIR=/tmp/seedimp_ev_${PID}${X} VERIF_REPLAY_DIR=/tmp/seedimp_rp_${PID}${X} ./check $PID --tier quick 2>&1 | grep -v "^WARNING" | tail -8; echo "check exit=${PIPESTATUS[0]}")
fi
git -C /repo worktree remove --force $WT; rm -rf /tmp/seedimp_ev_${PID}${X} /tmp/seedimp_rp_${PID}${X} /tmp/seedimp_${PID}${X}*
