"""Vacuity probe: for every function under contract, are the hypotheses of the last postcondition obligation on each normal exit path satisfiable?
`unsat` = the proof of that path is vacuous (reported, exit 1); `unknown` = z3 cannot build a model of the quantified facts
within the limit (not an error).   usage: python3-vt tools/probe_vacuity.py [substring]"""
import sys
import time

sys.path.insert(0, "/verif")
import z3  # noqa: E402

import vf.lemmas  # noqa: E402,F401
import vf.libs  # noqa: E402,F401
from vf.prove import load_contracts, targets  # noqa: E402
from vf.pyvc import Exec  # noqa: E402
from vf.source import Repo  # noqa: E402
from vf.specs import SPEC  # noqa: E402
from vf.vals import Unsupported  # noqa: E402

reg = load_contracts()
repo = Repo()
sub = sys.argv[1] if len(sys.argv) > 1 else ""
bad = 0
for q, fam in targets(reg, repo):
    if sub not in q or q.startswith("lemma."):
        continue
    ex = Exec(repo, reg, SPEC)
    try:
        obs = ex.verify(reg.contracts[q], fam)
    except Unsupported as e:
        print("unsupported", q, e)
        continue
    last = {}
    for o in obs:
        if o.kind != "ensures":
            continue  # exception exits may be infeasible by design ("this raise is unreachable" is proved by an unsatisfiable path condition)
        last[tuple(o.trace)] = o
    res = []
    for o in last.values():
        s = z3.Solver()
        s.set("timeout", 2000)
        s.add(o.hyps)
        t = time.time()
        r = s.check()
        res.append(str(r))
        if r == z3.unsat:
            bad += 1
            print("VACUOUS", q, fam or "", o.name, o.trace[-4:])
    print(q, fam or "", {k: res.count(k) for k in set(res)})
sys.exit(1 if bad else 0)
