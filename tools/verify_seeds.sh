#!/bin/bash
# verify every seeded change in a scratch worktree: tests pass with the patch, demo fails with it and passes without
set -u
SRC=${1:-/tmp/seed}
WT=/tmp/seedverify
rm -rf $WT; git -C /repo worktree prune; git -C /repo worktree add -q --detach $WT HEAD || exit 1
for d in $SRC/C*; do
  id=$(basename $d)
  for x in a b; do
    p=$d/_seed/patch_$x.diff; [ -f "$p" ] || p=$d/patch_$x.diff
    dm=$(dirname $p)/demo_$x.py
    [ -f "$p" ] || { echo "$id $x MISSING"; continue; }
    cd $WT && git checkout -q -- . && git clean -fdq
    mkdir -p $WT/_seed && sed "s#/tmp/seed/$id#$WT#g" $dm > $WT/_seed/demo_$x.py
    PYTHONPATH=$WT timeout 600 /venv/bin/python _seed/demo_$x.py >/tmp/sv_pre.log 2>&1; pre=$?
    if ! git apply $p 2>/tmp/sv_apply.log; then echo "$id $x APPLY-FAILED"; continue; fi
    t=$(/venv/bin/python -m pytest -q -p no:cacheprovider 2>&1 | tail -1)
    PYTHONPATH=$WT timeout 600 /venv/bin/python _seed/demo_$x.py >/tmp/sv_post.log 2>&1; post=$?
    echo "$id $x pristine_demo_exit=$pre patched_demo_exit=$post tests='$t'"
  done
done
cd / && git -C /repo worktree remove --force $WT
