"""Run the registered checks against the seeded changes (each applied in its own scratch worktree of /repo, never in
/repo itself) and print which check catches which change.   usage: python3 tools/run_seeds.py [C01 C02 ...] [-j N]"""
import json
import os
import subprocess
import sys
from concurrent.futures import ThreadPoolExecutor

VERIF = __import__("os").path.dirname(__import__("os").path.dirname(__import__("os").path.abspath(__file__)))


def one(job):
    pid, x, check_pid = job
    wt = f"/tmp/seedrun/{pid}{x}_{check_pid}"
    subprocess.run(["git", "-C", "/repo", "worktree", "remove", "--force", wt], capture_output=True)
    subprocess.run(["rm", "-rf", wt])
    r = subprocess.run(["git", "-C", "/repo", "worktree", "add", "-q", "--detach", wt, "HEAD"], capture_output=True, text=True)
    if r.returncode:
        return (pid, x, check_pid, "worktree-failed", r.stderr)
    try:
        r = subprocess.run(["git", "-C", wt, "apply", "--3way", f"{VERIF}/seeded/{pid}/patch_{x}.diff"], capture_output=True, text=True)
        if r.returncode:
            r = subprocess.run(["git", "-C", wt, "apply", f"{VERIF}/seeded/{pid}/patch_{x}.diff"], capture_output=True, text=True)
            if r.returncode:
                return (pid, x, check_pid, "apply-failed", r.stderr[-300:])
        env = dict(os.environ)
        env.update({"VERIF_REPO": wt, "VERIF_EVIDENCE_DIR": f"/tmp/seedrun/ev_{pid}{x}", "VERIF_REPLAY_DIR": f"/tmp/seedrun/rp_{pid}{x}"})
        r = subprocess.run([f"{VERIF}/check", check_pid, "--tier", "quick"], cwd=VERIF, env=env, capture_output=True, text=True, timeout=3000)
        lines = [l for l in r.stdout.splitlines() if l.startswith(("VIOLATION", "UNDECIDED", "CHECKER-ERROR", "KNOWN"))]
        what = [l.strip() for l in r.stdout.splitlines() if l.startswith("    ")]
        return (pid, x, check_pid, r.returncode, (lines[:2], what[:2]))
    finally:
        subprocess.run(["git", "-C", "/repo", "worktree", "remove", "--force", wt], capture_output=True)
        subprocess.run(["rm", "-rf", wt])


def main():
    args = [a for a in sys.argv[1:] if not a.startswith("-")]
    j = 4
    if "-j" in sys.argv:
        j = int(sys.argv[sys.argv.index("-j") + 1])
        args = [a for a in args if a != str(j)]
    claimed = [c["property_id"] for c in json.load(open(f"{VERIF}/MANIFEST.json"))["checks"]]
    pids = args or claimed
    variants = os.environ.get("SEED_VARIANTS", "abc")
    jobs = [(p, x, p) for p in pids for x in variants if os.path.exists(f"{VERIF}/seeded/{p}/patch_{x}.diff")]
    os.makedirs("/tmp/seedrun", exist_ok=True)
    with ThreadPoolExecutor(j) as ex:
        for res in ex.map(one, jobs):
            pid, x, cp, code, info = res
            print(f"{pid}{x} check={cp} exit={code} {json.dumps(info)[:400]}", flush=True)
    subprocess.run(["git", "-C", "/repo", "worktree", "prune"])
    subprocess.run(["rm", "-rf", "/tmp/seedrun"])


if __name__ == "__main__":
    main()
