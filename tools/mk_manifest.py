"""Regenerate /verif/MANIFEST.json from vf/props.py (claimed properties) - run with python3-vt."""
import json
import os
import sys

sys.path.insert(0, os.path.dirname(os.path.dirname(os.path.abspath(__file__))))
from vf import props as P  # noqa

ALL = [json.loads(l)["id"] for l in open("/verif/properties.jsonl")]
m = json.load(open("/verif/MANIFEST.json"))
checks = []
for pid in ALL:
    if pid not in P.PROPS or P.PROPS[pid].get("unclaimed"):
        continue
    s = P.PROPS[pid]
    has_bounded = s.get("bounded") and os.path.exists(f"/verif/bounded/{s['bounded']}.py")
    if not (s.get("prover") or s.get("static") or has_bounded):
        continue
    checks.append(
        {
            "property_id": pid,
            "quick_cmd": f"./check {pid} --tier quick",
            "thorough_cmd": f"./check {pid} --tier thorough",
            "evidence_file": f"/verif/evidence/{pid}.json",
            "replay_cmd_template": f"./check {pid} --replay {{path}}",
            "engine": "pyvc",
            "level_claimed": {"category": s["level"], "text": s["explanation"], "design_ref": f"DESIGN.md section 5, {pid}"},
            "level_note": "; ".join(s.get("assumptions", [])) or "see evidence.assumptions",
            "technique": s.get("technique", "contract-based deductive verification: sidecar contracts on the real functions, VCs generated from the AST (vf/pyvc.py), discharged by z3/cvc5"),
        }
    )
m["checks"] = checks
m["not_applicable"] = [
    {"property_id": p, "reason": P.NOT_APPLICABLE.get(p, "check not built yet (work in progress)")} for p in ALL if p not in {c["property_id"] for c in checks}
]
m["engines"] = [
    {
        "name": "pyvc",
        "path": "/verif/vf",
        "serves_properties": [c["property_id"] for c in checks],
        "kind_free_text": "home-made VC generator for Python (ast -> SMT symbolic executor with contracts, loop invariants, frames) + z3/cvc5; "
        "AST-level frame/dominance/crash checker; run-time contract monitors and small-world drivers as bounded stand-in",
    }
]
m["notes"] = "see DESIGN.md; exit codes: 0 held, 1 violation, 2 undecided, 3 checker error"
json.dump(m, open("/verif/MANIFEST.json", "w"), indent=1)
import jsonschema

jsonschema.validate(m, json.load(open("/root/.vp/MANIFEST.schema.json")))
print("manifest ok:", [c["property_id"] for c in checks])
