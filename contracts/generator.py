"""Contracts on ascmhl/generator.py (C04, C08, C18) and the routing function of history.py."""
from vf.contracts import contract, Loop
from contracts.history import MH, no_orig, is_orig, no_first, is_first

contract(
    "ascmhl.history.MHLHistory.find_history_for_path",
    params={"relative_path": "str?"},
    returns="tuple[MHLHistory,str?]",
    pure=True,
    # naming clauses: the routed history / path are functions of (self, path, child-history fields)
    defines=[
        "result[0] == route_h(self, relative_path)",
        "(result[1] is None) == route_p_none(self, relative_path)",
        "result[1] is None or result[1] == route_p(self, relative_path)",
    ],
    requires=[
        "relative_path is not None or len(self.child_histories) == 0",
        "len(self.child_histories) == 0 or (self.asc_mhl_path is not None and self.asc_mhl_path != '')",
    ],
    # ghost: how many times the path has been shortened; the candidate is the k-fold parent of the path
    ghost_init={"k": ("int", "0")},
    ghost_updates={"dir_path = os.path.dirname(dir_path)": [("k", "k + 1")]},
    loops={0: Loop(invariant=["dir_path is not None", "k >= 0 and dir_path == p_dn(relative_path, k)",
                              "all(not (p_dn(relative_path, t) in self.child_history_mappings) for t in range(k))"],
                   lemmas=["L_dn(relative_path, k)"])},
    lemmas={"before: history = self.child_history_mappings[dir_path]": ["L_member(self.child_history_mappings.keys(), dir_path)"]},
    entry_lemmas=["L_dn(relative_path, 0)"],
    ensures=[
        "len(self.child_histories) > 0 or (result[0] == self and result[1] == relative_path)",
        # routing = the registered history of the NEAREST ancestor (the path itself, its folder, that folder's folder, ...)
        # that is registered; this history if none is
        "len(self.child_histories) == 0 or result[0] == self or (k >= 0 and p_dn(relative_path, k) in self.child_history_mappings"
        " and result[0] == self.child_history_mappings[p_dn(relative_path, k)]"
        " and all(not (p_dn(relative_path, t) in self.child_history_mappings) for t in range(k)))",
        "len(self.child_histories) == 0 or result[0] != self or all(not (p_dn(relative_path, t) in self.child_history_mappings) for t in range(k))",
        "len(self.child_histories) == 0 or result[0] != self or any(h == self for h in self.child_history_mappings.values()) or len(p_dn(relative_path, k)) == 0",
    ],
    props=["C08", "C04", "C02"],
)

ROUTE = "route_h(self.root_history, _x_relative_path)"
P = "_x_history_relative_path"
H = "_x_history"

contract(
    "ascmhl.generator.MHLGenerationCreationSession.append_file_hash",
    slices=14,
    params={
        "file_path": "str", "file_size": "int?", "file_modification_date": "datetime?", "hash_format": "str",
        "hash_string": "str", "action": "str?", "hash_date": "datetime?",
    },
    returns="bool",
    exposes={"history": "MHLHistory", "history_relative_path": "str", "hash_entry": "MHLHashEntry", "media_hash": "MHLMediaHash",
             "relative_path": "str?", "existing_hash_entry": "MHLHashEntry?", "original_hash_entry": "MHLHashEntry?"},
    exit_lemmas=[
        f"_x_original_hash_entry is None or old(L_orig_excl({H}, {P}, _x_original_hash_entry))",
        f"_x_original_hash_entry is None or _x_existing_hash_entry is None or old(L_first_excl({H}, {P}, hash_format, _x_existing_hash_entry))",
    ],
    requires=[
        # the session works on the root history's tree: file_path is absolute (folder / -sf mode) or the collection case
        "self.root_history.asc_mhl_path is not None and self.root_history.asc_mhl_path != ''",
        "p_isabs(file_path) or len(self.root_history.child_histories) == 0",
    ],
    modifies=["self.new_hash_lists", "*.media_hashes", "*.media_hashes_path_map", "*.root_media_hash", "*.hash_entries", "*.media_hash"],
    ensures=[
        # routing: the record goes to the history that find_history_for_path selects
        f"{H} == route_h(self.root_history, self.root_history.get_relative_file_path(file_path))",
        # exactly one entry is appended, carrying format and digest unmodified
        "_x_hash_entry.hash_format == hash_format and _x_hash_entry.hash_string == hash_string and fresh(_x_hash_entry)",
        f"self.new_hash_lists[{H}].media_hashes_path_map.get({P}) == _x_media_hash",
        "len(_x_media_hash.hash_entries) >= 1 and _x_media_hash.hash_entries[len(_x_media_hash.hash_entries) - 1] == _x_hash_entry",
        # the judgement (C04): original iff the path was never recorded as original; otherwise against first(H, p, f)
        # (the recorded generations are those of the pre-state: the session's own new lists are not part of them)
        f"action is not None or not old({no_orig(H, P)}) or _x_hash_entry.action == 'original'",
        f"action is not None or old({no_orig(H, P)}) or not old({no_first(H, P, 'hash_format')}) or _x_hash_entry.action == 'new'",
        # (one clause per conjunct: the compared entry IS first(H, p, f); the verdict follows the comparison with it)
        f"action is not None or old({no_orig(H, P)}) or old({no_first(H, P, 'hash_format')}) or"
        f" old({is_first(H, P, 'hash_format', '_x_existing_hash_entry')})",
        f"action is not None or old({no_orig(H, P)}) or old({no_first(H, P, 'hash_format')}) or"
        f" (_x_existing_hash_entry is not None"
        f"  and _x_hash_entry.action == ('verified' if _x_existing_hash_entry.hash_string == hash_string else 'failed'))",
        "action is None or _x_hash_entry.action == action",
        "result == (_x_hash_entry.action != 'failed')",
        # a session on a history without nested histories (e.g. the collection of `flatten`) records into that history,
        # and a relative path is taken as it is
        "len(self.root_history.child_histories) > 0 or _x_history == self.root_history",
        "p_isabs(file_path) or _x_history_relative_path == file_path",
        "len(_x_media_hash.hash_entries) == old(len(_x_media_hash.hash_entries)) + 1 or fresh(_x_media_hash)",
        f"{H} in self.new_hash_lists",
        # the record of the path: the one that was there (its other entries untouched), or a new one holding just this entry
        "fresh(_x_media_hash) or _x_media_hash.hash_entries == old(_x_media_hash.hash_entries) + [_x_hash_entry]",
        f"not ({H} in old(self.new_hash_lists)) or old(self.new_hash_lists[{H}].media_hashes_path_map.get({P})) is None"
        f" or _x_media_hash == old(self.new_hash_lists[{H}].media_hashes_path_map.get({P}))",
        f"not ({H} in old(self.new_hash_lists) and old(self.new_hash_lists[{H}].media_hashes_path_map.get({P})) is not None) or not fresh(_x_media_hash)",
    ],
    logs=True,
    props=["C04", "C18"],
)
