"""Region contract on MHLHistory._update_child_history_mapping up to (not including) the notification of the parent
(C08, C04): after the two loops every direct child is registered under its path relative to this history, and every
entry of a child's own (already transitive) mapping is registered under the joined path - the mapping reaches every
descendant at any depth, which find_history_for_path relies on."""
from vf.contracts import contract, Loop

M = "self.child_history_mappings"
RK = "p_relpath(p_dirname({c}.asc_mhl_path), p_dirname(self.asc_mhl_path))"
CHILD_OK = "{c}.asc_mhl_path is not None and {c}.asc_mhl_path != '' and p_isabs(p_dirname({c}.asc_mhl_path))"
contract(
    "ascmhl.history.MHLHistory._update_child_history_mapping",
    slices=4,
    params={},
    stop_at="if self.parent_history is not None:",
    requires=[
        "self.asc_mhl_path is not None and self.asc_mhl_path != ''",
        "all(" + CHILD_OK.format(c="c") + " for c in self.child_histories)",
        # the tree of histories is a tree: no history is its own child (its mapping is being rebuilt while the children's are read)
        "all(c != self for c in self.child_histories)",
    ],
    modifies=["self.child_history_mappings"],
    ensures=[
        "all(" + RK.format(c="self.child_histories[j]") + f" in {M} for j in range(len(self.child_histories)))",
        "all(p_join(" + RK.format(c="self.child_histories[j]") + f", k) in {M}"
        " for j in range(len(self.child_histories)) for k in self.child_histories[j].child_history_mappings.keys())",
    ],
    loops={
        0: Loop(invariant=[
            "all(" + RK.format(c="_seq[j]") + f" in {M} for j in range(_i))",
            "all(p_join(" + RK.format(c="_seq[j]") + f", k) in {M} for j in range(_i) for k in _seq[j].child_history_mappings.keys())",
            "_seq == self.child_histories",
        ]),
        1: Loop(invariant=[
            "all(" + RK.format(c="_seq0[j]") + f" in {M} for j in range(_i0))",
            "all(p_join(" + RK.format(c="_seq0[j]") + f", k) in {M} for j in range(_i0) for k in _seq0[j].child_history_mappings.keys())",
            "_seq0 == self.child_histories and child_history == _seq0[_i0] and child_history != self",
            "_seq == child_history.child_history_mappings.keys()",
            "relative_child_path == " + RK.format(c="child_history") + f" and relative_child_path in {M}",
            f"all(p_join(relative_child_path, child_history.child_history_mappings.keys()[t]) in {M} for t in range(_i))",
        ]),
    },
    props=["C08", "C04"],
)
