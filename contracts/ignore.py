"""Contracts on ascmhl/ignore.py (C12: patterns only ever accumulate, in order, without duplicates)."""
from vf.contracts import contract, Loop

NODUP = "all({l}[a] != {l}[b] for a in range(len({l})) for b in range(a))"
L = "self._ignore_list"

contract(
    "ascmhl.ignore.default_ignore_list",
    returns="list[str]",
    pure=True,
    ensures=["result == ['.DS_Store', 'ascmhl', 'ascmhl/']"],
    props=["C12"],
)

def IN(x, l):
    """membership as an index existential (usable together with the index-quantified prefix facts)"""
    return f"any({l}[k] == {x} for k in range(len({l})))"


PREFIX = f"len({L}) >= len(old({L})) and all({L}[j] == old({L})[j] for j in range(len(old({L}))))"
APPEND_POST = [
    # the old list is a prefix of the new one, in the same order
    PREFIX,
    # every pattern to append occurs in the result
    f"patterns_to_append is None or all({IN('patterns_to_append[j]', L)} for j in range(len(patterns_to_append)))",
    # nothing else was added
    f"all(j < len(old({L})) or (patterns_to_append is not None and {IN(L + '[j]', 'patterns_to_append')}) for j in range(len({L})))",
    # no duplicates are introduced
    f"not old({NODUP.format(l=L)}) or {NODUP.format(l=L)}",
    # appending a duplicate-free list to the empty list yields exactly that list (same order)
    f"len(old({L})) > 0 or patterns_to_append is None or not ({NODUP.format(l='patterns_to_append')}) or (len({L}) == len(patterns_to_append) and all({L}[j] == patterns_to_append[j] for j in range(len(patterns_to_append))))",
]
contract(
    "ascmhl.ignore.MHLIgnoreSpec._append_patterns_list",
    slices=4,
    params={"patterns_to_append": "list[str]?"},
    modifies=["self._ignore_list"],
    ensures=APPEND_POST,
    loops={
        0: Loop(
            invariant=[
                PREFIX,
                f"all({IN('_seq[j]', L)} for j in range(_i))",
                f"all(j < len(old({L})) or {IN(L + '[j]', '_seq')} for j in range(len({L})))",
                f"not old({NODUP.format(l=L)}) or {NODUP.format(l=L)}",
                f"len(old({L})) > 0 or not ({NODUP.format(l='_seq')}) or (len({L}) == _i and all({L}[j] == _seq[j] for j in range(_i)))",
            ],
            lemmas=[f"L_member({L}, _seq[_i])"],
        )
    },
    props=["C12"],
)

contract(
    "ascmhl.ignore.MHLIgnoreSpec._append_patterns_from_file",
    trusted=True,
    note="reads the pattern file line by line and hands the lines to _append_patterns_list; file reading is not modelled",
    params={"filepath": "str?"},
    modifies=["self._ignore_list"],
    ensures=[PREFIX, f"not old({NODUP.format(l=L)}) or {NODUP.format(l=L)}"],
    props=["C12"],
)

DEFAULTS = "['.DS_Store', 'ascmhl', 'ascmhl/']"
contract(
    "ascmhl.ignore.MHLIgnoreSpec.set_patterns",
    slices=8,
    params={"existing_pattern_list": "list[str]?", "new_pattern_list": "list[str]?", "new_pattern_file": "str?"},
    modifies=["self._ignore_list"],
    ensures=[
        NODUP.format(l=L),
        # a duplicate-free existing list is kept as a prefix in the same order; otherwise the defaults come first
        f"existing_pattern_list is None or len(existing_pattern_list) == 0 or not ({NODUP.format(l='existing_pattern_list')}) or"
        f" (len({L}) >= len(existing_pattern_list) and all({L}[j] == existing_pattern_list[j] for j in range(len(existing_pattern_list))))",
        f"not (existing_pattern_list is None or len(existing_pattern_list) == 0) or"
        f" (len({L}) >= 3 and {L}[0] == '.DS_Store' and {L}[1] == 'ascmhl' and {L}[2] == 'ascmhl/')",
        # every pattern given on the command line is in the result
        f"new_pattern_list is None or all({IN('new_pattern_list[j]', L)} for j in range(len(new_pattern_list)))",
    ],
    props=["C12"],
)
contract(
    "ascmhl.ignore.MHLIgnoreSpec.__init__",
    params={"existing_pattern_list": "list[str]?", "new_pattern_list": "list[str]?", "new_pattern_file": "str?"},
    modifies=["self._ignore_list"],
    ensures=[
        NODUP.format(l=L),
        f"existing_pattern_list is None or len(existing_pattern_list) == 0 or not ({NODUP.format(l='existing_pattern_list')}) or"
        f" (len({L}) >= len(existing_pattern_list) and all({L}[j] == existing_pattern_list[j] for j in range(len(existing_pattern_list))))",
        f"not (existing_pattern_list is None or len(existing_pattern_list) == 0) or"
        f" (len({L}) >= 3 and {L}[0] == '.DS_Store' and {L}[1] == 'ascmhl' and {L}[2] == 'ascmhl/')",
        f"new_pattern_list is None or all({IN('new_pattern_list[j]', L)} for j in range(len(new_pattern_list)))",
    ],
    props=["C12"],
)
contract(
    "ascmhl.ignore.MHLIgnoreSpec.get_pattern_list",
    returns="list[str]",
    pure=True,
    ensures=[f"result == {L}"],
    props=["C12"],
)
