"""Contracts on ascmhl/history.py and ascmhl/hashlist.py (C04, C06, C08, C12, C19)."""
from vf.contracts import contract, Loop

# --- spec macros (expanded into the contract strings) -------------------------------------------------------------
def MH(h, g, p):
    """the record of path p in generation index g of history h (None if absent)"""
    return f"{h}.hash_lists[{g}].media_hashes_path_map.get({p})"


def no_orig_in_gen(h, g, p):
    return f"({MH(h,g,p)} is None or all(e.action != 'original' for e in {MH(h,g,p)}.hash_entries))"


def no_fmt_in_gen(h, g, p, f):
    return f"({MH(h,g,p)} is None or all(e.hash_format != {f} for e in {MH(h,g,p)}.hash_entries))"


def is_orig(h, p, r):
    """r is orig(h, p): the first entry with action 'original' for p, generations in list order"""
    return (
        f"any({MH(h,'g',p)} is not None"
        f" and all({no_orig_in_gen(h,'g2',p)} for g2 in range(g))"
        f" and any({MH(h,'g',p)}.hash_entries[k] == {r} and {r}.action == 'original'"
        f"         and all({MH(h,'g',p)}.hash_entries[j].action != 'original' for j in range(k))"
        f"         for k in range(len({MH(h,'g',p)}.hash_entries)))"
        f" for g in range(len({h}.hash_lists)))"
    )


def no_orig(h, p):
    return f"all({no_orig_in_gen(h,'g',p)} for g in range(len({h}.hash_lists)))"


def is_first(h, p, f, r):
    """r is first(h, p, f): the first entry of format f for p"""
    return (
        f"any({MH(h,'g',p)} is not None"
        f" and all({no_fmt_in_gen(h,'g2',p,f)} for g2 in range(g))"
        f" and any({MH(h,'g',p)}.hash_entries[k] == {r} and {r}.hash_format == {f}"
        f"         and all({MH(h,'g',p)}.hash_entries[j].hash_format != {f} for j in range(k))"
        f"         for k in range(len({MH(h,'g',p)}.hash_entries)))"
        f" for g in range(len({h}.hash_lists)))"
    )


def no_first(h, p, f):
    return f"all({no_fmt_in_gen(h,'g',p,f)} for g in range(len({h}.hash_lists)))"


contract(
    "ascmhl.hashlist.MHLMediaHash.find_hash_entry_for_format",
    params={"hash_format": "str"},
    returns="MHLHashEntry?",
    pure=True,
    ensures=[
        "result is not None or all(e.hash_format != hash_format for e in self.hash_entries)",
        "result is None or any(self.hash_entries[k] == result and result.hash_format == hash_format"
        " and all(self.hash_entries[j].hash_format != hash_format for j in range(k)) for k in range(len(self.hash_entries)))",
    ],
    loops={0: Loop(invariant=["all(self.hash_entries[j].hash_format != hash_format for j in range(_i))"])},
    props=["C04", "C18", "C17"],
)

contract(
    "ascmhl.history.MHLHistory.find_original_hash_entry_for_path",
    params={"relative_path": "str"},
    returns="MHLHashEntry?",
    pure=True,
    ensures=[
        f"result is not None or {no_orig('self', 'relative_path')}",
        f"result is None or {is_orig('self', 'relative_path', 'result')}",
    ],
    loops={
        0: Loop(invariant=[f"all({no_orig_in_gen('self','g','relative_path')} for g in range(_i))"]),
        1: Loop(
            invariant=[
                f"all({no_orig_in_gen('self','g','relative_path')} for g in range(_i0))",
                "all(media_hash.hash_entries[j].action != 'original' for j in range(_i))",
                "media_hash == self.hash_lists[_i0].media_hashes_path_map.get(relative_path)",
                "media_hash is not None",
            ]
        ),
    },
    props=["C04", "C03"],
)

# find_first_hash_entry_for_path: with a format -> first entry of that format; without -> very first entry
contract(
    "ascmhl.history.MHLHistory.find_first_hash_entry_for_path",
    slices=4,
    params={"relative_path": "str", "hash_format": "str?"},
    returns="MHLHashEntry?",
    pure=True,
    ensures=[
        f"hash_format is None or result is not None or {no_first('self', 'relative_path', 'hash_format')}",
        f"hash_format is None or result is None or {is_first('self', 'relative_path', 'hash_format', 'result')}",
        f"hash_format is not None or result is not None or all({MH('self','g','relative_path')} is None or len({MH('self','g','relative_path')}.hash_entries) == 0 for g in range(len(self.hash_lists)))",
        f"hash_format is not None or result is None or any({MH('self','g','relative_path')} is not None and len({MH('self','g','relative_path')}.hash_entries) > 0 and {MH('self','g','relative_path')}.hash_entries[0] == result"
        f" and all({MH('self','g2','relative_path')} is None or len({MH('self','g2','relative_path')}.hash_entries) == 0 for g2 in range(g)) for g in range(len(self.hash_lists)))",
    ],
    loops={
        0: Loop(
            invariant=[
                f"hash_format is None or all({no_fmt_in_gen('self','g','relative_path','hash_format')} for g in range(_i))",
                f"hash_format is not None or all({MH('self','g','relative_path')} is None or len({MH('self','g','relative_path')}.hash_entries) == 0 for g in range(_i))",
            ]
        ),
        1: Loop(
            invariant=[
                f"hash_format is None or all({no_fmt_in_gen('self','g','relative_path','hash_format')} for g in range(_i0))",
                f"hash_format is not None or all({MH('self','g','relative_path')} is None or len({MH('self','g','relative_path')}.hash_entries) == 0 for g in range(_i0))",
                "hash_format is None or all(media_hash.hash_entries[j].hash_format != hash_format for j in range(_i))",
                "hash_format is not None or _i == 0",
                "media_hash == self.hash_lists[_i0].media_hashes_path_map.get(relative_path)",
                "media_hash is not None",
            ]
        ),
    },
    props=["C04", "C17"],
)

# formats ever recorded for a path, in order of first appearance, without duplicates
def recorded_fmt(h, p, f):
    return f"any({MH(h,'g',p)} is not None and any(e.hash_format == {f} for e in {MH(h,'g',p)}.hash_entries) for g in range(len({h}.hash_lists)))"


WIT = ("0 <= wg[a] and wg[a] < {b} and {mh} is not None and 0 <= we[a] and we[a] < len({mh}.hash_entries)"
       " and {mh}.hash_entries[we[a]].hash_format == hash_formats[a]")


def wit(bound):
    return "len(wg) == len(hash_formats) and len(we) == len(hash_formats) and all(" + WIT.format(
        b=bound, mh=MH("self", "wg[a]", "relative_path")
    ) + " for a in range(len(hash_formats)))"


contract(
    "ascmhl.history.MHLHistory.find_existing_hash_formats_for_path",
    slices=4,
    params={"relative_path": "str"},
    returns="list[str]",
    locals={"hash_formats": "list[str]"},
    pure=True,
    # ghost witnesses: for each collected format the generation index and entry index where it was first seen
    ghost_init={"wg": ("list[int]", "hash_formats_none()"), "we": ("list[int]", "hash_formats_none()")},
    ghost_updates={"hash_formats.append(hash_entry.hash_format)": [("wg", "append(wg, _i0)"), ("we", "append(we, _i1)")]},
    lemmas={"before: hash_formats.append(hash_entry.hash_format)": ["L_member(hash_formats, hash_entry.hash_format)"]},
    ensures=[
        # every returned format is recorded for the path (witnessed), every recorded format is returned, no duplicates
        f"all({recorded_fmt('self','relative_path','result[a]')} for a in range(len(result)))",
        f"all({MH('self','g','relative_path')} is None or all(e.hash_format in result for e in {MH('self','g','relative_path')}.hash_entries) for g in range(len(self.hash_lists)))",
        "all(result[a] != result[b] for a in range(len(result)) for b in range(a))",
    ],
    exit_asserts=[wit("len(self.hash_lists)").replace("hash_formats", "result")],
    loops={
        0: Loop(
            invariant=[
                wit("_i"),
                f"all({MH('self','g','relative_path')} is None or all(e.hash_format in hash_formats for e in {MH('self','g','relative_path')}.hash_entries) for g in range(_i))",
                "all(hash_formats[a] != hash_formats[b] for a in range(len(hash_formats)) for b in range(a))",
            ]
        ),
        1: Loop(
            invariant=[
                wit("_i0 + 1"),
                f"all({MH('self','g','relative_path')} is None or all(e.hash_format in hash_formats for e in {MH('self','g','relative_path')}.hash_entries) for g in range(_i0))",
                "all(media_hash.hash_entries[j].hash_format in hash_formats for j in range(_i))",
                "all(hash_formats[a] != hash_formats[b] for a in range(len(hash_formats)) for b in range(a))",
                "media_hash == self.hash_lists[_i0].media_hashes_path_map.get(relative_path)",
                "media_hash is not None",
            ]
        ),
    },
    props=["C04"],
)

contract(
    "ascmhl.history.MHLHistory.latest_generation_number",
    returns="int",
    pure=True,
    requires=[
        # representation invariant, clause 1: generation numbers are 1..n ascending in hash_lists
        "all(self.hash_lists[g].generation_number == g + 1 for g in range(len(self.hash_lists)))",
    ],
    ensures=["result == len(self.hash_lists)"],
    loops={0: Loop(invariant=["latest_number == _i"])},
    props=["C06"],
)

# --- lemmas over the history vocabulary (proved once, in an arbitrary heap) -----------------------------------------
from vf.contracts import lemma

lemma(
    "L_first_excl",
    params={"h": "MHLHistory", "p": "str", "f": "str", "r": "MHLHashEntry"},
    requires=[is_first("h", "p", "f", "r")],
    ensures=[f"not ({no_first('h', 'p', 'f')})"],
    props=["C04"],
)
lemma(
    "L_orig_excl",
    params={"h": "MHLHistory", "p": "str", "r": "MHLHashEntry"},
    requires=[is_orig("h", "p", "r")],
    ensures=[f"not ({no_orig('h', 'p')})"],
    props=["C04"],
)

# --- _validate_new_hash_list (C04): a 'new' entry becomes 'verified' only next to an entry that verified in this generation
def ENT(j, k):
    return f"hash_list.media_hashes[{j}].hash_entries[{k}]"


POST_E = "({e}.action == ('verified' if old({e}.action) == 'new' else old({e}.action)))"
contract(
    "ascmhl.history.MHLHistory._validate_new_hash_list",
    slices=4,
    params={"hash_list": "MHLHashList"},
    returns="bool",
    modifies=["*.action"],
    requires=[
        # ownership: the entries of the new hash list are pairwise distinct objects
        f"all({ENT('j','k')} != {ENT('j2','k2')} for j in range(len(hash_list.media_hashes)) for k in range(len(hash_list.media_hashes[j].hash_entries))"
        f" for j2 in range(len(hash_list.media_hashes)) for k2 in range(len(hash_list.media_hashes[j2].hash_entries)) if j != j2 or k != k2)",
    ],
    raises={
        "AssertionError": f"any(any(old({ENT('j','k')}.action) == 'new' for k in range(len(hash_list.media_hashes[j].hash_entries)))"
        f" and all(old({ENT('j','k')}.action) != 'verified' for k in range(len(hash_list.media_hashes[j].hash_entries))) for j in range(len(hash_list.media_hashes)))",
    },
    ensures=[
        "result == True",
        f"all({POST_E.format(e=ENT('j','k'))} for j in range(len(hash_list.media_hashes)) for k in range(len(hash_list.media_hashes[j].hash_entries)))",
        # every record that had a 'new' entry had a 'verified' one
        f"all(all(old({ENT('j','k')}.action) != 'new' for k in range(len(hash_list.media_hashes[j].hash_entries)))"
        f" or any(old({ENT('j','k')}.action) == 'verified' for k in range(len(hash_list.media_hashes[j].hash_entries))) for j in range(len(hash_list.media_hashes)))",
    ],
    loops={
        0: Loop(invariant=[
            f"all({POST_E.format(e=ENT('j','k'))} for j in range(_i) for k in range(len(hash_list.media_hashes[j].hash_entries)))",
            f"all({ENT('j','k')}.action == old({ENT('j','k')}.action) for j in range(_i, len(hash_list.media_hashes)) for k in range(len(hash_list.media_hashes[j].hash_entries)))",
            f"all(all(old({ENT('j','k')}.action) != 'new' for k in range(len(hash_list.media_hashes[j].hash_entries)))"
            f" or any(old({ENT('j','k')}.action) == 'verified' for k in range(len(hash_list.media_hashes[j].hash_entries))) for j in range(_i))",
        ]),
        1: Loop(invariant=[
            f"all({POST_E.format(e=ENT('j','k'))} for j in range(_i0) for k in range(len(hash_list.media_hashes[j].hash_entries)))",
            f"all({ENT('j','k')}.action == old({ENT('j','k')}.action) for j in range(_i0 + 1, len(hash_list.media_hashes)) for k in range(len(hash_list.media_hashes[j].hash_entries)))",
            f"all({POST_E.format(e=ENT('_i0','k'))} for k in range(_i))",
            f"all({ENT('_i0','k')}.action == old({ENT('_i0','k')}.action) for k in range(_i, len(media_hash.hash_entries)))",
            "media_hash == hash_list.media_hashes[_i0]",
            "_seq == media_hash.hash_entries",
            # the comprehension result: empty iff no entry of this record had action 'verified' at the start of the record
            f"(len(verified_hash_entries) == 0) == all(old({ENT('_i0','k')}.action) != 'verified' for k in range(len(media_hash.hash_entries)))",
            f"all(all(old({ENT('j','k')}.action) != 'new' for k in range(len(hash_list.media_hashes[j].hash_entries)))"
            f" or any(old({ENT('j','k')}.action) == 'verified' for k in range(len(hash_list.media_hashes[j].hash_entries))) for j in range(_i0))",
            f"all(old({ENT('_i0','k')}.action) != 'new' for k in range(_i)) or len(verified_hash_entries) > 0",
        ]),
    },
    locals={"verified_hash_entries": "list[MHLHashEntry]"},
    props=["C04"],
)

# --- numbering and naming of a new generation (C06)
INV1 = "all(self.hash_lists[g].generation_number == g + 1 for g in range(len(self.hash_lists)))"
contract(
    "ascmhl.utils.datetime_now_filename_string",
    trusted=True,
    note="strftime of now(timezone.utc): library glue; that the argument is the UTC clock is a separate obligation on the source (vf/statics.py)",
    returns="str",
    pure=True,
    ensures=["result == utc_filename_stamp()"],
)
contract(
    "ascmhl.history.MHLHistory._new_generation_filename",
    returns="tuple[str,int]",
    pure=True,
    requires=[INV1, "self.asc_mhl_path is not None and self.asc_mhl_path != ''"],
    ensures=[
        "result[1] == len(self.hash_lists) + 1",
        "result[0] == fmt_int('04d', len(self.hash_lists) + 1) + '_' + p_basename(p_normpath(p_dirname(self.asc_mhl_path))) + '_' + utc_filename_stamp() + '.mhl'",
    ],
    props=["C06"],
)
contract(
    "ascmhl.hashlist_xml_parser.write_hash_list",
    trusted=True,
    note="the manifest writer: its file-system effects are covered by the frame / crash obligations (C14, C15), its element builders by "
    "contracts/xmlwriter.py; assumed here: it records the path it wrote to",
    params={"hash_list": "MHLHashList", "file_path": "str"},
    modifies=["hash_list.file_path"],
    fs_modifies=["file_path"],
    ensures=["hash_list.file_path == file_path"],
)
contract(
    "ascmhl.history.MHLHistory.write_new_generation",
    params={"new_hash_list": "MHLHashList"},
    requires=[
        INV1,
        "self.asc_mhl_path is not None and self.asc_mhl_path != ''",
        "new_hash_list.process_info.hashlist_custom_basename is None",
        f"all({ENT('j','k')} != {ENT('j2','k2')} for j in range(len(hash_list.media_hashes)) for k in range(len(hash_list.media_hashes[j].hash_entries))"
        f" for j2 in range(len(hash_list.media_hashes)) for k2 in range(len(hash_list.media_hashes[j2].hash_entries)) if j != j2 or k != k2)".replace("hash_list.", "new_hash_list."),
        "all(new_hash_list != self.hash_lists[g] for g in range(len(self.hash_lists)))",
    ],
    modifies=["*.action", "new_hash_list.generation_number", "new_hash_list.file_path", "self.hash_lists"],
    raises={"AssertionError": "True"},
    ensures=[
        # exactly one generation is appended, numbered one above the highest existing one; the representation invariant is kept
        "self.hash_lists == old(self.hash_lists) + [new_hash_list]",
        "new_hash_list.generation_number == len(old(self.hash_lists)) + 1",
        INV1,
        "new_hash_list.file_path == p_join(self.asc_mhl_path, fmt_int('04d', len(old(self.hash_lists)) + 1) + '_' + p_basename(p_normpath(p_dirname(self.asc_mhl_path))) + '_' + utc_filename_stamp() + '.mhl')",
    ],
    props=["C06"],
)

# --- find_directory_hash_entries_for_path (C09): `verify -dh` compares the directory against the entries this function returns.
# Completeness is what "with respect to all recorded generations" needs: every hash entry of every directory record of the path,
# in EVERY generation, is in the result - and for the root ('.') every root hash entry of every generation as well; nothing is
# dropped by a later generation.  The generation tags only feed the log lines.
def DMH(g):
    return MH("self", g, "relative_path")


def dir_complete(bound, lst):
    return (f"all({DMH('g')} is None or not {DMH('g')}.is_directory or all(e in {lst} for e in {DMH('g')}.hash_entries)"
            f" for g in range({bound}))")


RMH = "self.hash_lists[{g}].process_info.root_media_hash"


def dir_sound(bound, lst, rootbound=None):
    """every element of lst is an entry of a directory record of the path in a generation < bound (or a root hash entry of a generation < rootbound)"""
    r = RMH.format(g="g")
    alt = f" or any({r} is not None and {lst}[a] in {r}.hash_entries for g in range({rootbound}))" if rootbound is not None else ""
    return (f"all(any({DMH('g')} is not None and {DMH('g')}.is_directory and {lst}[a] in {DMH('g')}.hash_entries for g in range({bound})){alt}"
            f" for a in range(len({lst})))")


def root_complete(bound, lst):
    r = RMH.format(g="g")
    return f"all({r} is None or all(e in {lst} for e in {r}.hash_entries) for g in range({bound}))"


contract(
    "ascmhl.history.MHLHistory.find_directory_hash_entries_for_path",
    slices=4,
    params={"relative_path": "str"},
    returns="list[MHLHashEntry]",
    locals={"directory_hash_entries": "list[MHLHashEntry]"},
    modifies=["*.temp_generation_number", "*.temp_is_root_folder"],
    ensures=[
        dir_complete("len(self.hash_lists)", "result"),
        "relative_path != '.' or " + root_complete("len(self.hash_lists)", "result"),
        # soundness: nothing else is returned
        "relative_path == '.' or " + dir_sound("len(self.hash_lists)", "result"),
        "relative_path != '.' or " + dir_sound("len(self.hash_lists)", "result", "len(self.hash_lists)"),
        # file records contribute nothing; with no directory record and no root hash anywhere the result is empty
        f"not (all({DMH('g')} is None or not {DMH('g')}.is_directory for g in range(len(self.hash_lists)))"
        f" and (relative_path != '.' or all({RMH.format(g='g')} is None for g in range(len(self.hash_lists))))) or len(result) == 0",
    ],
    loops={
        0: Loop(invariant=[
            dir_sound("_i", "directory_hash_entries"),
            dir_complete("_i", "directory_hash_entries"),
            f"not all({DMH('g')} is None or not {DMH('g')}.is_directory for g in range(_i)) or len(directory_hash_entries) == 0",
        ]),
        1: Loop(invariant=[
            dir_sound("_i0", "directory_hash_entries"),
            dir_complete("_i0", "directory_hash_entries"),
            f"not all({DMH('g')} is None or not {DMH('g')}.is_directory for g in range(_i0)) or len(directory_hash_entries) == 0",
            "media_hash == self.hash_lists[_i0].media_hashes_path_map.get(relative_path)",
            "media_hash is not None and media_hash.is_directory",
            "hash_list == self.hash_lists[_i0]",
        ]),
        2: Loop(invariant=[
            dir_sound("len(self.hash_lists)", "directory_hash_entries", "_i"),
            dir_complete("len(self.hash_lists)", "directory_hash_entries"),
            root_complete("_i", "directory_hash_entries"),
            f"not (all({DMH('g')} is None or not {DMH('g')}.is_directory for g in range(len(self.hash_lists)))"
            f" and all({RMH.format(g='g')} is None for g in range(_i))) or len(directory_hash_entries) == 0",
        ]),
        3: Loop(invariant=[
            dir_sound("len(self.hash_lists)", "directory_hash_entries", "_i2"),
            dir_complete("len(self.hash_lists)", "directory_hash_entries"),
            root_complete("_i2", "directory_hash_entries"),
            f"not (all({DMH('g')} is None or not {DMH('g')}.is_directory for g in range(len(self.hash_lists)))"
            f" and all({RMH.format(g='g')} is None for g in range(_i2))) or len(directory_hash_entries) == 0",
            "hash_list == self.hash_lists[_i2]",
            "hash_list.process_info.root_media_hash is not None",
        ]),
    },
    props=["C09"],
)
