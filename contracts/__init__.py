"""Sidecar contracts on the real functions of /repo/ascmhl (nothing in /repo is edited)."""
