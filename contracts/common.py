"""Field types of the model classes (read off the class annotations / __init__ bodies in /repo/ascmhl) and of the
ghost library objects."""
from vf.contracts import fields

fields(
    {
        # ghost library objects
        "LibHasher.alg": "str",
        "LibHasher.absorbed": "bytes",
        "File.content": "bytes",
        "File.pos": "int",
        "File.fpath": "str",
        "File.mode": "str",
        # hasher.py
        "Hasher.hasher": "LibHasher",
        "DirectoryHashContext.hash_format": "str",
        "DirectoryHashContext.hasher": "Hasher",
        "DirectoryHashContext.content_hash_strings": "list[str]",
        "DirectoryHashContext.structure_hash_strings": "list[str]",
    }
)
