"""Field types of the model classes (read off the class annotations / __init__ bodies in /repo/ascmhl) and of the
ghost library objects."""
from vf.contracts import fields

fields(
    {
        # ghost library objects
        "LibHasher.alg": "str",
        "LibHasher.absorbed": "bytes",
        "File.content": "bytes",
        "File.pos": "int",
        "File.fpath": "str",
        "File.mode": "str",
        "File.written": "list[Element]",
        "File.raw": "list[str]",
        # hasher.py
        "Hasher.hasher": "LibHasher",
        "DirectoryHashContext.hash_format": "str",
        "DirectoryHashContext.hasher": "Hasher",
        "DirectoryHashContext.content_hash_strings": "list[str]",
        "DirectoryHashContext.structure_hash_strings": "list[str]",
    }
)

fields(
    {
        # history.py
        "MHLHistory.chain": "MHLChain?",
        "MHLHistory.hash_lists": "list[MHLHashList]",
        "MHLHistory.child_histories": "list[MHLHistory]",
        "MHLHistory.child_history_mappings": "dict[str,MHLHistory]",
        "MHLHistory.parent_history": "MHLHistory?",
        "MHLHistory.asc_mhl_path": "str?",
        # chain.py
        "MHLChain.file_path": "str",
        "MHLChain.generations": "list[MHLChainGeneration]",
        "MHLChainGeneration.generation_number": "int",
        # (the reader leaves these None for a <hashlist> without path / digest; tool-written chain files always have both)
        "MHLChainGeneration.ascmhl_filename": "str",
        "MHLChainGeneration.hash_format": "str",
        "MHLChainGeneration.hash_string": "str",
        # hashlist.py
        "MHLHashList.creator_info": "MHLCreatorInfo?",
        "MHLHashList.process_info": "MHLProcessInfo",
        "MHLHashList.media_hashes": "list[MHLMediaHash]",
        "MHLHashList.media_hashes_path_map": "dict[str,MHLMediaHash]",
        "MHLHashList.file_path": "str?",
        "MHLHashList.generation_number": "int?",
        "MHLHashList.referenced_hash_lists": "list[MHLHashList]",
        "MHLHashList.hash_list_references": "list[MHLHashListReference]",
        "MHLMediaHash.hash_entries": "list[MHLHashEntry]",
        "MHLMediaHash.path": "str?",
        "MHLMediaHash.file_size": "int?",
        "MHLMediaHash.last_modification_date": "datetime?",
        "MHLMediaHash.is_directory": "bool",
        "MHLMediaHash.previous_path": "str?",
        "MHLHashEntry.hash_string": "str",
        "MHLHashEntry.structure_hash_string": "str?",
        "MHLHashEntry.hash_format": "str",
        "MHLHashEntry.hash_date": "datetime",
        "MHLHashEntry.action": "str?",
        "MHLHashEntry.media_hash": "MHLMediaHash?",
        "MHLHashEntry.temp_generation_number": "int?",
        "MHLHashEntry.temp_is_root_folder": "bool",
        "MHLHashListReference.path": "str?",
        "MHLHashListReference.reference_hash": "str?",
        "MHLCreatorInfo.host_name": "str?",
        "MHLCreatorInfo.tool": "MHLTool?",
        "MHLCreatorInfo.creation_date": "str?",
        "MHLCreatorInfo.authors": "list[MHLAuthor]",
        "MHLCreatorInfo.location": "str?",
        "MHLCreatorInfo.comment": "str?",
        "MHLProcessInfo.process": "MHLProcess?",
        "MHLProcessInfo.root_media_hash": "MHLMediaHash?",
        "MHLProcessInfo.ignore_spec": "MHLIgnoreSpec?",
        "MHLProcessInfo.hashlist_custom_basename": "str?",
        "MHLTool.name": "str?",
        "MHLTool.version": "str?",
        "MHLProcess.process_type": "str",
        "MHLProcess.name": "str?",
        "MHLAuthor.name": "str?",
        "MHLAuthor.email": "str?",
        "MHLAuthor.phone": "str?",
        "MHLAuthor.role": "str?",
        # ignore.py
        "MHLIgnoreSpec._ignore_list": "list[str]",
        # XML infoset model
        "Element.tag": "str",
        "Element.text": "str?",
        "Element.attrib": "dict[str,str]",
        "Element.children": "list[Element]",
        # cli/update.py
        "Updater.latest_version": "version?",
        "Updater.finished": "bool",
        "Updater.daemon": "bool",
        # generator.py
        "MHLGenerationCreationSession.root_history": "MHLHistory",
        "MHLGenerationCreationSession.new_hash_lists": "defaultdict[MHLHistory,MHLHashList]",
        "MHLGenerationCreationSession.ignore_spec": "MHLIgnoreSpec",
    }
)
