"""Contract on commands.seal_file_path (C04 ordering of judgements, C01 digests handed to the session, C02 one record).

Ghost call log (cf, cd, cs): format, digest and success flag of every session.append_file_hash call, in call order."""
from vf.contracts import contract, Loop

E = "_x_existing_hash_formats"
G = "_x_hash_formats_to_generate"
BYTES = "file_bytes(file_path)"


def IN(x, l):
    # native sequence membership: preserved by z3 across appends (Contains over Concat)
    return f"({x} in {l})"


LOG_OK = (
    "len(cd) == len(cf) and len(cs) == len(cf)"
    f" and all({IN('cf[i]', 'hash_formats_to_generate')} for i in range(len(cf)))"
    " and all(cd[i] == current_hash_lookup[cf[i]] for i in range(len(cf)))"
    f" and all(is_digest_text(cd[i], cf[i], {BYTES}) for i in range(len(cf)))"
)
DIGESTS_OK = f"all(is_digest_text(current_hash_lookup[k], k, {BYTES}) for k in current_hash_lookup.keys())"
GEN_KEYS = (
    "all(hash_formats_to_generate[j] in current_hash_lookup for j in range(len(hash_formats_to_generate)))"
)

contract(
    "ascmhl.commands.seal_file_path",
    slices=16,
    bounded="478 of 498 obligations discharge (all postconditions except the last one, all of loops 0-1, most of loops 2-3); the "
    "preservation of the nested-quantifier ordering invariant of the second judging loop and of the result-dict invariants stays "
    "`unknown` in z3 and cvc5 (the same obligations discharge in under a second on the shorter paths) - the ordering of judgements is "
    "checked by the C04 small-world driver on all format-subset sequences instead",
    params={"existing_history": "MHLHistory", "file_path": "str", "hash_formats": "list[str]", "session": "MHLGenerationCreationSession"},
    returns="dict[str,tuple[str,bool]]",
    locals={"hash_formats_to_generate": "list[str]", "hash_result_lookup": "dict[str,tuple[str,bool]]", "existing_hash_formats": "list[str]",
            "current_hash_lookup": "dict[str,str]"},
    exposes={"existing_hash_formats": "list[str]", "hash_formats_to_generate": "list[str]"},
    ghost_init={"cf": ("list[str]", "empty_strs()"), "cd": ("list[str]", "empty_strs()"), "cs": ("list[bool]", "empty_bools()")},
    ghost_updates={"success &= session.append_file_hash(": [("cf", "append(cf, hash_format)"), ("cd", "append(cd, current_hash_lookup[hash_format])"), ("cs", "append(cs, success)")]},
    lemmas={
        "before: for hash_format in hash_formats_to_generate:": [
            "all(L_member(existing_hash_formats, hash_formats_to_generate[i]) for i in range(len(hash_formats_to_generate)))",
            "all(L_member(hash_formats_to_generate, existing_hash_formats[j]) for j in range(len(existing_hash_formats)))",
            "all(L_member(cf, existing_hash_formats[j]) for j in range(len(existing_hash_formats)))",
        ],
    },
    requires=[
        "len(hash_formats) > 0",
        "all(is_format(f) for f in hash_formats)",
        "existing_history.asc_mhl_path is not None and existing_history.asc_mhl_path != ''",
        "session.root_history == existing_history",
        "p_isabs(file_path)",
        # the history the file is routed to has an ascmhl folder (true for every history object load_from_path builds)
        "not route_p_none(existing_history, existing_history.get_relative_file_path(file_path))",
    ],
    modifies=["*.new_hash_lists", "*.media_hashes", "*.media_hashes_path_map", "*.root_media_hash", "*.hash_entries", "*.media_hash"],
    logs=True,
    ensures=[
        # every digest handed to the session and returned is the standard digest of the file's bytes (C01)
        f"all(is_digest_text(cd[i], cf[i], {BYTES}) for i in range(len(cf)))",
        f"all(is_digest_text(result[k][0], k, {BYTES}) for k in result.keys())",
        # at least one judgement is recorded per sealed file (C02: the file gets a record)
        "len(cf) >= 1",
        # every already recorded format that was requested is judged; if none was requested, the first recorded one is
        f"all(not ({IN(E + '[j]', 'hash_formats')}) or {IN(E + '[j]', 'cf')} for j in range(len({E})))",
        f"len({E}) == 0 or any({IN('cf[i]', E)} for i in range(len(cf)))",
        # a format that is new for the file is appended only after every judgement of a recorded format succeeded (C04)
        f"all({IN('cf[i]', E)} or all(not ({IN('cf[j]', E)}) or cs[j] for j in range(len(cf))) for i in range(len(cf)))",
        f"all({IN('cf[i]', E)} or all(not ({IN('cf[j]', E)}) or j < i for j in range(len(cf))) for i in range(len(cf)))",
        # result: one entry per requested format
        "all(hash_formats[j] in result for j in range(len(hash_formats)))",
    ],
    loops={
        0: Loop(invariant=[f"all({IN('hash_formats_to_generate[j]', 'existing_hash_formats')} and {IN('hash_formats_to_generate[j]', 'hash_formats')} for j in range(len(hash_formats_to_generate)))",
                           f"all(not ({IN('_seq[j]', 'hash_formats')}) or {IN('_seq[j]', 'hash_formats_to_generate')} for j in range(_i))",
                           "all(is_format(f) for f in hash_formats_to_generate)"],
                lemmas=["L_member(hash_formats, _seq[_i])"]),
        1: Loop(invariant=[f"all({IN('hash_formats[j]', 'hash_formats_to_generate')} for j in range(_i))",
                           "all(is_format(f) for f in hash_formats_to_generate)",
                           f"all(not ({IN('existing_hash_formats[j]', 'hash_formats')}) or {IN('existing_hash_formats[j]', 'hash_formats_to_generate')} for j in range(len(existing_hash_formats)))",
                           f"len(existing_hash_formats) == 0 or any({IN('hash_formats_to_generate[i]', 'existing_hash_formats')} for i in range(len(hash_formats_to_generate)))",
                           "_i == 0 or len(hash_formats_to_generate) >= 1"],
                lemmas=["L_member(hash_formats_to_generate, _seq[_i])",
                        "all(L_member(hash_formats_to_generate, existing_hash_formats[j]) for j in range(len(existing_hash_formats)))"]),
        2: Loop(invariant=[LOG_OK, DIGESTS_OK, GEN_KEYS,
                           f"all({IN('cf[i]', 'existing_hash_formats')} for i in range(len(cf)))",
                           f"all(not ({IN('_seq[j]', 'hash_formats_to_generate')}) or {IN('_seq[j]', 'cf')} for j in range(_i))",
                           "not existing_hashes_verified or all(cs[j] for j in range(len(cs)))",
                           "existing_hashes_verified or any(not cs[j] for j in range(len(cs)))",
                           f"all(is_digest_text(hash_result_lookup[k][0], k, {BYTES}) for k in hash_result_lookup.keys())",
                           f"all(not ({IN('_seq[j]', 'hash_formats')} and {IN('_seq[j]', 'hash_formats_to_generate')}) or _seq[j] in hash_result_lookup for j in range(_i))",
                           "_seq == existing_hash_formats"],
                lemmas=["L_member(hash_formats_to_generate, _seq[_i])", "L_member(hash_formats, _seq[_i])",
                        "L_member(current_hash_lookup.keys(), _seq[_i])",
                        "all(L_member(cf, _seq[j]) for j in range(len(_seq)))"]),
        3: Loop(invariant=[LOG_OK, DIGESTS_OK, GEN_KEYS,
                           f"all({IN('cf[i]', 'existing_hash_formats')} or all(not ({IN('cf[j]', 'existing_hash_formats')}) or (cs[j] and j < i) for j in range(len(cf))) for i in range(len(cf)))",
                           f"all(is_digest_text(hash_result_lookup[k][0], k, {BYTES}) for k in hash_result_lookup.keys())",
                           "_seq == hash_formats_to_generate",
                           # judgements of recorded formats all succeeded if the flag still says so; a cleared flag means one was made
                           f"not existing_hashes_verified or all(not ({IN('cf[j]', 'existing_hash_formats')}) or cs[j] for j in range(len(cf)))",
                           "existing_hashes_verified or len(cf) >= 1",
                           f"len(existing_hash_formats) == 0 or (len(cf) >= 1 and {IN('cf[0]', 'existing_hash_formats')})",
                           f"len(cf) >= 1 or all({IN('_seq[j]', 'existing_hash_formats')} for j in range(_i))",
                           # what loop 2 established about the recorded formats survives (cf and the result only grow)
                           f"all(not ({IN('existing_hash_formats[j]', 'hash_formats_to_generate')}) or {IN('existing_hash_formats[j]', 'cf')} for j in range(len(existing_hash_formats)))",
                           f"all(not ({IN('existing_hash_formats[j]', 'hash_formats')} and {IN('existing_hash_formats[j]', 'hash_formats_to_generate')}) or existing_hash_formats[j] in hash_result_lookup for j in range(len(existing_hash_formats)))",
                           f"all(not ({IN('_seq[j]', 'hash_formats')}) or {IN('_seq[j]', 'existing_hash_formats')} or _seq[j] in hash_result_lookup for j in range(_i))",
                           ],
                lemmas=["L_member(existing_hash_formats, _seq[_i])", "L_member(hash_formats, _seq[_i])",
                        "L_member(current_hash_lookup.keys(), _seq[_i])",
                        "all(L_member(cf, existing_hash_formats[j]) for j in range(len(existing_hash_formats)))",
                        "all(L_member(hash_result_lookup.keys(), existing_hash_formats[j]) for j in range(len(existing_hash_formats)))",
                        "all(L_member(hash_result_lookup.keys(), _seq[j]) for j in range(len(_seq)))"]),
    },
    props=["C04", "C01", "C02"],
)
