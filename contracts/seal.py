"""Contract on commands.seal_file_path (C04 ordering of judgements, C01 digests handed to the session, C02 one record).

Ghost call log (cf, cd, cs): format, digest and success flag of every session.append_file_hash call, in call order."""
from vf.contracts import contract, Loop

E = "_x_existing_hash_formats"
G = "_x_hash_formats_to_generate"
BYTES = "file_bytes(file_path)"


def IN(x, l):
    # native sequence membership: preserved by z3 across appends (Contains over Concat)
    return f"({x} in {l})"


LOG_OK = (
    "len(cd) == len(cf) and len(cs) == len(cf)"
    f" and all({IN('cf[i]', 'hash_formats_to_generate')} for i in range(len(cf)))"
    " and all(cd[i] == current_hash_lookup[cf[i]] for i in range(len(cf)))"
)
DIGESTS_OK = f"all(digest_ok(current_hash_lookup[k], k, {BYTES}) for k in current_hash_lookup.keys())"
GEN_KEYS = (
    "all(hash_formats_to_generate[j] in current_hash_lookup for j in range(len(hash_formats_to_generate)))"
)

LOOPS_JUDGE = {
        2: Loop(invariant=[LOG_OK, DIGESTS_OK, GEN_KEYS,
                           f"all({IN('cf[i]', 'existing_hash_formats')} for i in range(len(cf)))",
                           f"all(not ({IN('_seq[j]', 'hash_formats_to_generate')}) or {IN('_seq[j]', 'cf')} for j in range(_i))",
                           "not existing_hashes_verified or all(cs[j] for j in range(len(cs)))",
                           "existing_hashes_verified or any(not cs[j] for j in range(len(cs)))",
                           # the result dict, stated over the formats to generate (select / store reasoning instead of the key sequence):
                           # its keys are formats to generate, and for each of those that is a key the stored digest is the right one
                           f"all({IN('k', 'hash_formats_to_generate')} for k in hash_result_lookup.keys())",
                           f"all(hash_formats_to_generate[j] not in hash_result_lookup or digest_ok(hash_result_lookup[hash_formats_to_generate[j]][0], hash_formats_to_generate[j], {BYTES}) for j in range(len(hash_formats_to_generate)))",
                           f"all(not ({IN('_seq[j]', 'hash_formats')} and {IN('_seq[j]', 'hash_formats_to_generate')}) or _seq[j] in hash_result_lookup for j in range(_i))",
                           "_seq == existing_hash_formats", "nb == len(cf)"],
                lemmas=["L_member(_seq, _seq[_i])", "L_member(hash_formats_to_generate, _seq[_i])", "L_member(hash_formats, _seq[_i])",
                        "L_member(current_hash_lookup.keys(), _seq[_i])",
                        "all(L_member(cf, _seq[j]) for j in range(len(_seq)))"]),
        3: Loop(invariant=[LOG_OK, DIGESTS_OK, GEN_KEYS,
                           # nb = number of judgements of recorded formats (all made by the first loop): they form a prefix of the log
                           "0 <= nb and nb <= len(cf)",
                           f"all({IN('cf[j]', 'existing_hash_formats')} for j in range(nb))",
                           f"all(not ({IN('cf[j]', 'existing_hash_formats')}) for j in range(nb, len(cf)))",
                           "len(cf) == nb or all(cs[j] for j in range(nb))",
                           # the result dict, stated over the formats to generate (select / store reasoning instead of the key sequence):
                           # its keys are formats to generate, and for each of those that is a key the stored digest is the right one
                           f"all({IN('k', 'hash_formats_to_generate')} for k in hash_result_lookup.keys())",
                           f"all(hash_formats_to_generate[j] not in hash_result_lookup or digest_ok(hash_result_lookup[hash_formats_to_generate[j]][0], hash_formats_to_generate[j], {BYTES}) for j in range(len(hash_formats_to_generate)))",
                           "_seq == hash_formats_to_generate",
                           # judgements of recorded formats all succeeded if the flag still says so; a cleared flag means one was made
                           f"not existing_hashes_verified or all(not ({IN('cf[j]', 'existing_hash_formats')}) or cs[j] for j in range(len(cf)))",
                           "existing_hashes_verified or len(cf) >= 1",
                           f"len(existing_hash_formats) == 0 or (len(cf) >= 1 and {IN('cf[0]', 'existing_hash_formats')})",
                           f"len(cf) >= 1 or all({IN('_seq[j]', 'existing_hash_formats')} for j in range(_i))",
                           # what loop 2 established about the recorded formats survives (cf and the result only grow)
                           f"all(not ({IN('existing_hash_formats[j]', 'hash_formats_to_generate')}) or {IN('existing_hash_formats[j]', 'cf')} for j in range(len(existing_hash_formats)))",
                           f"all(not ({IN('existing_hash_formats[j]', 'hash_formats')} and {IN('existing_hash_formats[j]', 'hash_formats_to_generate')}) or existing_hash_formats[j] in hash_result_lookup for j in range(len(existing_hash_formats)))",
                           f"all(not ({IN('_seq[j]', 'hash_formats')}) or {IN('_seq[j]', 'existing_hash_formats')} or _seq[j] in hash_result_lookup for j in range(_i))",
                           ],
                lemmas=["L_member(existing_hash_formats, _seq[_i])", "L_member(hash_formats, _seq[_i])",
                        "L_member(current_hash_lookup.keys(), _seq[_i])",
                        "all(L_member(cf, existing_hash_formats[j]) for j in range(len(existing_hash_formats)))",
                        "all(L_member(hash_result_lookup.keys(), existing_hash_formats[j]) for j in range(len(existing_hash_formats)))",
                        "all(L_member(hash_result_lookup.keys(), _seq[j]) for j in range(len(_seq)))"]),
    }


# =====================================================================================================================
# The function is verified as TWO region contracts: the VCs of each region carry only the facts of that region, which is
# what lets the solvers finish (as one contract 478 of 498 obligations discharged and the rest timed out).
#   plan  : from the start up to (not including) the statement that hashes the file - which formats will be generated
#   judge : from that statement to the end, for ARBITRARY lists E / G that satisfy what `plan` ensures
# Composition: the requires of `judge` about E and G are, clause by clause, the ensures of `plan` (PLAN_FACTS below is
# used for both, with the names substituted), and nothing between the two regions is skipped.
PARAMS = {"existing_history": "MHLHistory", "file_path": "str", "hash_formats": "list[str]", "session": "MHLGenerationCreationSession"}
BASE_REQ = [
    "len(hash_formats) > 0",
    "all(is_format(f) for f in hash_formats)",
    "existing_history.asc_mhl_path is not None and existing_history.asc_mhl_path != ''",
    "session.root_history == existing_history",
    "p_isabs(file_path)",
    "not route_p_none(existing_history, existing_history.get_relative_file_path(file_path))",
]


def plan_facts(E_, G_):
    return [
        f"all(is_format(f) for f in {G_})",
        f"len({G_}) >= 1",
        f"all({IN('hash_formats[j]', G_)} for j in range(len(hash_formats)))",
        f"all(not ({IN(E_ + '[j]', 'hash_formats')}) or {IN(E_ + '[j]', G_)} for j in range(len({E_})))",
        f"len({E_}) == 0 or any({IN(G_ + '[i]', E_)} for i in range(len({G_})))",
    ]


contract(
    "ascmhl.commands.seal_file_path",
    region="plan",
    slices=4,
    params=PARAMS,
    stop_at="current_hash_lookup = multiple_format_hash_file(",
    locals={"hash_formats_to_generate": "list[str]", "existing_hash_formats": "list[str]"},
    exposes={"existing_hash_formats": "list[str]", "hash_formats_to_generate": "list[str]"},
    requires=BASE_REQ,
    ensures=plan_facts(E, G),
    loops={
        0: Loop(invariant=[f"all({IN('hash_formats_to_generate[j]', 'existing_hash_formats')} and {IN('hash_formats_to_generate[j]', 'hash_formats')} for j in range(len(hash_formats_to_generate)))",
                           f"all(not ({IN('_seq[j]', 'hash_formats')}) or {IN('_seq[j]', 'hash_formats_to_generate')} for j in range(_i))",
                           "all(is_format(f) for f in hash_formats_to_generate)"],
                lemmas=["L_member(hash_formats, _seq[_i])"]),
        1: Loop(invariant=[f"all({IN('hash_formats[j]', 'hash_formats_to_generate')} for j in range(_i))",
                           "all(is_format(f) for f in hash_formats_to_generate)",
                           f"all(not ({IN('existing_hash_formats[j]', 'hash_formats')}) or {IN('existing_hash_formats[j]', 'hash_formats_to_generate')} for j in range(len(existing_hash_formats)))",
                           f"len(existing_hash_formats) == 0 or any({IN('hash_formats_to_generate[i]', 'existing_hash_formats')} for i in range(len(hash_formats_to_generate)))",
                           "_i == 0 or len(hash_formats_to_generate) >= 1"],
                lemmas=["L_member(hash_formats_to_generate, _seq[_i])",
                        "all(L_member(hash_formats_to_generate, existing_hash_formats[j]) for j in range(len(existing_hash_formats)))"]),
    },
    props=["C04", "C02"],
)

EL, GL = "existing_hash_formats", "hash_formats_to_generate"
contract(
    "ascmhl.commands.seal_file_path",
    region="judge",
    slices=16,
    bounded="307 or 308 of 308 obligations discharge from run to run (all eight postconditions and all invariant obligations in most runs; "
    "one preservation obligation of the second judging loop sits at the solvers' time limit, and the region needs 2-4 minutes), so it is "
    "kept as a monitored contract and not counted as proved. A z3 mode that discharged everything at once (assert_and_track / unsat cores) "
    "was found UNSOUND on sequence formulas by a deliberately broken body and was removed (DESIGN.md section D). The ordering of judgements "
    "is checked by the C04 small-world driver on all format-subset sequences",
    params=PARAMS,
    start_at="current_hash_lookup = multiple_format_hash_file(",
    returns="dict[str,tuple[str,bool]]",
    locals={"hash_formats_to_generate": "list[str]", "existing_hash_formats": "list[str]", "hash_result_lookup": "dict[str,tuple[str,bool]]",
            "current_hash_lookup": "dict[str,str]", "file_size": "int", "file_modification_date": "datetime", "relative_path": "str"},
    ghost_init={"cf": ("list[str]", "empty_strs()"), "cd": ("list[str]", "empty_strs()"), "cs": ("list[bool]", "empty_bools()"), "nb": ("int", "0")},
    ghost_updates={"success &= session.append_file_hash(": [("cf", "append(cf, hash_format)"), ("cd", "append(cd, current_hash_lookup[hash_format])"), ("cs", "append(cs, success)")],
                   # only the first judging loop has this statement, directly before its append: nb counts its judgements
                   "success = True": [("nb", "len(cf) + 1")]},
    lemmas={
        # the opaque predicate is the standard-digest statement: revealed where the digests come from and where they are returned
        "before: hash_result_lookup = {}": [
            f"all(L_digest_ok(current_hash_lookup[k], k, {BYTES}) for k in current_hash_lookup.keys())",
        ],
        "before: return hash_result_lookup": [
            f"all(L_member({GL}, hash_formats[j]) for j in range(len(hash_formats)))",
            f"all(L_member({EL}, {GL}[k]) for k in range(len({GL})))",
            f"all(L_member({GL}, {GL}[k]) for k in range(len({GL})))",
            "all(L_member(hash_formats, hash_formats[j]) for j in range(len(hash_formats)))",
            f"all(L_digest_ok(current_hash_lookup[k], k, {BYTES}) for k in current_hash_lookup.keys())",
            f"all(L_digest_ok(hash_result_lookup[k][0], k, {BYTES}) for k in hash_result_lookup.keys())",
            f"all(L_member({GL}, k) for k in hash_result_lookup.keys())",
            f"all(L_member({GL}, cf[i]) for i in range(len(cf)))",
            "all(L_member(current_hash_lookup.keys(), cf[i]) for i in range(len(cf)))",
        ],
        "before: for hash_format in hash_formats_to_generate:": [
            f"all(L_member({EL}, {GL}[i]) for i in range(len({GL})))",
            f"all(L_member({GL}, {EL}[j]) for j in range(len({EL})))",
            f"all(L_member(cf, {EL}[j]) for j in range(len({EL})))",
        ],
    },
    requires=BASE_REQ + plan_facts(EL, GL),
    modifies=["*.new_hash_lists", "*.media_hashes", "*.media_hashes_path_map", "*.root_media_hash", "*.hash_entries", "*.media_hash"],
    logs=True,
    ensures=[
        f"all(is_digest_text(cd[i], cf[i], {BYTES}) for i in range(len(cf)))",
        f"all(is_digest_text(result[k][0], k, {BYTES}) for k in result.keys())",
        "len(cf) >= 1",
        f"all(not ({IN(EL + '[j]', 'hash_formats')}) or {IN(EL + '[j]', 'cf')} for j in range(len({EL})))",
        f"len({EL}) == 0 or (len(cf) >= 1 and {IN('cf[0]', EL)})",
        f"all({IN('cf[i]', EL)} or all(not ({IN('cf[j]', EL)}) or cs[j] for j in range(len(cf))) for i in range(len(cf)))",
        f"all({IN('cf[i]', EL)} or all(not ({IN('cf[j]', EL)}) or j < i for j in range(len(cf))) for i in range(len(cf)))",
        "all(hash_formats[j] in result for j in range(len(hash_formats)))",
    ],
    loops=LOOPS_JUDGE,
    props=["C04", "C01", "C02"],
)
