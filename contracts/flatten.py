"""Region contract on ONE iteration of the innermost merge loop of commands.flatten_history (C18): for an arbitrary
recorded entry of an arbitrary record of an arbitrary generation and arbitrary contents of the collection so far.

What the iteration does to the record the collection holds for the entry's path:
  * a failed entry is never copied;
  * an entry is copied (format, digest and action unchanged) exactly if the collection's record has no entry of that
    format yet - so per path and format the EARLIEST entry that did not fail is the one in the packing list, and it is the
    only one of its format;
  * otherwise the record is left as it is."""
from vf.contracts import contract, Loop

C = "collection_history"
P = "media_hash.path"
NL = f"session.new_hash_lists[{C}]"
HASLIST = f"({C} in session.new_hash_lists)"
REC = f"{NL}.media_hashes_path_map.get({P})"
OLDHAS = f"old({HASLIST} and {REC} is not None and any(e.hash_format == hash_entry.hash_format for e in {REC}.hash_entries))"
OLDREC = f"old({HASLIST} and {REC} is not None)"
contract(
    "ascmhl.commands.flatten_history",
    slices=4,
    params={"root_path": "str", "destination_path": "str", "verbose": "bool", "no_directory_hashes": "bool", "author_name": "str?",
            "author_email": "str?", "author_phone": "str?", "author_role": "str?", "location": "str?", "comment": "str?",
            "ignore_list": "list[str]?", "ignore_spec_file": "str?"},
    body_of_loop=2,
    locals={"hash_entry": "MHLHashEntry", "media_hash": "MHLMediaHash", "hash_list": "MHLHashList", "session": "MHLGenerationCreationSession",
            "collection_history": "MHLHistory", "existing_history": "MHLHistory"},
    requires=[
        # the session records into the collection history, which has no nested histories and lives in a folder of its own
        f"session.root_history == {C} and len({C}.child_histories) == 0",
        f"{C}.asc_mhl_path is not None and {C}.asc_mhl_path != ''",
        # record paths in a manifest are relative
        f"{P} is not None and not p_isabs({P})",
        "not media_hash.is_directory",
        # every entry read from a manifest carries its action
        "hash_entry.action is not None",
    ],
    modifies=["*.new_hash_lists", "*.media_hashes", "*.media_hashes_path_map", "*.root_media_hash", "*.hash_entries", "*.media_hash",
              "*.creator_info", "*.process_info", "*.file_path", "*.generation_number", "*.referenced_hash_lists", "*.hash_list_references"],
    logs=True,
    ensures=[
        # a failed entry, or an entry whose format the record already has: the record keeps its entries
        f"not (hash_entry.action == 'failed' or {OLDHAS}) or not {OLDREC} or "
        f"({HASLIST} and {REC} == old({REC}) and {REC}.hash_entries == old({REC}.hash_entries))",
        # otherwise the record of the path (the existing one, else a new one) ends with a copy of exactly this entry
        f"hash_entry.action == 'failed' or {OLDHAS} or ({HASLIST} and {REC} is not None and len({REC}.hash_entries) >= 1"
        f" and {REC}.hash_entries[len({REC}.hash_entries) - 1].hash_format == hash_entry.hash_format"
        f" and {REC}.hash_entries[len({REC}.hash_entries) - 1].hash_string == hash_entry.hash_string"
        f" and {REC}.hash_entries[len({REC}.hash_entries) - 1].action == hash_entry.action)",
        # ... and the entries it had before are all still there, in front of it
        f"hash_entry.action == 'failed' or {OLDHAS} or not {OLDREC} or"
        f" ({REC} == old({REC}) and len({REC}.hash_entries) == old(len({REC}.hash_entries)) + 1"
        f" and all({REC}.hash_entries[j] == old({REC}.hash_entries)[j] for j in range(old(len({REC}.hash_entries)))))",
    ],
    cuts={
        # the record looked up is the collection's record for the path as it was when the iteration began
        "found_media_hash = session.new_hash_lists[collection_history].find_media_hash_for_path(": [
            f"(old({HASLIST}) and found_media_hash == old({REC})) or (not old({HASLIST}) and found_media_hash is None)",
            f"{HASLIST}",
        ],
        "before: if not hashformat_is_already_there:": [
            "hashformat_is_already_there == any(e.hash_format == hash_entry.hash_format for e in found_media_hash.hash_entries)",
        ],
    },
    loops={
        3: Loop(invariant=[
            "hashformat_is_already_there == any(found_media_hash.hash_entries[j].hash_format == hash_entry.hash_format for j in range(_i))",
            "_seq == found_media_hash.hash_entries",
        ]),
    },
    props=["C18"],
)
