"""Contracts on ascmhl/cli/update.py (C20): the main-thread side under the rely condition of the checker thread."""
from vf.contracts import contract

contract(
    "ascmhl.cli.update.Updater.needs_update",
    returns="bool",
    volatile=["Updater.latest_version"],
    # the installed package's own version string is a valid PEP 440 version (assumption about the installation)
    requires=["not version_invalid(ascmhl_tool_version)"],
    # raises nothing (no dereference of None, whatever the interleaving of the one shared write with the reads)
    ensures=["result == True or result == False"],
    pure=True,
    props=["C20"],
)
