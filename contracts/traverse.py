"""Region contract on traverse.post_order_lexicographic (C13 order independence, C02 / C12 exclusion): the computation of the
`children` of one directory, i.e. everything before the recursion.  os.listdir returns the entries in ARBITRARY order."""
from vf.contracts import contract, Loop

REL = "p_relpath(p_join(top, {n}), root if root is not None else top)"
contract(
    "ascmhl.traverse.post_order_lexicographic",
    slices=8,
    params={"top": "str", "ignore_pathspec": "pathspec?", "root": "str?"},
    stop_at="for name, is_dir in children:",
    yields="list[int]",
    locals={"children": "list[tuple[str,bool]]"},
    exposes={"children": "list[tuple[str,bool]]", "names": "list[str]"},
    # ghost witness: for every child collected so far, the index of its name in the sorted listing
    ghost_init={"src": ("list[int]", "hash_formats_none()")},
    ghost_updates={"children.append((name, isdir(path)))": [("src", "append(src, _i0)")]},
    ensures=[
        # every child is an entry of the directory that the patterns (matched RELATIVE TO THE ROOT) do not exclude
        "all(fs_child(top, _x_children[j][0]) for j in range(len(_x_children)))",
        f"all(ignore_pathspec is None or not spec_match(ignore_pathspec, {REL.format(n='_x_children[j][0]')}) for j in range(len(_x_children)))",
        # the children are in strictly ascending name order - whatever order the operating system listed them in
        "all(_x_children[a][0] < _x_children[b][0] for a in range(len(_x_children)) for b in range(a + 1, len(_x_children)))",
        # the directory flag is what the file system says
        "all(_x_children[j][1] == fs_isdir(p_join(top, _x_children[j][0])) for j in range(len(_x_children)))",
        # no listed entry is lost: every name the OS listed is a child unless a pattern matches it
        f"all((ignore_pathspec is not None and spec_match(ignore_pathspec, {REL.format(n='_x_names[i]')})) or any(_x_children[j][0] == _x_names[i] for j in range(len(_x_children))) for i in range(len(_x_names)))",
    ],
    loops={
        0: Loop(invariant=[
            "root is not None",
            "all(fs_child(top, children[j][0]) for j in range(len(children)))",
            f"all(ignore_pathspec is None or not spec_match(ignore_pathspec, {REL.format(n='children[j][0]')}) for j in range(len(children)))",
            "all(children[j][1] == fs_isdir(p_join(top, children[j][0])) for j in range(len(children)))",
            # the children collected so far come from the prefix of the sorted names, so the next name is larger than all of them
            "len(src) == len(children)",
            "all(0 <= src[j] and src[j] < _i and children[j][0] == _seq[src[j]] for j in range(len(children)))",
            "all(src[a] < src[b] for a in range(len(src)) for b in range(a + 1, len(src)))",
            f"all((ignore_pathspec is not None and spec_match(ignore_pathspec, {REL.format(n='_seq[i]')})) or any(children[j][0] == _seq[i] for j in range(len(children))) for i in range(_i))",
            "_seq == names",
            "all(names[a] < names[b] for a in range(len(names)) for b in range(a + 1, len(names)))",
            "all(fs_child(top, names[a]) for a in range(len(names)))",
        ]),
    },
    props=["C13", "C02", "C12"],
)
