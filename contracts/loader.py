"""Contracts on the loading side: MHLHistory.load_from_path (chain-check region), chain_xml_parser.parse (assumed)."""
from vf.contracts import contract, Loop

contract(
    "ascmhl.chain_xml_parser.parse",
    trusted=True,
    note="event-driven lxml reader: bounded (round trip of what write_chain wrote is checked by the C10/C06 drivers); "
    "assumed here: returns the chain object of the file, every entry with file name, a supported format and a digest",
    params={"file_path": "str"},
    returns="MHLChain",
    ensures=[
        "fresh(result)",
        "result.file_path == file_path",
        "all(is_format(g.hash_format) for g in result.generations)",
        "fs_exists(file_path) or len(result.generations) == 0",
    ],
    props=["C05"],
)

ASC = "p_join(root_path, 'ascmhl')"


def MF(g):
    return f"p_join({ASC}, {g}.ascmhl_filename)"


contract(
    "ascmhl.history.MHLHistory.load_from_path",
    params={"root_path": "str"},
    stop_at="hash_lists = []",
    exposes={"history": "MHLHistory"},
    raises={
        "NoMHLChainException": f"fs_isdir({ASC}) and not fs_exists(p_join({ASC}, 'ascmhl_chain.xml'))",
        "ModifiedMHLManifestFileException": "True",
        "MissingMHLManifestException": "True",
    },
    ensures=[
        # the region (everything up to the chain check) completes normally only if the chain file is there when the
        # folder is, and every chained manifest exists and hashes to the recorded digest
        f"not fs_isdir({ASC}) or fs_exists(p_join({ASC}, 'ascmhl_chain.xml'))",
        "_x_history.chain is not None",
        f"all(fs_exists({MF('g')}) and is_digest_text(g.hash_string, g.hash_format, file_bytes({MF('g')})) for g in _x_history.chain.generations)",
    ],
    loops={
        0: Loop(
            invariant=[
                "history.chain is not None and fresh(history) and fresh(history.chain)",
                f"all(fs_exists({MF('_seq[j]')}) and is_digest_text(_seq[j].hash_string, _seq[j].hash_format, file_bytes({MF('_seq[j]')})) for j in range(_i))",
                "_seq == history.chain.generations",
                "all(is_format(g.hash_format) for g in history.chain.generations)",
            ]
        )
    },
    props=["C05"],
)
