"""Region contracts on the exit-decision tails of the command bodies in ascmhl/commands.py (C03, C09) and small helpers.

A region contract starts at a top-level statement of the real function (start_at); the counters computed by the
traversal loop above it are arbitrary values there, so the exit decision is verified for all of them."""
from vf.contracts import contract, Loop

contract(
    "ascmhl.commands.test_for_missing_files",
    trusted=True,
    note="first half (comprehension over a set with a nested closure over pathspec): bounded (C03/C12 drivers); the second half - "
    "None iff no unignored path is left, otherwise the completeness failure and one output line per path - is proved as region "
    "`report`; the whole-function contract stays assumed at call sites",
    params={"not_found_paths": "set[str]", "root_path": "str", "ignore_spec": "MHLIgnoreSpec"},
    returns="opaque:exc?",
    ensures=["result is None or result == exc_code('CompletenessCheckFailedException')"],
    logs=True,
    pure=True,
)

COUNTERS = {"num_failed_verifications": "int", "num_new_files": "int", "found_single_file": "bool", "not_found_paths": "set[str]",
            "ignore_spec": "MHLIgnoreSpec", "single_file": "str?"}
MISSING = "missing_result(root_path)"

# verify: failed (11) > new files (21) > single file not found (20) > missing (10) > success
contract(
    "ascmhl.commands.verify_entire_folder",
    slices=4,
    params={"root_path": "str", "verbose": "bool", "single_file": "str?", "packing_list_path": "str?", "ignore_list": "list[str]?",
            "ignore_spec_file": "str?", "calculate_only": "bool?"},
    start_at="exception = test_for_missing_files(",
    locals=COUNTERS,
    requires=["num_failed_verifications >= 0", "num_new_files >= 0"],
    exposes={"exception": "opaque:exc?"},
    raises={
        "VerificationFailedException": "num_failed_verifications > 0",
        "NewFilesFoundException": "num_failed_verifications == 0 and num_new_files > 0",
        "SingleFileNotFoundException": "num_failed_verifications == 0 and num_new_files == 0 and single_file is not None and not found_single_file",
        "CompletenessCheckFailedException": "num_failed_verifications == 0 and num_new_files == 0 and not (single_file is not None and not found_single_file)",
    },
    ensures=["num_failed_verifications == 0 and num_new_files == 0 and not (single_file is not None and not found_single_file)"],
    logs=True,
    props=["C03"],
)
contract(
    "ascmhl.commands.diff_entire_folder_against_full_history_subcommand",
    params={"root_path": "str", "verbose": "bool", "ignore_list": "list[str]?", "ignore_spec_file": "str?"},
    start_at="exception = test_for_missing_files(",
    locals=COUNTERS,
    requires=["num_failed_verifications == 0", "num_new_files >= 0"],
    raises={
        "CompletenessCheckFailedException": "True",
        "NewFilesFoundException": "num_new_files > 0",
        "VerificationFailedException": "False",
    },
    ensures=["num_new_files == 0"],
    logs=True,
    props=["C03"],
)
contract(
    "ascmhl.commands._compare_and_log_directory_hashes",
    params={"relative_path": "str", "directory_hash_entry": "MHLHashEntry", "calculated_content_hash_string": "str?",
            "calculated_structure_hash_string": "str?"},
    returns="int",
    requires=["directory_hash_entry.temp_generation_number is not None"],
    ensures=[
        "result == 2 or result == 1",
        "(result == 2) == (directory_hash_entry.hash_string == calculated_content_hash_string"
        " and directory_hash_entry.structure_hash_string == calculated_structure_hash_string)",
        # a mismatch is named in the output
        "result == 2 or len(out) > len(old(out))",
    ],
    logs=True,
    props=["C09"],
)

contract(
    "ascmhl.commands.create_for_folder_subcommand",
    params={"root_path": "str", "verbose": "bool", "detect_renaming": "bool", "hash_formats": "list[str]", "no_directory_hashes": "bool",
            "author_name": "str?", "author_email": "str?", "author_phone": "str?", "author_role": "str?", "location": "str?",
            "comment": "str?", "ignore_list": "list[str]?", "ignore_spec_file": "str?"},
    start_at="exception = test_for_missing_files(",
    locals={"num_failed_verifications": "int", "not_found_paths": "set[str]", "ignore_spec": "MHLIgnoreSpec", "missing_asc_mhl_folder": "list[str]"},
    requires=["num_failed_verifications >= 0"],
    raises={
        "VerificationFailedException": "num_failed_verifications > 0",
        "CompletenessCheckFailedException": "num_failed_verifications == 0",
        "NoMHLHistoryException": "num_failed_verifications == 0 and len(missing_asc_mhl_folder) > 0",
    },
    ensures=["num_failed_verifications == 0 and len(missing_asc_mhl_folder) == 0"],
    logs=True,
    props=["C03"],
)

# verify -dh: the exit decision (the statement's exit code 12) for every value of the failure bookkeeping
contract(
    "ascmhl.commands.verify_directory_hash_subcommand",
    params={"root_path": "str", "verbose": "bool", "hash_format": "str?", "ignore_list": "list[str]?", "ignore_spec_file": "str?",
            "calculate_only": "bool", "root_only": "bool"},
    start_at="exception = None",
    locals={"failures_per_format_lookup": "dict[str,int]", "hash_format_list": "list[str]"},
    raises={
        "VerificationDirectoriesFailedException": "len(failures_per_format_lookup.keys()) > 0 and len(failures_per_format_lookup.keys()) == len(hash_format_list)",
    },
    raises_iff=True,
    ensures=["not (len(failures_per_format_lookup.keys()) > 0 and len(failures_per_format_lookup.keys()) == len(hash_format_list))"],
    props=["C09"],
)

# test_for_missing_files, second half (from the emptiness test on; the filter above it - a nested closure over pathspec - stays
# assumed): nothing is reported iff no unignored path is left, otherwise the completeness failure is returned and EVERY
# remaining path is named in the output, one line each after the headline (C03: "each affected path is named")
contract(
    "ascmhl.commands.test_for_missing_files",
    region="report",
    params={"not_found_paths": "list[str]", "root_path": "str", "ignore_spec": "MHLIgnoreSpec"},
    start_at="if len(not_found_paths) == 0:",
    returns="opaque:exc?",
    logs=True,
    ensures=[
        "(result is None) == (len(not_found_paths) == 0)",
        "result is None or result == exc_code('CompletenessCheckFailedException')",
        "all(out[j] == old(out)[j] for j in range(len(old(out))))",
        "len(not_found_paths) != 0 or len(out) == len(old(out))",
        "len(not_found_paths) == 0 or len(out) == len(old(out)) + 1 + len(not_found_paths)",
        "len(not_found_paths) == 0 or all(out[len(old(out)) + 1 + j] == '  ' + p_relpath(not_found_paths[j], root_path) for j in range(len(not_found_paths)))",
    ],
    loops={0: Loop(invariant=[
        "len(out) == len(old(out)) + 1 + _i",
        "all(out[j] == old(out)[j] for j in range(len(old(out))))",
        "all(out[len(old(out)) + 1 + j] == '  ' + p_relpath(not_found_paths[j], root_path) for j in range(_i))",
    ])},
    props=["C03"],
)

# verify -dh: which formats are calculated (region `formats`, from `hash_formats = []` up to the sort).  The exit rule above
# ("every calculated format has a failure") is only as good as this list: it must not hold a format twice (the rule compares the
# number of failing formats with its length) and, without -h, it must hold exactly the formats of the ROOT history's own root
# hashes - a format only a nested history uses has no entry to fail outside that nested folder.
# Proved: no duplicates, non-empty, exactly the -h format when one is given, and completeness without -h.  NOT proved (two
# attempts - nested existential, ghost witness lists - left one obligation each undecided under load): that nothing but the root
# history's own root-hash formats is in the list; that half stays with the bounded C09 driver (nested histories with other formats).
RH = "existing_history.hash_lists[{g}].process_info.root_media_hash"
F = "_x_hash_formats"


def fmt_recorded(f, bound):
    r = RH.format(g="g")
    return f"any({r} is not None and any(e.hash_format == {f} for e in {r}.hash_entries) for g in range({bound}))"


def fmts_complete(lst, bound):
    r = RH.format(g="g")
    return f"all({r} is None or all(e.hash_format in {lst} for e in {r}.hash_entries) for g in range({bound}))"


NODUPF = "all({l}[a] != {l}[b] for a in range(len({l})) for b in range(a))"


def fwit(lst, bound):
    """ghost witnesses: format lst[a] was read from entry we[a] of the root hash of generation index wg[a] < bound"""
    r = RH.format(g="wg[a]")
    return (f"len(wg) == len({lst}) and len(we) == len({lst}) and all(0 <= wg[a] and wg[a] < {bound} and {r} is not None"
            f" and 0 <= we[a] and we[a] < len({r}.hash_entries) and {r}.hash_entries[we[a]].hash_format == {lst}[a] for a in range(len({lst})))")


contract(
    "ascmhl.commands.verify_directory_hash_subcommand",
    region="formats",
    slices=4,
    params={"root_path": "str", "verbose": "bool", "hash_format": "str?", "ignore_list": "list[str]?", "ignore_spec_file": "str?",
            "calculate_only": "bool", "root_only": "bool"},
    start_at="hash_formats = []",
    stop_at="hash_format_list = sorted(hash_formats)",
    locals={"existing_history": "MHLHistory", "hash_formats": "list[str]"},
    exposes={"hash_formats": "list[str]"},
    requires=["all(existing_history.hash_lists[g].generation_number == g + 1 for g in range(len(existing_history.hash_lists)))"],
    logs=True,
    ensures=[
        NODUPF.format(l=F),
        f"len({F}) >= 1",
        f"hash_format is None or (len({F}) == 1 and {F}[0] == hash_format)",
        # without -h: every format of a root hash of the root history is calculated ...
        f"hash_format is not None or {fmts_complete(F, 'len(existing_history.hash_lists)')}",
    ],
    loops={
        0: Loop(invariant=[
            NODUPF.format(l="hash_formats"),
            fmts_complete("hash_formats", "_i"),
            "generation == -1",
        ]),
        1: Loop(invariant=[
            NODUPF.format(l="hash_formats"),
            fmts_complete("hash_formats", "_i0"),
            "all(_seq[j].hash_format in hash_formats for j in range(_i))",
            "hash_list == existing_history.hash_lists[_i0]",
            "hash_list.process_info.root_media_hash is not None and _seq == hash_list.process_info.root_media_hash.hash_entries",
            "generation == -1",
        ]),
    },
    props=["C09"],
)
