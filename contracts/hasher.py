"""Contracts on ascmhl/hasher.py (properties C01, C07)."""
from vf.contracts import contract, Loop

HASHER_OK = "self.hasher.alg == std_alg(fmt_of(self))"

contract(
    "ascmhl.hasher.Hasher.__init__",
    family="Hasher",
    entry_lemmas=["L_class_fmt()"],
    modifies=["self.hasher"],
    ensures=["self.hasher.alg == std_alg(fmt_of(self))", "self.hasher.absorbed == b''", "fresh(self.hasher)", "allocated(self.hasher)"],
    props=["C01", "C07"],
)

contract(
    "ascmhl.hasher.Hasher.update",
    params={"data": "bytes"},
    modifies=["self.hasher.absorbed"],
    ensures=["self.hasher.absorbed == old(self.hasher.absorbed) + data"],
    props=["C01", "C07"],
)

DIGEST_POST = "is_digest_text(result, fmt_of(self), self.hasher.absorbed)"

# abstract method: the contract every implementation must satisfy (behavioural subtyping); body is `pass`
contract(
    "ascmhl.hasher.Hasher.string_digest",
    slices=4,
    trusted=True,
    note="abstract method; implementations HexHasher.string_digest and C4.string_digest are verified against the same clauses",
    returns="str",
    requires=[HASHER_OK],
    ensures=[DIGEST_POST],
    pure=True,
)

contract(
    "ascmhl.hasher.HexHasher.string_digest",
    family="HexHasher",
    entry_lemmas=["L_class_fmt()"],
    returns="str",
    requires=[HASHER_OK],
    ensures=[DIGEST_POST],
    pure=True,
    props=["C01"],
)

contract(
    "ascmhl.hasher.Hasher.hash_data",
    family="Hasher",
    params={"input_data": "bytes"},
    returns="str",
    ensures=["is_digest_text(result, fmt_of(cls), input_data)"],
    props=["C01"],
)

# ---------------------------------------------------------------------------------------------- C4 codec
V512 = "ALG('sha512', self.hasher.absorbed)"

contract(
    "ascmhl.hasher.C4.string_digest",
    entry_lemmas=["L_class_fmt()", f"L_hex({V512}, 64)", f"L_alg_range('sha512', self.hasher.absorbed)", "L_val58_cons('1', '')", "L_pow58(0)"],
    returns="str",
    requires=[HASHER_OK],
    ensures=[DIGEST_POST],
    pure=True,
    loops={
        0: Loop(
            invariant=[
                "hash_value >= 0",
                "ok58(c4_string)",
                "val58(c4_string) >= 0",
                f"{V512} == hash_value * pow58(len(c4_string)) + val58(c4_string)",
                f"len(c4_string) == 0 or pow58(len(c4_string) - 1) <= {V512}",
            ],
            decreases="hash_value",
        )
    },
    lemmas={
        "before: modulo = hash_value % base58": [
            "L_pow58(len(c4_string))",
            "L_mul_ge(hash_value, pow58(len(c4_string)))",
        ],
        "before: c4_string = C4.charset[modulo] + c4_string": [
            "L_alphabet_at(modulo)",
            "L_val58_cons(C4.charset[modulo], c4_string)",
        ],
        "before: c4_string = 'c4' + ": [
            "L_2_512_lt_58_88()",
            "L_pow58_mono(88, len(c4_string) - 1)",
            "L_ones(88 - len(c4_string), c4_string)",
            "L_val58_cons('1', '')",
        ],
    },
    props=["C01"],
)

DEC_POST = "result == dec_digest(fmt_of(cls), hash_string)"
contract(
    "ascmhl.hasher.Hasher.bytes_from_string_digest",
    slices=4,
    trusted=True,
    note="abstract classmethod; implementations HexHasher/C4.bytes_from_string_digest are verified against the same clauses",
    params={"hash_string": "str"},
    returns="bytes",
    requires=["fmt_of(cls) != 'c4' or (len(hash_string) >= 90 and ok58(hash_string[2:90]) and val58(hash_string[2:90]) < 2**512)"],
    ensures=[DEC_POST],
    pure=True,
)
contract(
    "ascmhl.hasher.HexHasher.bytes_from_string_digest",
    family="HexHasher",
    entry_lemmas=["L_class_fmt()"],
    params={"hash_string": "str"},
    returns="bytes",
    ensures=[DEC_POST],
    pure=True,
    props=["C01", "C07"],
)
contract(
    "ascmhl.hasher.C4.bytes_from_string_digest",
    entry_lemmas=["L_class_fmt()", "L_val58_cons('1', '')"],
    params={"hash_string": "str"},
    returns="bytes",
    requires=["len(hash_string) >= 90"],
    ensures=[DEC_POST, "ok58(hash_string[2:90])", "0 <= val58(hash_string[2:90]) < 2**512"],
    raises={
        "ValueError": "not ok58(hash_string[2:90])",
        "OverflowError": "ok58(hash_string[2:90]) and val58(hash_string[2:90]) >= 2**512",
    },
    raises_iff=True,
    pure=True,
    loops={
        0: Loop(
            invariant=[
                "2 <= i <= 90",
                "ok58(hash_string[2:i])",
                "result == val58(hash_string[2:i])",
                "result >= 0",
            ],
            decreases="90 - i",
        )
    },
    lemmas={
        "before: temp = C4.charset.index(hash_string[i])": [
            "L_alphabet_char(hash_string[i])",
            "L_val58_snoc(hash_string[2:i], hash_string[i])",
            "L_val58_cons(hash_string[i], '')",
            "L_ok58_split(hash_string[2:i + 1], hash_string[i + 1:90])",
        ],
    },
    # two identities of string slicing that z3's sequence solver does not find on its own: proved here (cvc5), then used
    cuts={
        "before: temp = C4.charset.index(hash_string[i])": [
            "hash_string[2:i + 1] == hash_string[2:i] + hash_string[i]",
            "hash_string[2:90] == hash_string[2:i + 1] + hash_string[i + 1:90]",
        ],
    },
    props=["C01", "C07"],
)


contract(
    "ascmhl.hasher.Hasher.hash_file",
    family="Hasher",
    params={"filepath": "str"},
    returns="str",
    ensures=["is_digest_text(result, fmt_of(cls), file_bytes(filepath))"],
    loops={
        0: Loop(
            invariant=[
                "hasher.hasher.alg == std_alg(fmt_of(cls))",
                "fresh(hasher.hasher)",
                "fd.content == file_bytes(filepath)",
                "0 <= fd.pos <= len(fd.content)",
                "hasher.hasher.absorbed + chunk == fd.content[:fd.pos]",
                "len(chunk) > 0 or fd.pos == len(fd.content)",
            ],
            decreases="len(fd.content) - fd.pos + len(chunk)",
        )
    },
    props=["C01"],
)

# ---------------------------------------------------------------------------------------------- format table
contract(
    "ascmhl.hasher.new_hasher_for_hash_type",
    entry_lemmas=["L_class_fmt()"],
    params={"hash_format": "str"},
    returns="Hasher",
    raises={"ValueError": "hash_format == ''", "KeyError": "hash_format != '' and not is_format(hash_format)"},
    raises_iff=True,
    ensures=[
        "fmt_of(result) == hash_format",
        "is_hasher_class(class_of(result))",
        "result.hasher.alg == std_alg(hash_format)",
        "result.hasher.absorbed == b''",
        "fresh(result)",
        "fresh(result.hasher)",
        "allocated(result.hasher)",
    ],
    props=["C01", "C07"],
)

VALID_ALL = "all(valid_digest_text(x, fmt_of(cls)) for x in hash_list)"
contract(
    "ascmhl.hasher.Hasher.hash_of_hash_list",
    family="Hasher",
    entry_lemmas=["L_class_fmt()", "L_sorted_perm(hash_list)", "L_cat_dec(fmt_of(cls), hash_list[:0], '')"],
    params={"hash_list": "list[str]"},
    returns="str",
    requires=[VALID_ALL],
    ensures=["is_digest_text(result, fmt_of(cls), cat_dec(fmt_of(cls), sorted_strs(hash_list)))"],
    out_params={"hash_list": "hash_list if len(hash_list) == 0 else sorted_strs(hash_list)"},
    loops={
        0: Loop(
            invariant=[
                "hasher.hasher.alg == std_alg(fmt_of(cls))",
                "fresh(hasher.hasher)",
                "hasher.hasher.absorbed == cat_dec(fmt_of(cls), _seq[:_i])",
            ],
            lemmas=["L_cat_dec(fmt_of(cls), _seq[:_i], _seq[_i])"],
        )
    },
    # identity of list slicing that z3's sequence solver does not find on its own: proved here (cvc5), then used
    cuts={"before: hasher.update(cls.bytes_from_string_digest(hash_string))": ["_seq0[:_i0 + 1] == _seq0[:_i0] + [_seq0[_i0]]"]},
    props=["C07"],
)

contract(
    "ascmhl.hasher.hash_of_hash_list",
    params={"hash_list": "list[str]", "hash_format": "str"},
    returns="str",
    requires=["is_format(hash_format)", "all(valid_digest_text(x, hash_format) for x in hash_list)"],
    ensures=["is_digest_text(result, hash_format, cat_dec(hash_format, sorted_strs(hash_list)))"],
    props=["C07"],
)
contract(
    "ascmhl.hasher.hash_file",
    params={"filepath": "str", "hash_format": "str"},
    returns="str",
    raises={"ValueError": "hash_format == ''", "KeyError": "hash_format != '' and not is_format(hash_format)"},
    raises_iff=True,
    ensures=["is_digest_text(result, hash_format, file_bytes(filepath))"],
    props=["C01"],
)
contract(
    "ascmhl.hasher.hash_data",
    params={"input_data": "bytes", "hash_format": "str"},
    returns="str",
    raises={"ValueError": "hash_format == ''", "KeyError": "hash_format != '' and not is_format(hash_format)"},
    raises_iff=True,
    ensures=["is_digest_text(result, hash_format, input_data)"],
    props=["C01"],
)
contract(
    "ascmhl.hasher.bytes_for_hash_string",
    params={"hash_string": "str", "hash_format": "str"},
    returns="bytes",
    requires=["is_format(hash_format)", "valid_digest_text(hash_string, hash_format)"],
    ensures=["result == dec_digest(hash_format, hash_string)"],
    props=["C01", "C07"],
)

# ---------------------------------------------------------------------------------------------- directory hash context
CTX_OK = "self.hasher.hasher.alg == std_alg(self.hash_format) and fmt_of(self.hasher) == self.hash_format and is_format(self.hash_format)"
contract(
    "ascmhl.hasher.DirectoryHashContext.__init__",
    params={"hash_format": "str"},
    requires=["is_format(hash_format)"],
    modifies=["self.hash_format", "self.hasher", "self.content_hash_strings", "self.structure_hash_strings"],
    ensures=[
        "self.hash_format == hash_format",
        CTX_OK,
        "len(self.content_hash_strings) == 0",
        "len(self.structure_hash_strings) == 0",
    ],
    props=["C07"],
)
NAME = "utf8(p_basename(p_normpath(path)))"
contract(
    "ascmhl.hasher.DirectoryHashContext.append_file_hash",
    params={"path": "str", "content_hash_string": "str"},
    requires=[CTX_OK, "valid_digest_text(content_hash_string, self.hash_format)"],
    modifies=["self.content_hash_strings", "self.structure_hash_strings"],
    ensures=[
        "self.content_hash_strings == old(self.content_hash_strings) + [content_hash_string]",
        "len(self.structure_hash_strings) == len(old(self.structure_hash_strings)) + 1",
        "self.structure_hash_strings[:-1] == old(self.structure_hash_strings)",
        f"is_digest_text(self.structure_hash_strings[-1], self.hash_format, {NAME} + dec_digest(self.hash_format, content_hash_string))",
    ],
    props=["C07"],
)
contract(
    "ascmhl.hasher.DirectoryHashContext.append_directory_hashes",
    params={"path": "str", "content_hash_string": "str", "structure_hash_string": "str"},
    requires=[CTX_OK, "valid_digest_text(structure_hash_string, self.hash_format)"],
    modifies=["self.content_hash_strings", "self.structure_hash_strings"],
    ensures=[
        "self.content_hash_strings == old(self.content_hash_strings) + [content_hash_string]",
        "len(self.structure_hash_strings) == len(old(self.structure_hash_strings)) + 1",
        "self.structure_hash_strings[:-1] == old(self.structure_hash_strings)",
        f"is_digest_text(self.structure_hash_strings[-1], self.hash_format, {NAME} + dec_digest(self.hash_format, structure_hash_string))",
    ],
    props=["C07"],
)
contract(
    "ascmhl.hasher.DirectoryHashContext.final_content_hash_str",
    returns="str",
    requires=[CTX_OK, "all(valid_digest_text(x, self.hash_format) for x in self.content_hash_strings)"],
    modifies=["self.content_hash_strings"],
    ensures=[
        "is_digest_text(result, self.hash_format, cat_dec(self.hash_format, sorted_strs(old(self.content_hash_strings))))"
    ],
    props=["C07"],
)
contract(
    "ascmhl.hasher.DirectoryHashContext.final_structure_hash_str",
    returns="str",
    requires=[CTX_OK, "all(valid_digest_text(x, self.hash_format) for x in self.structure_hash_strings)"],
    modifies=["self.structure_hash_strings"],
    ensures=[
        "is_digest_text(result, self.hash_format, cat_dec(self.hash_format, sorted_strs(old(self.structure_hash_strings))))"
    ],
    props=["C07"],
)

# ---------------------------------------------------------------------------------------------- read-once, many formats
contract(
    "ascmhl.hasher.AggregateHasher.hash_data",
    params={"input_data": "bytes", "hash_formats": "list[str]"},
    returns="dict[str,str]",
    locals={"hash_output_lookup": "dict[str,str]"},
    requires=["all(is_format(f) for f in hash_formats)"],
    ensures=[
        "all(f in result for f in hash_formats)",
        "all(k in hash_formats for k in result.keys())",
        "all(is_digest_text(result[k], k, input_data) for k in result.keys())",
    ],
    loops={
        0: Loop(
            invariant=[
                "all(_seq[j] in hash_output_lookup for j in range(_i))",
                "all(k in hash_formats for k in hash_output_lookup.keys())",
                "all(is_digest_text(hash_output_lookup[k], k, input_data) for k in hash_output_lookup.keys())",
            ]
        )
    },
    props=["C01"],
)
contract(
    "ascmhl.hasher.multiple_format_hash_data",
    params={"input_data": "bytes", "hash_formats": "list[str]"},
    returns="dict[str,str]",
    requires=["all(is_format(f) for f in hash_formats)"],
    ensures=[
        "all(f in result for f in hash_formats)",
        "all(k in hash_formats for k in result.keys())",
        "all(is_digest_text(result[k], k, input_data) for k in result.keys())",
    ],
    props=["C01"],
)

HL = "hasher_lookup"
PER_HASHER = [
    f"all(fmt_of({HL}[k]) == k and {HL}[k].hasher.alg == std_alg(k) for k in {HL}.keys())",
    f"all(allocated({HL}[k]) and allocated({HL}[k].hasher) for k in {HL}.keys())",
    f"all({HL}[a].hasher != {HL}[b].hasher for a in {HL}.keys() for b in {HL}.keys() if a != b)",
    # the hashers are this call's own objects: feeding them is inside the (empty) frame of the function
    f"all(fresh({HL}[k]) and fresh({HL}[k].hasher) for k in {HL}.keys())",
]
FD = ["fd.content == file_bytes(file_path)", "0 <= fd.pos <= len(fd.content)", "len(chunk) > 0 or fd.pos == len(fd.content)"]
contract(
    "ascmhl.hasher.AggregateHasher.hash_file",
    params={"file_path": "str", "hash_formats": "list[str]"},
    returns="dict[str,str]",
    locals={"hasher_lookup": "dict[str,Hasher]", "hash_output_lookup": "dict[str,str]"},
    requires=["all(is_format(f) for f in hash_formats)"],
    # z3 does not connect `x in d` (seq.contains on the key sequence) with "x is the j-th key" on its own
    lemmas={
        "before: return hash_output_lookup": [
            f"all(L_member({HL}.keys(), f) for f in hash_formats)",
            f"all(L_member({HL}.keys(), k) for k in hash_output_lookup.keys())",
        ]
    },
    ensures=[
        "all(f in result for f in hash_formats)",
        "all(k in hash_formats for k in result.keys())",
        "all(is_digest_text(result[k], k, file_bytes(file_path)) for k in result.keys())",
    ],
    loops={
        0: Loop(
            invariant=[
                f"all(_seq[j] in {HL} for j in range(_i))",
                f"all(k in hash_formats for k in {HL}.keys())",
                f"all({HL}[k].hasher.absorbed == b'' for k in {HL}.keys())",
            ]
            + PER_HASHER
        ),
        1: Loop(
            invariant=[
                f"all(f in {HL} for f in hash_formats)",
                f"all(k in hash_formats for k in {HL}.keys())",
                f"all({HL}[k].hasher.absorbed + chunk == fd.content[:fd.pos] for k in {HL}.keys())",
            ]
            + PER_HASHER
            + FD,
            decreases="len(fd.content) - fd.pos + len(chunk)",
        ),
        2: Loop(
            invariant=[
                f"all({HL}[_seq[j]].hasher.absorbed == fd.content[:fd.pos] for j in range(_i))",
                f"all({HL}[_seq[j]].hasher.absorbed + chunk == fd.content[:fd.pos] for j in range(_i, len(_seq)))",
            ]
            + PER_HASHER,
        ),
        3: Loop(
            invariant=[
                "all(_seq[j] in hash_output_lookup for j in range(_i))",
                f"all(k in {HL} for k in hash_output_lookup.keys())",
                "all(is_digest_text(hash_output_lookup[k], k, file_bytes(file_path)) for k in hash_output_lookup.keys())",
                f"all({HL}[k].hasher.absorbed == file_bytes(file_path) for k in {HL}.keys())",
                f"all(f in {HL} for f in hash_formats)",
                f"all(k in hash_formats for k in {HL}.keys())",
            ]
            + PER_HASHER,
        ),
    },
    props=["C01"],
)
contract(
    "ascmhl.hasher.multiple_format_hash_file",
    params={"file_path": "str", "hash_formats": "list[str]"},
    returns="dict[str,str]",
    requires=["all(is_format(f) for f in hash_formats)"],
    ensures=[
        "all(f in result for f in hash_formats)",
        "all(k in hash_formats for k in result.keys())",
        "all(is_digest_text(result[k], k, file_bytes(file_path)) for k in result.keys())",
    ],
    props=["C01"],
)
