"""Contracts on the XML element builders of hashlist_xml_parser.py / chain_xml_parser.py over the infoset model
(Element: tag, text, attrib, children) - C10 (everything written is where the reader looks for it), C16 (size incl. 0,
dates), C11 (element order)."""
from vf.contracts import contract, Loop

contract(
    "ascmhl.utils.datetime_isostring",
    trusted=True,
    note="datetime library glue (replace / astimezone / isoformat): bounded (C16 driver, 16 zones x DST switches); assumed here: "
    "the result is the ISO-8601 text of the date (microseconds kept iff asked)",
    params={"date": "datetime", "keep_microseconds": "bool"},
    returns="str",
    pure=True,
    ensures=["result == iso(date, keep_microseconds)"],
)

P = "result.children[0]"
SORTED = "_x_sorted_hash_entries"
contract(
    "ascmhl.hashlist_xml_parser._media_hash_xml_element",
    slices=4,
    params={"media_hash": "MHLMediaHash"},
    returns="Element",
    exposes={"sorted_hash_entries": "list[MHLHashEntry]"},
    requires=["media_hash.path is not None"],
    ensures=[
        "fresh(result) and result.tag == 'hash'",
        # <path>: text is the POSIX form of the record path; size whenever the model has one - INCLUDING 0
        f"{P}.tag == 'path' and {P}.text == as_posix(media_hash.path)",
        f"('size' in {P}.attrib) == (media_hash.file_size is not None)",
        f"media_hash.file_size is None or {P}.attrib['size'] == str_of_optint(media_hash.file_size)",
        f"('lastmodificationdate' in {P}.attrib) == (media_hash.last_modification_date is not None)",
        f"media_hash.last_modification_date is None or {P}.attrib['lastmodificationdate'] == iso(media_hash.last_modification_date)",
        # one child per hash entry, in the order of the (format-sorted) entries, then the previous path if there is one
        f"len({SORTED}) == len(media_hash.hash_entries)",
        f"len(result.children) == 1 + len({SORTED}) + (1 if (media_hash.previous_path is not None and media_hash.previous_path != '') else 0)",
        f"all(result.children[1 + j].tag == {SORTED}[j].hash_format and result.children[1 + j].text == {SORTED}[j].hash_string for j in range(len({SORTED})))",
        f"all(('action' in result.children[1 + j].attrib) == ({SORTED}[j].action is not None and {SORTED}[j].action != '') for j in range(len({SORTED})))",
        f"all({SORTED}[j].action is None or {SORTED}[j].action == '' or result.children[1 + j].attrib['action'] == {SORTED}[j].action for j in range(len({SORTED})))",
        f"all(result.children[1 + j].attrib['hashdate'] == iso({SORTED}[j].hash_date, True) for j in range(len({SORTED})))",
        f"all({SORTED}[a].hash_format <= {SORTED}[b].hash_format for a in range(len({SORTED})) for b in range(a, len({SORTED})))",
        "media_hash.previous_path is None or media_hash.previous_path == '' or (result.children[len(result.children) - 1].tag == 'previousPath'"
        " and result.children[len(result.children) - 1].text == as_posix(media_hash.previous_path))",
    ],
    loops={
        0: Loop(invariant=[
            "fresh(hash_element) and hash_element.tag == 'hash' and fresh(path_element)",
            "len(hash_element.children) == 1 + _i and hash_element.children[0] == path_element",
            "all(fresh(hash_element.children[1 + j]) for j in range(_i))",
            "all(hash_element.children[1 + j].tag == _seq[j].hash_format and hash_element.children[1 + j].text == _seq[j].hash_string for j in range(_i))",
            "all(('action' in hash_element.children[1 + j].attrib) == (_seq[j].action is not None and _seq[j].action != '') for j in range(_i))",
            "all(_seq[j].action is None or _seq[j].action == '' or hash_element.children[1 + j].attrib['action'] == _seq[j].action for j in range(_i))",
            "all(hash_element.children[1 + j].attrib['hashdate'] == iso(_seq[j].hash_date, True) for j in range(_i))",
            "_seq == sorted_hash_entries",
            "path_element.tag == 'path' and path_element.text == as_posix(media_hash.path)",
            "('size' in path_element.attrib) == (media_hash.file_size is not None)",
            "media_hash.file_size is None or path_element.attrib['size'] == str_of_optint(media_hash.file_size)",
            "('lastmodificationdate' in path_element.attrib) == (media_hash.last_modification_date is not None)",
            "media_hash.last_modification_date is None or path_element.attrib['lastmodificationdate'] == iso(media_hash.last_modification_date)",
        ]),
    },
    props=["C10", "C16", "C11"],
)

# ---- chain file entries (C06, C10): sequence number, file name and recorded digest, unchanged for old generations
contract(
    "ascmhl.chain_xml_parser._hashlist_xml_element_from_chaingeneration",
    params={"generation": "MHLChainGeneration"},
    returns="Element",
    logs=True,
    ensures=[
        "fresh(result) and result.tag == 'hashlist'",
        "generation.hash_format != 'c4' or (len(result.children) == 2"
        " and result.children[0].tag == 'path' and result.children[0].text == as_posix(generation.ascmhl_filename)"
        " and result.children[1].tag == 'c4' and result.children[1].text == generation.hash_string"
        " and result.attrib['sequencenr'] == str_of_optint(generation.generation_number))",
    ],
    props=["C06", "C10"],
)
contract(
    "ascmhl.hashlist.MHLHashList.generate_reference_hash",
    params={},
    returns="str",
    pure=True,
    requires=["self.file_path is not None"],
    ensures=["is_digest_text(result, 'c4', file_bytes(self.file_path))"],
    props=["C06", "C08", "C05"],
)
contract(
    "ascmhl.chain_xml_parser._hashlist_xml_element_from_hashlist",
    params={"hash_list": "MHLHashList"},
    returns="Element",
    requires=["hash_list.file_path is not None"],
    ensures=[
        "fresh(result) and result.tag == 'hashlist' and len(result.children) == 2",
        "result.children[0].tag == 'path' and result.children[0].text == as_posix(p_basename(hash_list.file_path))",
        # the digest is the C4 ID of the manifest's bytes as they are on disk when the entry is built
        "result.children[1].tag == 'c4' and is_digest_text(result.children[1].text, 'c4', file_bytes(hash_list.file_path))",
        "result.attrib['sequencenr'] == str_of_optint(hash_list.generation_number)",
    ],
    props=["C06", "C10"],
)

# ---- <ignore> (C12, C10): one <pattern> per pattern of the spec, in list order
contract(
    "ascmhl.hashlist_xml_parser._ignorespec_xml_element",
    params={"ignore_spec": "MHLIgnoreSpec?"},
    returns="Element",
    ensures=[
        "fresh(result) and result.tag == 'ignore'",
        "ignore_spec is None or len(result.children) == len(ignore_spec._ignore_list)",
        "ignore_spec is None or all(result.children[j].tag == 'pattern' and result.children[j].text == ignore_spec._ignore_list[j] for j in range(len(ignore_spec._ignore_list)))",
    ],
    loops={0: Loop(invariant=[
        "fresh(spec_element) and spec_element.tag == 'ignore' and len(spec_element.children) == _i",
        "all(spec_element.children[j].tag == 'pattern' and spec_element.children[j].text == _seq[j] for j in range(_i))",
        "ignore_spec is not None and _seq == ignore_spec._ignore_list",
    ])},
    props=["C12", "C10"],
)

# ---- <hashlistreference> (C08, C10)
contract(
    "ascmhl.hashlist_xml_parser._ascmhlreference_xml_element",
    params={"hash_list": "MHLHashList", "file_path": "str"},
    returns="Element",
    requires=["hash_list.file_path is not None"],
    ensures=[
        "fresh(result) and result.tag == 'hashlistreference' and len(result.children) == 2",
        "result.children[0].tag == 'path' and result.children[0].text == as_posix(p_relpath(hash_list.file_path, p_dirname(p_dirname(file_path))))",
        "result.children[1].tag == 'c4' and is_digest_text(result.children[1].text, 'c4', file_bytes(hash_list.file_path))",
    ],
    props=["C08", "C10"],
)

# ---- the chain file content (C06): ALL earlier entries, unchanged and in order, followed by exactly one new entry
OLD = "chain.generations"
contract(
    "ascmhl.chain_xml_parser._write_chain_to_file",
    slices=4,
    params={"chain": "MHLChain", "new_hash_list": "MHLHashList", "file": "File"},
    requires=["new_hash_list.file_path is not None", "len(file.written) == 0", f"all(g.hash_format == 'c4' for g in {OLD})"],
    modifies=["file.written", "file.raw"],
    logs=True,
    ensures=[
        f"len(file.written) == len({OLD}) + 1",
        f"all(file.written[j].tag == 'hashlist' and len(file.written[j].children) == 2"
        f" and file.written[j].children[0].text == as_posix({OLD}[j].ascmhl_filename)"
        f" and file.written[j].children[1].tag == 'c4' and file.written[j].children[1].text == {OLD}[j].hash_string"
        f" and file.written[j].attrib['sequencenr'] == str_of_optint({OLD}[j].generation_number) for j in range(len({OLD})))",
        f"file.written[len({OLD})].children[0].text == as_posix(p_basename(new_hash_list.file_path))",
        f"is_digest_text(file.written[len({OLD})].children[1].text, 'c4', file_bytes(new_hash_list.file_path))",
        f"file.written[len({OLD})].attrib['sequencenr'] == str_of_optint(new_hash_list.generation_number)",
    ],
    loops={0: Loop(invariant=[
        "len(file.written) == _i",
        f"all(file.written[j].tag == 'hashlist' and len(file.written[j].children) == 2"
        f" and file.written[j].children[0].text == as_posix({OLD}[j].ascmhl_filename)"
        f" and file.written[j].children[1].tag == 'c4' and file.written[j].children[1].text == {OLD}[j].hash_string"
        f" and file.written[j].attrib['sequencenr'] == str_of_optint({OLD}[j].generation_number) for j in range(_i))",
        f"_seq == {OLD}",
    ])},
    props=["C06", "C10"],
)
