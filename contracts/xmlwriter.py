"""Contracts on the XML element builders of hashlist_xml_parser.py / chain_xml_parser.py over the infoset model
(Element: tag, text, attrib, children) - C10 (everything written is where the reader looks for it), C16 (size incl. 0,
dates), C11 (element order)."""
from vf.contracts import contract, Loop

contract(
    "ascmhl.utils.datetime_isostring",
    trusted=True,
    note="datetime library glue (replace / astimezone / isoformat): bounded (C16 driver, 16 zones x DST switches); assumed here: "
    "the result is the ISO-8601 text of the date (microseconds kept iff asked)",
    params={"date": "datetime", "keep_microseconds": "bool"},
    returns="str",
    pure=True,
    ensures=["result == iso(date, keep_microseconds)"],
)

P = "result.children[0]"
SORTED = "_x_sorted_hash_entries"
contract(
    "ascmhl.hashlist_xml_parser._media_hash_xml_element",
    slices=4,
    params={"media_hash": "MHLMediaHash"},
    returns="Element",
    exposes={"sorted_hash_entries": "list[MHLHashEntry]"},
    requires=["media_hash.path is not None"],
    ensures=[
        "fresh(result) and result.tag == 'hash'",
        # <path>: text is the POSIX form of the record path; size whenever the model has one - INCLUDING 0
        f"{P}.tag == 'path' and {P}.text == as_posix(media_hash.path)",
        f"('size' in {P}.attrib) == (media_hash.file_size is not None)",
        f"media_hash.file_size is None or {P}.attrib['size'] == str_of_optint(media_hash.file_size)",
        f"('lastmodificationdate' in {P}.attrib) == (media_hash.last_modification_date is not None)",
        f"media_hash.last_modification_date is None or {P}.attrib['lastmodificationdate'] == iso(media_hash.last_modification_date)",
        # one child per hash entry, in the order of the (format-sorted) entries, then the previous path if there is one
        f"len({SORTED}) == len(media_hash.hash_entries)",
        f"len(result.children) == 1 + len({SORTED}) + (1 if (media_hash.previous_path is not None and media_hash.previous_path != '') else 0)",
        f"all(result.children[1 + j].tag == {SORTED}[j].hash_format and result.children[1 + j].text == {SORTED}[j].hash_string for j in range(len({SORTED})))",
        f"all(('action' in result.children[1 + j].attrib) == ({SORTED}[j].action is not None and {SORTED}[j].action != '') for j in range(len({SORTED})))",
        f"all({SORTED}[j].action is None or {SORTED}[j].action == '' or result.children[1 + j].attrib['action'] == {SORTED}[j].action for j in range(len({SORTED})))",
        f"all(result.children[1 + j].attrib['hashdate'] == iso({SORTED}[j].hash_date, True) for j in range(len({SORTED})))",
        f"all({SORTED}[a].hash_format <= {SORTED}[b].hash_format for a in range(len({SORTED})) for b in range(a, len({SORTED})))",
        "media_hash.previous_path is None or media_hash.previous_path == '' or (result.children[len(result.children) - 1].tag == 'previousPath'"
        " and result.children[len(result.children) - 1].text == as_posix(media_hash.previous_path))",
    ],
    loops={
        0: Loop(invariant=[
            "fresh(hash_element) and hash_element.tag == 'hash' and fresh(path_element)",
            "len(hash_element.children) == 1 + _i and hash_element.children[0] == path_element",
            "all(fresh(hash_element.children[1 + j]) for j in range(_i))",
            "all(hash_element.children[1 + j].tag == _seq[j].hash_format and hash_element.children[1 + j].text == _seq[j].hash_string for j in range(_i))",
            "all(('action' in hash_element.children[1 + j].attrib) == (_seq[j].action is not None and _seq[j].action != '') for j in range(_i))",
            "all(_seq[j].action is None or _seq[j].action == '' or hash_element.children[1 + j].attrib['action'] == _seq[j].action for j in range(_i))",
            "all(hash_element.children[1 + j].attrib['hashdate'] == iso(_seq[j].hash_date, True) for j in range(_i))",
            "_seq == sorted_hash_entries",
            "path_element.tag == 'path' and path_element.text == as_posix(media_hash.path)",
            "('size' in path_element.attrib) == (media_hash.file_size is not None)",
            "media_hash.file_size is None or path_element.attrib['size'] == str_of_optint(media_hash.file_size)",
            "('lastmodificationdate' in path_element.attrib) == (media_hash.last_modification_date is not None)",
            "media_hash.last_modification_date is None or path_element.attrib['lastmodificationdate'] == iso(media_hash.last_modification_date)",
        ]),
    },
    props=["C10", "C16", "C11"],
)

# ---- chain file entries (C06, C10): sequence number, file name and recorded digest, unchanged for old generations
contract(
    "ascmhl.chain_xml_parser._hashlist_xml_element_from_chaingeneration",
    params={"generation": "MHLChainGeneration"},
    returns="Element",
    logs=True,
    ensures=[
        "fresh(result) and result.tag == 'hashlist'",
        "generation.hash_format != 'c4' or (len(result.children) == 2"
        " and result.children[0].tag == 'path' and result.children[0].text == as_posix(generation.ascmhl_filename)"
        " and result.children[1].tag == 'c4' and result.children[1].text == generation.hash_string"
        " and result.attrib['sequencenr'] == str_of_optint(generation.generation_number))",
    ],
    props=["C06", "C10"],
)
contract(
    "ascmhl.hashlist.MHLHashList.generate_reference_hash",
    params={},
    returns="str",
    pure=True,
    requires=["self.file_path is not None"],
    ensures=["is_digest_text(result, 'c4', file_bytes(self.file_path))"],
    props=["C06", "C08", "C05"],
)
contract(
    "ascmhl.chain_xml_parser._hashlist_xml_element_from_hashlist",
    params={"hash_list": "MHLHashList"},
    returns="Element",
    requires=["hash_list.file_path is not None"],
    ensures=[
        "fresh(result) and result.tag == 'hashlist' and len(result.children) == 2",
        "result.children[0].tag == 'path' and result.children[0].text == as_posix(p_basename(hash_list.file_path))",
        # the digest is the C4 ID of the manifest's bytes as they are on disk when the entry is built
        "result.children[1].tag == 'c4' and is_digest_text(result.children[1].text, 'c4', file_bytes(hash_list.file_path))",
        "result.attrib['sequencenr'] == str_of_optint(hash_list.generation_number)",
    ],
    props=["C06", "C10"],
)

# ---- <ignore> (C12, C10): one <pattern> per pattern of the spec, in list order
contract(
    "ascmhl.hashlist_xml_parser._ignorespec_xml_element",
    params={"ignore_spec": "MHLIgnoreSpec?"},
    returns="Element",
    ensures=[
        "fresh(result) and result.tag == 'ignore'",
        "ignore_spec is None or len(result.children) == len(ignore_spec._ignore_list)",
        "ignore_spec is None or all(result.children[j].tag == 'pattern' and result.children[j].text == ignore_spec._ignore_list[j] for j in range(len(ignore_spec._ignore_list)))",
    ],
    loops={0: Loop(invariant=[
        "fresh(spec_element) and spec_element.tag == 'ignore' and len(spec_element.children) == _i",
        "all(spec_element.children[j].tag == 'pattern' and spec_element.children[j].text == _seq[j] for j in range(_i))",
        "ignore_spec is not None and _seq == ignore_spec._ignore_list",
    ])},
    props=["C12", "C10"],
)

# ---- <hashlistreference> (C08, C10)
contract(
    "ascmhl.hashlist_xml_parser._ascmhlreference_xml_element",
    params={"hash_list": "MHLHashList", "file_path": "str"},
    returns="Element",
    requires=["hash_list.file_path is not None"],
    ensures=[
        "fresh(result) and result.tag == 'hashlistreference' and len(result.children) == 2",
        "result.children[0].tag == 'path' and result.children[0].text == as_posix(p_relpath(hash_list.file_path, p_dirname(p_dirname(file_path))))",
        "result.children[1].tag == 'c4' and is_digest_text(result.children[1].text, 'c4', file_bytes(hash_list.file_path))",
    ],
    props=["C08", "C10"],
)

# ---- the chain file content (C06): ALL earlier entries, unchanged and in order, followed by exactly one new entry
OLD = "chain.generations"
contract(
    "ascmhl.chain_xml_parser._write_chain_to_file",
    slices=4,
    params={"chain": "MHLChain", "new_hash_list": "MHLHashList", "file": "File"},
    requires=["new_hash_list.file_path is not None", "len(file.written) == 0", f"all(g.hash_format == 'c4' for g in {OLD})"],
    modifies=["file.written", "file.raw"],
    logs=True,
    ensures=[
        f"len(file.written) == len({OLD}) + 1",
        f"all(file.written[j].tag == 'hashlist' and len(file.written[j].children) == 2"
        f" and file.written[j].children[0].text == as_posix({OLD}[j].ascmhl_filename)"
        f" and file.written[j].children[1].tag == 'c4' and file.written[j].children[1].text == {OLD}[j].hash_string"
        f" and file.written[j].attrib['sequencenr'] == str_of_optint({OLD}[j].generation_number) for j in range(len({OLD})))",
        f"file.written[len({OLD})].children[0].text == as_posix(p_basename(new_hash_list.file_path))",
        f"is_digest_text(file.written[len({OLD})].children[1].text, 'c4', file_bytes(new_hash_list.file_path))",
        f"file.written[len({OLD})].attrib['sequencenr'] == str_of_optint(new_hash_list.generation_number)",
    ],
    loops={0: Loop(invariant=[
        "len(file.written) == _i",
        f"all(file.written[j].tag == 'hashlist' and len(file.written[j].children) == 2"
        f" and file.written[j].children[0].text == as_posix({OLD}[j].ascmhl_filename)"
        f" and file.written[j].children[1].tag == 'c4' and file.written[j].children[1].text == {OLD}[j].hash_string"
        f" and file.written[j].attrib['sequencenr'] == str_of_optint({OLD}[j].generation_number) for j in range(_i))",
        f"_seq == {OLD}",
    ])},
    props=["C06", "C10"],
)

# ---- <directoryhash> / <roothash> (C10, C11, C07): the XSD makes <content> and <structure> mandatory, their children optional
OFF = "(0 if skipPath else 1)"
CT = f"result.children[{OFF}]"
SR = f"result.children[{OFF} + 1]"
HE = "media_hash.hash_entries"
PREV = "(media_hash.previous_path is not None and media_hash.previous_path != '')"
contract(
    "ascmhl.hashlist_xml_parser._directory_hash_xml_element",
    slices=4,
    params={"media_hash": "MHLMediaHash", "skipPath": "bool"},
    returns="Element",
    requires=["skipPath or media_hash.path is not None"],
    ensures=[
        "fresh(result) and result.tag == 'directoryhash'",
        # both containers are ALWAYS written, in this order, after the path (if any) and before the previous path (if any)
        f"len(result.children) == {OFF} + 2 + (1 if {PREV} else 0)",
        f"{CT}.tag == 'content' and {SR}.tag == 'structure'",
        f"skipPath or (result.children[0].tag == 'path' and result.children[0].text == as_posix(media_hash.path))",
        f"skipPath or ('size' in result.children[0].attrib) == (media_hash.file_size is not None)",
        f"skipPath or media_hash.file_size is None or result.children[0].attrib['size'] == str_of_optint(media_hash.file_size)",
        f"skipPath or ('lastmodificationdate' in result.children[0].attrib) == (media_hash.last_modification_date is not None)",
        f"skipPath or media_hash.last_modification_date is None or result.children[0].attrib['lastmodificationdate'] == iso(media_hash.last_modification_date)",
        # one child per hash entry in each container, in entry order: content digest / structure digest of the same format
        f"len({CT}.children) == len({HE}) and len({SR}.children) == len({HE})",
        f"all({CT}.children[j].tag == {HE}[j].hash_format and {CT}.children[j].text == {HE}[j].hash_string for j in range(len({HE})))",
        f"all({SR}.children[j].tag == {HE}[j].hash_format and {SR}.children[j].text == {HE}[j].structure_hash_string for j in range(len({HE})))",
        f"all(('action' in {CT}.children[j].attrib) == ({HE}[j].action is not None and {HE}[j].action != '') for j in range(len({HE})))",
        f"all({HE}[j].action is None or {HE}[j].action == '' or ({CT}.children[j].attrib['action'] == {HE}[j].action and {SR}.children[j].attrib['action'] == {HE}[j].action) for j in range(len({HE})))",
        f"all(('hashdate' in {CT}.children[j].attrib) == ({HE}[j].hash_date is not None) for j in range(len({HE})))",
        f"all({HE}[j].hash_date is None or ({CT}.children[j].attrib['hashdate'] == iso({HE}[j].hash_date, True) and {SR}.children[j].attrib['hashdate'] == iso({HE}[j].hash_date, True)) for j in range(len({HE})))",
        # the entry elements are other objects than the element returned (a caller may re-tag the result)
        f"all({CT}.children[j] != result and {SR}.children[j] != result for j in range(len({HE})))",
        f"{CT} != result and {SR} != result",
        f"not {PREV} or (result.children[len(result.children) - 1].tag == 'previousPath'"
        " and result.children[len(result.children) - 1].text == as_posix(media_hash.previous_path))",
    ],
    loops={
        0: Loop(invariant=[
            "fresh(content_element) and fresh(structure_element) and content_element != structure_element",
            "content_element.tag == 'content' and structure_element.tag == 'structure'",
            "len(content_element.children) == _i and len(structure_element.children) == _i",
            "all(fresh(content_element.children[j]) and fresh(structure_element.children[j]) for j in range(_i))",
            "all(allocated(content_element.children[j]) and allocated(structure_element.children[j]) for j in range(_i))",
            "allocated(content_element) and allocated(structure_element)",
            "all(content_element.children[j].tag == _seq[j].hash_format and content_element.children[j].text == _seq[j].hash_string for j in range(_i))",
            "all(structure_element.children[j].tag == _seq[j].hash_format and structure_element.children[j].text == _seq[j].structure_hash_string for j in range(_i))",
            "all(('action' in content_element.children[j].attrib) == (_seq[j].action is not None and _seq[j].action != '') for j in range(_i))",
            "all(_seq[j].action is None or _seq[j].action == '' or (content_element.children[j].attrib['action'] == _seq[j].action and structure_element.children[j].attrib['action'] == _seq[j].action) for j in range(_i))",
            "all(('hashdate' in content_element.children[j].attrib) == (_seq[j].hash_date is not None) for j in range(_i))",
            "all(_seq[j].hash_date is None or (content_element.children[j].attrib['hashdate'] == iso(_seq[j].hash_date, True) and structure_element.children[j].attrib['hashdate'] == iso(_seq[j].hash_date, True)) for j in range(_i))",
            "_seq == media_hash.hash_entries",
        ]),
    },
    props=["C10", "C11", "C07"],
)

RC = "result.children"
contract(
    "ascmhl.hashlist_xml_parser._root_media_hash_xml_element",
    params={"root_media_hash": "MHLMediaHash"},
    returns="Element",
    ensures=[
        "fresh(result) and result.tag == 'roothash'",
        f"len({RC}) >= 2 and {RC}[0].tag == 'content' and {RC}[1].tag == 'structure'",
        f"len({RC}[0].children) == len(root_media_hash.hash_entries) and len({RC}[1].children) == len(root_media_hash.hash_entries)",
        f"all({RC}[0].children[j].tag == root_media_hash.hash_entries[j].hash_format and {RC}[0].children[j].text == root_media_hash.hash_entries[j].hash_string"
        " for j in range(len(root_media_hash.hash_entries)))",
        f"all({RC}[1].children[j].tag == root_media_hash.hash_entries[j].hash_format and {RC}[1].children[j].text == root_media_hash.hash_entries[j].structure_hash_string"
        " for j in range(len(root_media_hash.hash_entries)))",
    ],
    props=["C10", "C11", "C07"],
)

# ---- <creatorinfo> (C10, C11): fixed head (creationdate, hostname, tool), the authors in order, then location, then comment
CI = "hash_list.creator_info"
NA = f"len({CI}.authors)"
contract(
    "ascmhl.hashlist_xml_parser._creator_info_xml_element",
    params={"hash_list": "MHLHashList"},
    returns="Element",
    # lxml refuses None as element text / attribute value: what every hash list written by the tool satisfies
    requires=[f"{CI} is not None and {CI}.tool is not None", f"{CI}.creation_date is not None and {CI}.host_name is not None",
              f"{CI}.tool.name is not None and {CI}.tool.version is not None"],
    ensures=[
        "fresh(result) and result.tag == 'creatorinfo'",
        f"len({RC}) == 3 + {NA} + (1 if {CI}.location is not None else 0) + (1 if {CI}.comment is not None else 0)",
        f"{RC}[0].tag == 'creationdate' and {RC}[0].text == {CI}.creation_date",
        f"{RC}[1].tag == 'hostname' and {RC}[1].text == {CI}.host_name",
        f"{RC}[2].tag == 'tool' and {RC}[2].text == {CI}.tool.name",
        f"all({RC}[3 + j].tag == 'author' for j in range({NA}))",
        f"all(('role' in {RC}[3 + j].attrib) == ({CI}.authors[j].role is not None) and ('email' in {RC}[3 + j].attrib) == ({CI}.authors[j].email is not None)"
        f" and ('phone' in {RC}[3 + j].attrib) == ({CI}.authors[j].phone is not None) for j in range({NA}))",
        f"all({CI}.authors[j].role is None or {RC}[3 + j].attrib['role'] == {CI}.authors[j].role for j in range({NA}))",
        f"all({CI}.authors[j].email is None or {RC}[3 + j].attrib['email'] == {CI}.authors[j].email for j in range({NA}))",
        f"all({CI}.authors[j].phone is None or {RC}[3 + j].attrib['phone'] == {CI}.authors[j].phone for j in range({NA}))",
        f"all({CI}.authors[j].name is None or {CI}.authors[j].name == '-' or {RC}[3 + j].text == {CI}.authors[j].name for j in range({NA}))",
        f"{CI}.location is None or ({RC}[3 + {NA}].tag == 'location' and {RC}[3 + {NA}].text == {CI}.location)",
        f"{CI}.comment is None or ({RC}[len({RC}) - 1].tag == 'comment' and {RC}[len({RC}) - 1].text == {CI}.comment)",
    ],
    loops={
        0: Loop(invariant=[
            "fresh(info_element) and info_element.tag == 'creatorinfo' and len(info_element.children) == 3 + _i",
            "info_element.children[0].tag == 'creationdate' and info_element.children[0].text == creator_info.creation_date",
            "info_element.children[1].tag == 'hostname' and info_element.children[1].text == creator_info.host_name",
            "info_element.children[2].tag == 'tool' and info_element.children[2].text == creator_info.tool.name",
            "all(fresh(info_element.children[j]) for j in range(3 + _i))",
            "all(info_element.children[3 + j].tag == 'author' for j in range(_i))",
            "all(('role' in info_element.children[3 + j].attrib) == (_seq[j].role is not None) and ('email' in info_element.children[3 + j].attrib) == (_seq[j].email is not None)"
            " and ('phone' in info_element.children[3 + j].attrib) == (_seq[j].phone is not None) for j in range(_i))",
            "all(_seq[j].role is None or info_element.children[3 + j].attrib['role'] == _seq[j].role for j in range(_i))",
            "all(_seq[j].email is None or info_element.children[3 + j].attrib['email'] == _seq[j].email for j in range(_i))",
            "all(_seq[j].phone is None or info_element.children[3 + j].attrib['phone'] == _seq[j].phone for j in range(_i))",
            "all(_seq[j].name is None or _seq[j].name == '-' or info_element.children[3 + j].text == _seq[j].name for j in range(_i))",
            "_seq == creator_info.authors and creator_info == hash_list.creator_info",
        ]),
    },
    props=["C10", "C11"],
)

# ---- <processinfo> (C10, C11, C12): process type, the root hash only if there is one, then the ignore patterns
PI = "hash_list.process_info"
RMH = f"old({PI}.root_media_hash)"
HASROOT = f"({RMH} is not None and len(old({PI}.root_media_hash.hash_entries)) > 0)"
contract(
    "ascmhl.hashlist_xml_parser._process_info_xml_element",
    params={"hash_list": "MHLHashList"},
    returns="Element",
    requires=[f"{PI}.process is not None", "hash_list.file_path is not None"],
    # the only write to existing objects: a root hash recorded with path '.' gets the root path of the manifest
    modifies=["hash_list.process_info.root_media_hash.path"],
    ensures=[
        "fresh(result) and result.tag == 'processinfo'",
        f"{RC}[0].tag == 'process' and {RC}[0].text == {PI}.process.process_type",
        f"len({RC}) == (3 if {HASROOT} else 2)",
        f"not {HASROOT} or ({RC}[1].tag == 'roothash' and {RC}[1].children[0].tag == 'content' and {RC}[1].children[1].tag == 'structure')",
        f"not {HASROOT} or len({RC}[1].children[0].children) == len({PI}.root_media_hash.hash_entries)",
        f"not {HASROOT} or len({RC}[1].children[1].children) == len({PI}.root_media_hash.hash_entries)",
        f"{RC}[len({RC}) - 1].tag == 'ignore'",
        f"{PI}.ignore_spec is None or len({RC}[len({RC}) - 1].children) == len({PI}.ignore_spec._ignore_list)",
        f"{PI}.ignore_spec is None or all({RC}[len({RC}) - 1].children[j].tag == 'pattern' and {RC}[len({RC}) - 1].children[j].text == {PI}.ignore_spec._ignore_list[j]"
        f" for j in range(len({PI}.ignore_spec._ignore_list)))",
    ],
    props=["C10", "C11", "C12"],
)

# ---- the manifest body (C10, C11, C02): header, creator info, process info, one element per record in record order inside
# <hashes> (never an empty <hashes>), one reference per referenced generation inside <references>, closing tag
MHS = "hash_list.media_hashes"
REFS = "hash_list.referenced_hash_lists"
NW = "len(file.written)"
REC = (
    "file.written[2 + j].tag == ('directoryhash' if {M}[j].is_directory else 'hash')"
    " and file.written[2 + j].children[0].tag == 'path' and file.written[2 + j].children[0].text == as_posix({M}[j].path)"
)
contract(
    "ascmhl.hashlist_xml_parser._write_hash_list_to_file",
    slices=4,
    params={"hash_list": "MHLHashList", "file_path": "str", "file": "File"},
    requires=[
        "len(file.written) == 0 and len(file.raw) == 0",
        f"{CI} is not None and {CI}.tool is not None and {CI}.creation_date is not None and {CI}.host_name is not None",
        f"{CI}.tool.name is not None and {CI}.tool.version is not None",
        f"{PI}.process is not None",
        f"all(m.path is not None for m in {MHS})",
        f"all(r.file_path is not None for r in {REFS})",
        # the root hash is not one of the records (it is a separate object of the process info)
        f"{PI}.root_media_hash is None or all(m != {PI}.root_media_hash for m in {MHS})",
    ],
    modifies=["file.written", "file.raw", "hash_list.file_path", "hash_list.process_info.root_media_hash.path"],
    logs=True,
    ensures=[
        "hash_list.file_path == file_path",
        f"{NW} == 2 + len({MHS}) + len({REFS})",
        "file.written[0].tag == 'creatorinfo' and file.written[1].tag == 'processinfo'",
        "all(" + REC.format(M=MHS) + f" for j in range(len({MHS})))",
        f"all(file.written[k].tag == 'hashlistreference' for k in range(2 + len({MHS}), len(file.written)))",
        # the wrappers: <hashes> only around at least one record, <references> only around at least one reference
        f"len(file.raw) == 2 + (2 if len({MHS}) > 0 else 0) + (2 if len({REFS}) > 0 else 0)",
        f"len({MHS}) == 0 or (file.raw[1] == '<hashes>\\n' and file.raw[2] == '</hashes>\\n')",
        "file.raw[len(file.raw) - 1] == '</hashlist>\\n'",
    ],
    loops={
        0: Loop(invariant=[
            f"{NW} == 2 + _i and len(file.raw) == 2 and file.raw[1] == '<hashes>\\n'",
            "file.written[0].tag == 'creatorinfo' and file.written[1].tag == 'processinfo'",
            "all(" + REC.format(M="_seq") + " for j in range(_i))",
            f"_seq == {MHS} and hash_list.file_path == file_path",
        ]),
        1: Loop(invariant=[
            f"{NW} == 2 + len({MHS}) + _i and len(file.raw) == 2 + (2 if len({MHS}) > 0 else 0)",
            f"len({MHS}) == 0 or (file.raw[1] == '<hashes>\\n' and file.raw[2] == '</hashes>\\n')",
            "file.written[0].tag == 'creatorinfo' and file.written[1].tag == 'processinfo'",
            "all(" + REC.format(M=MHS) + f" for j in range(len({MHS})))",
            f"all(file.written[k].tag == 'hashlistreference' for k in range(2 + len({MHS}), len(file.written)))",
            f"_seq == {REFS} and hash_list.file_path == file_path",
        ]),
    },
    props=["C10", "C11", "C02"],
)
