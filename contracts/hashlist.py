"""Contracts on ascmhl/hashlist.py (model classes)."""
from vf.contracts import contract, Loop

contract(
    "ascmhl.hashlist.MHLHashList.__init__",
    modifies=["self.creator_info", "self.process_info", "self.media_hashes", "self.file_path", "self.generation_number",
              "self.referenced_hash_lists", "self.hash_list_references", "self.media_hashes_path_map"],
    ensures=[
        "self.creator_info is None",
        "fresh(self.process_info)",
        "self.process_info.root_media_hash is None",
        "self.process_info.process is None",
        "self.process_info.hashlist_custom_basename is None",
        "len(self.media_hashes) == 0",
        "len(self.media_hashes_path_map.keys()) == 0",
        "dict_is_empty(self.media_hashes_path_map)",
        "self.file_path is None",
        "self.generation_number is None",
        "len(self.referenced_hash_lists) == 0",
        "len(self.hash_list_references) == 0",
    ],
    props=["C04"],
)
contract(
    "ascmhl.hashlist.MHLProcessInfo.__init__",
    modifies=["self.process", "self.root_media_hash", "self.ignore_spec", "self.hashlist_custom_basename"],
    ensures=[
        "self.process is None",
        "self.root_media_hash is None",
        "self.hashlist_custom_basename is None",
        "fresh(self.ignore_spec)",
    ],
    props=["C04"],
)

contract(
    "ascmhl.hashlist.MHLMediaHash.append_hash_entry",
    params={"hash_entry": "MHLHashEntry"},
    modifies=["self.hash_entries", "hash_entry.media_hash"],
    ensures=["self.hash_entries == old(self.hash_entries) + [hash_entry]", "hash_entry.media_hash == self"],
    props=["C04", "C18"],
)

contract(
    "ascmhl.hashlist.MHLHashList.find_or_create_media_hash_for_path",
    params={"relative_path": "str", "file_size": "int?", "file_modification_date": "datetime?"},
    returns="MHLMediaHash",
    modifies=["self.media_hashes", "self.media_hashes_path_map", "self.process_info.root_media_hash"],
    ensures=[
        "self.media_hashes_path_map.get(relative_path) == result",
        "dict_same_except(self.media_hashes_path_map, old(self.media_hashes_path_map), relative_path)",
        # an existing record is returned unchanged
        "old(self.media_hashes_path_map.get(relative_path)) is None or (result == old(self.media_hashes_path_map.get(relative_path))"
        " and self.media_hashes == old(self.media_hashes))",
        # otherwise a fresh empty record for exactly this path is created and listed
        "old(self.media_hashes_path_map.get(relative_path)) is not None or (fresh(result) and result.path == relative_path"
        " and len(result.hash_entries) == 0 and result.file_size == file_size and result.previous_path is None"
        " and result.is_directory == False"
        " and (self.media_hashes == old(self.media_hashes) + [result] if relative_path != '.' else"
        "      (self.media_hashes == old(self.media_hashes) and self.process_info.root_media_hash == result)))",
    ],
    props=["C04", "C02", "C18"],
)
