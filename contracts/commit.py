"""Region contract on ONE iteration of the commit loop of MHLGenerationCreationSession.commit (C06, C08, C12):
for an arbitrary history of the tree and arbitrary bookkeeping of the iterations before it."""
from vf.contracts import contract, Loop
from contracts.history import INV1, ENT

NODUP = "all({l}[a] != {l}[b] for a in range(len({l})) for b in range(a))"

contract(
    "ascmhl.chain_xml_parser.write_chain",
    trusted=True,
    note="the chain writer: file-system effects are covered by the frame / crash obligations (C14, C15), its content by the contract of "
    "_write_chain_to_file (contracts/xmlwriter.py)",
    params={"chain": "MHLChain", "new_hash_list": "MHLHashList"},
    fs_modifies=["chain.file_path"],
    logs=True,
    ensures=[],
)
contract(
    "ascmhl.history.MHLHistory.latest_ignore_patterns",
    returns="list[str]?",
    pure=True,
    ensures=[
        "len(self.hash_lists) > 0 or result is None",
        "result is not None or len(self.hash_lists) == 0 or self.hash_lists[len(self.hash_lists) - 1].process_info.ignore_spec is None",
        "result is None or (len(self.hash_lists) > 0 and self.hash_lists[len(self.hash_lists) - 1].process_info.ignore_spec is not None"
        " and result == self.hash_lists[len(self.hash_lists) - 1].process_info.ignore_spec._ignore_list)",
        # (pre-digested for callers: a duplicate-free recorded list is returned duplicate-free)
        "result is None or not (" + NODUP.format(l="self.hash_lists[len(self.hash_lists) - 1].process_info.ignore_spec._ignore_list") + ") or " + NODUP.format(l="result"),
    ],
    props=["C12"],
)

H = "history"
LAST = "history.hash_lists[len(history.hash_lists) - 1].process_info.ignore_spec"
NEW = "_x_new_hash_list"
WRITES = f"(old({H} in self.new_hash_lists) or old({H} in referenced_hash_lists))"
contract(
    "ascmhl.generator.MHLGenerationCreationSession.commit",
    slices=6,
    params={"creator_info": "MHLCreatorInfo", "process_info": "MHLProcessInfo"},
    body_of_loop=0,
    locals={"history": "MHLHistory", "referenced_hash_lists": "defaultdict[MHLHistory,list[MHLHashList]]", "new_hash_list": "MHLHashList"},
    exposes={"new_hash_list": "MHLHashList", "referenced_hash_lists": "defaultdict[MHLHistory,list[MHLHashList]]"},
    requires=[
        # representation invariant of the history the iteration works on
        INV1.replace("self.", "history."),
        "history.asc_mhl_path is not None and history.asc_mhl_path != ''",
        "history.chain is not None",
        "process_info.hashlist_custom_basename is None",
        "self.root_history.asc_mhl_path is not None and self.root_history.asc_mhl_path != ''",
        # the session's new lists are not part of any loaded history; their entries are distinct objects (ownership)
        "history not in self.new_hash_lists or all(self.new_hash_lists[history] != history.hash_lists[g] for g in range(len(history.hash_lists)))",
        "history not in self.new_hash_lists or "
        + f"all({ENT('j','k')} != {ENT('j2','k2')} for j in range(len(hash_list.media_hashes)) for k in range(len(hash_list.media_hashes[j].hash_entries))"
        f" for j2 in range(len(hash_list.media_hashes)) for k2 in range(len(hash_list.media_hashes[j2].hash_entries)) if j != j2 or k != k2)".replace("hash_list.", "self.new_hash_lists[history]."),
        # tool-written pattern lists are duplicate-free (representation invariant, clause 4)
        "len(history.hash_lists) == 0 or history.hash_lists[len(history.hash_lists) - 1].process_info.ignore_spec is None or "
        + NODUP.format(l="history.hash_lists[len(history.hash_lists) - 1].process_info.ignore_spec._ignore_list"),
    ],
    modifies=["*.hash_lists", "*.action", "*.generation_number", "*.file_path", "*.referenced_hash_lists", "*.creator_info", "*.root_media_hash",
              "*.hashlist_custom_basename", "*.process", "*.ignore_spec", "*._ignore_list", "*.new_hash_lists", "*.media_hashes", "*.media_hashes_path_map",
              "*.process_info", "*.hash_list_references"],
    raises={"AssertionError": "True"},
    logs=True,
    cuts={
        "new_hash_list.process_info.ignore_spec = MHLIgnoreSpec(": [
            "new_hash_list.process_info.ignore_spec is not None and fresh(new_hash_list.process_info.ignore_spec)",
            f"len(history.hash_lists) == 0 or {LAST} is None or len({LAST}._ignore_list) == 0"
            f" or all(new_hash_list.process_info.ignore_spec._ignore_list[j] == {LAST}._ignore_list[j] for j in range(len({LAST}._ignore_list)))",
        ],
    },
    ensures=[
        # a history without records in the session and without a written child is skipped: no generation is added
        f"{WRITES} or {H}.hash_lists == old({H}.hash_lists)",
        # otherwise exactly ONE generation is appended, numbered one above the highest existing one
        f"not {WRITES} or ({H}.hash_lists == old({H}.hash_lists) + [{NEW}] and {NEW}.generation_number == len(old({H}.hash_lists)) + 1)",
        # it references exactly the child generations collected for this history so far (children are committed first)
        f"not {WRITES} or {NEW}.referenced_hash_lists == old(referenced_hash_lists.get({H}, []))" if False else
        f"not {WRITES} or not old({H} in referenced_hash_lists) or {NEW}.referenced_hash_lists == old(referenced_hash_lists[{H}])",
        # and is itself handed to the parent's bookkeeping, after everything the parent had collected before
        f"not {WRITES} or {H}.parent_history is None or (len(_x_referenced_hash_lists[{H}.parent_history]) >= 1"
        f" and _x_referenced_hash_lists[{H}.parent_history][len(_x_referenced_hash_lists[{H}.parent_history]) - 1] == {NEW})",
        # its pattern list: the previous generation's patterns first and in order, every session pattern included, no duplicates (C12)
        f"not {WRITES} or {NEW}.process_info.ignore_spec is not None",
        f"not {WRITES} or {NODUP.format(l=NEW + '.process_info.ignore_spec._ignore_list')}",
        f"not {WRITES} or len(old({H}.hash_lists)) == 0 or old({H}.hash_lists[len({H}.hash_lists) - 1].process_info.ignore_spec) is None"
        f" or len(old({H}.hash_lists[len({H}.hash_lists) - 1].process_info.ignore_spec._ignore_list)) == 0"
        f" or all({NEW}.process_info.ignore_spec._ignore_list[j] == old({H}.hash_lists[len({H}.hash_lists) - 1].process_info.ignore_spec._ignore_list)[j]"
        f"        for j in range(len(old({H}.hash_lists[len({H}.hash_lists) - 1].process_info.ignore_spec._ignore_list))))",
        f"not {WRITES} or all(any({NEW}.process_info.ignore_spec._ignore_list[k] == old(self.ignore_spec._ignore_list)[j] for k in range(len({NEW}.process_info.ignore_spec._ignore_list)))"
        f" for j in range(len(old(self.ignore_spec._ignore_list))))",
        f"not {WRITES} or {NEW}.creator_info == creator_info",
    ],
    props=["C06", "C08", "C12"],
)
