"""Contracts on the info command (C19): what is printed is exactly what the loaded history holds."""
from vf.contracts import contract, Loop

LINE = "'  Generation ' + str_of_optint({g}.generation_number) + ' (' + str_of_optstr({g}.creator_info.creation_date) + ')'"

# non-verbose branch (logger.verbose_logging is False): one line per generation of this history, in list order, starting
# right after what was printed before; the lines of the child histories follow
contract(
    "ascmhl.commands.log_child_histories",
    params={"history": "MHLHistory"},
    requires=["not logger_verbose()", "hist_ok(history)"],
    entry_lemmas=["L_hist_ok(history)"],
    logs=True,
    ensures=[
        "len(out) >= len(old(out)) + len(history.hash_lists)",
        "all(out[j] == old(out)[j] for j in range(len(old(out))))",
        f"all(out[len(old(out)) + j] == {LINE.format(g='history.hash_lists[j]')} for j in range(len(history.hash_lists)))",
        # every direct child history is announced after the generations of this history
        "len(history.child_histories) == 0 or len(out) >= len(old(out)) + len(history.hash_lists) + len(history.child_histories)",
    ],
    loops={
        0: Loop(invariant=[
            "len(out) == len(old(out)) + _i",
            "all(out[j] == old(out)[j] for j in range(len(old(out))))",
            f"all(out[len(old(out)) + j] == {LINE.format(g='history.hash_lists[j]')} for j in range(_i))",
        ]),
        1: Loop(invariant=[
            "len(out) >= len(old(out)) + len(history.hash_lists) + _i",
            "all(out[j] == old(out)[j] for j in range(len(old(out))))",
            f"all(out[len(old(out)) + j] == {LINE.format(g='history.hash_lists[j]')} for j in range(len(history.hash_lists)))",
        ]),
    },
    props=["C19"],
)

# ---- info -sf FILE (C19): ONE iteration of the loop over the generations, non-verbose branch: a generation without a
# record for the path prints nothing; otherwise one line per recorded digest, in entry order, with generation number,
# creation date, format, digest and action exactly as recorded
MHF = "hash_list.media_hashes_path_map.get(relative_path)"
LINE2 = (
    "'  Generation ' + str_of_optint(hash_list.generation_number) + ' (' + str_of_optstr(hash_list.creator_info.creation_date) + ') '"
    " + {e}.hash_format + ': ' + {e}.hash_string + ' (' + str_of_optstr({e}.action) + ')'"
)
contract(
    "ascmhl.commands.info_for_single_file",
    params={"root_path": "str", "verbose": "bool", "single_file": "list[str]"},
    body_of_loop=1,
    locals={"hash_list": "MHLHashList", "relative_path": "str", "existing_history": "MHLHistory", "path": "str"},
    requires=["not logger_verbose()", "hash_list.creator_info is not None"],
    logs=True,
    ensures=[
        "all(out[j] == old(out)[j] for j in range(len(old(out))))",
        f"{MHF} is not None or len(out) == len(old(out))",
        f"{MHF} is None or len(out) == len(old(out)) + len({MHF}.hash_entries)",
        f"{MHF} is None or all(out[len(old(out)) + j] == " + LINE2.format(e=f"{MHF}.hash_entries[j]") + f" for j in range(len({MHF}.hash_entries)))",
    ],
    loops={
        2: Loop(invariant=[
            "len(out) == len(old(out)) + _i",
            "all(out[j] == old(out)[j] for j in range(len(old(out))))",
            "all(out[len(old(out)) + j] == " + LINE2.format(e="_seq[j]") + " for j in range(_i))",
            f"media_hash is not None and media_hash == {MHF} and _seq == media_hash.hash_entries",
        ]),
    },
    props=["C19"],
)
