"""Contracts on the info command (C19): what is printed is exactly what the loaded history holds."""
from vf.contracts import contract, Loop

LINE = "'  Generation ' + str_of_optint({g}.generation_number) + ' (' + str_of_optstr({g}.creator_info.creation_date) + ')'"

# non-verbose branch (logger.verbose_logging is False): one line per generation of this history, in list order, starting
# right after what was printed before; the lines of the child histories follow
contract(
    "ascmhl.commands.log_child_histories",
    params={"history": "MHLHistory"},
    requires=["not logger_verbose()", "hist_ok(history)"],
    entry_lemmas=["L_hist_ok(history)"],
    logs=True,
    ensures=[
        "len(out) >= len(old(out)) + len(history.hash_lists)",
        "all(out[j] == old(out)[j] for j in range(len(old(out))))",
        f"all(out[len(old(out)) + j] == {LINE.format(g='history.hash_lists[j]')} for j in range(len(history.hash_lists)))",
        # every direct child history is announced after the generations of this history
        "len(history.child_histories) == 0 or len(out) >= len(old(out)) + len(history.hash_lists) + len(history.child_histories)",
    ],
    loops={
        0: Loop(invariant=[
            "len(out) == len(old(out)) + _i",
            "all(out[j] == old(out)[j] for j in range(len(old(out))))",
            f"all(out[len(old(out)) + j] == {LINE.format(g='history.hash_lists[j]')} for j in range(_i))",
        ]),
        1: Loop(invariant=[
            "len(out) >= len(old(out)) + len(history.hash_lists) + _i",
            "all(out[j] == old(out)[j] for j in range(len(old(out))))",
            f"all(out[len(old(out)) + j] == {LINE.format(g='history.hash_lists[j]')} for j in range(len(history.hash_lists)))",
        ]),
    },
    props=["C19"],
)
