"""C03 bounded part: verify / diff / create on sealed worlds after every single and many combined mutations.

Oracle (from the statement only): a ghost model of what has been recorded so far - for every root-relative path the
kind (file / directory) and, for files, the bytes they had when they were recorded first - plus the ignore patterns in
force.  From the ghost and the tree on disk three sets follow:
  A = recorded, present, not ignored files whose bytes differ from the bytes recorded first      (altered)
  R = recorded files / directories that are gone and are not ignored                              (removed)
  N = present, not ignored files that were never recorded                                         (new)
and from these the exit codes:  verify: A -> 11, else N -> 21, else R -> 10, else 0;  create: A -> 11, else R -> 10,
else 0;  diff: R -> 10 (21 is accepted as well when N is non-empty: the statement gives both clauses), N -> 21, 0 when
A, R, N are all empty (no claim when only A is non-empty).  Every path of A (verify, create), R (all three), N (verify,
diff) has to be named in the output, and no path outside A, R, N may be named ("never a false one").
Neither mtimes nor the digests / manifests written by the tool are consulted by the oracle.
"""
import copy
import multiprocessing
import os
import random
import re
import shutil
import subprocess
import sys
import time

from . import scen as S
from . import world as W
from .common import REPO, Run

M = 1 << 20
SPELLS = ("abs", "slash", "rel", "dot", "dotdot")


# ------------------------------------------------------------------------------------------------ small helpers
def rd(p):
    with open(p, "rb") as f:
        return f.read()


def wr(p, b):
    os.makedirs(os.path.dirname(p), exist_ok=True)
    with open(p, "wb") as f:
        f.write(b if isinstance(b, bytes) else b.encode("utf-8"))


def named(out, p):
    """p occurs in the output as a whole blank-delimited word (so Clips does not count for Clips_proxy or Clips/x)"""
    return re.search(r"(?:^|[ \t])" + re.escape(p) + r"(?:[ \t]|$)", out, re.M) is not None


def alt(fmts):
    """a format set that has nothing in common with fmts"""
    for c in (["sha1"], ["xxh3"], ["xxh128", "c4"], ["md5"]):
        if not set(c) & set(fmts):
            return c
    return ["xxh64"]


def spell(root, how):
    """(argument, cwd) for a way to write the root path on the command line"""
    if how == "slash":
        return root + os.sep, None
    if how == "rel":
        return os.path.basename(root), os.path.dirname(root)
    if how == "dot":
        return ".", root
    if how == "dotdot":
        for n in sorted(os.listdir(root)):
            p = os.path.join(root, n)
            if n != "ascmhl" and os.path.isdir(p) and not os.path.islink(p):
                return "..", p
    return root, None


def under(p, d):
    return p == d or p.startswith(d + os.sep)


# ------------------------------------------------------------------------------------------------ ghost model + oracle
class Ghost:
    def __init__(self, root):
        self.root = root
        self.patterns = list(W.DEFAULT_IGNORE)
        self.kind = {}
        self.orig = {}
        self.maybe = set()  # new files met by a create that did not exit 0: recorded or not is left open

    def moved(self, root):
        g = copy.copy(self)
        g.root, g.patterns, g.kind, g.orig, g.maybe = root, list(self.patterns), dict(self.kind), dict(self.orig), set(self.maybe)
        return g

    def with_patterns(self, extra):
        return self.patterns + [p for p in extra if p not in self.patterns]

    def add_patterns(self, extra):
        self.patterns = self.with_patterns(extra)

    def record(self, rel, k):
        if rel in self.kind:
            return
        self.kind[rel] = k
        if k == "f":
            self.orig[rel] = rd(os.path.join(self.root, rel))

    def record_visible(self, sub="", patterns=None, only_files=False, uncertain=False):
        """what a folder-mode create of root/sub records: every non-ignored entry below it (paths stay root-relative)"""
        top = os.path.join(self.root, sub) if sub else self.root
        for rel, k in W.visible_tree(top, patterns if patterns is not None else self.patterns).items():
            full = os.path.join(sub, rel) if sub else rel
            if only_files and k != "f":
                continue
            if uncertain and full not in self.kind and k == "f":
                self.maybe.add(full)
            self.record(full, k)

    def expect(self, extra=(), sub=""):
        """(A, R, N) for a command run on root/sub with the additional patterns `extra`; paths relative to root/sub"""
        pats = self.with_patterns(extra)
        spec = W.spec_of(pats)
        top = os.path.join(self.root, sub) if sub else self.root
        vis = W.visible_tree(top, pats)
        A, N, R = [], [], []
        for rel, k in vis.items():
            full = os.path.join(sub, rel) if sub else rel
            if k != "f":
                continue
            if full not in self.kind:
                N.append(rel)
            elif self.kind[full] == "f" and rd(os.path.join(top, rel)) != self.orig[full]:
                A.append(rel)
        for full in self.kind:
            if sub and not full.startswith(sub + os.sep):
                continue
            rel = os.path.relpath(full, sub) if sub else full
            if not os.path.lexists(os.path.join(self.root, full)) and not W.ignored(rel, spec):
                R.append(rel)
        return sorted(A), sorted(R), sorted(N)

    def universe(self, sub=""):
        top = os.path.join(self.root, sub) if sub else self.root
        u = set(W.listing(top, skip_ascmhl=True))
        for full in self.kind:
            if not sub:
                u.add(full)
            elif full.startswith(sub + os.sep):
                u.add(os.path.relpath(full, sub))
        return u


def want_codes(cmd, A, R, N):
    if cmd == "verify":
        return {11} if A else {21} if N else {10} if R else {0}
    if cmd == "create":
        return {11} if A else {10} if R else {0}
    if R and N:
        return {10, 21}
    if R:
        return {10}
    if N:
        return {21}
    return None if A else {0}


def state_label(A, R, N, mutated):
    s = ("A" if A else "") + ("R" if R else "") + ("N" if N else "")
    return s or ("benign" if mutated else "unchanged")


def judge(viol, cmd, res, A, R, N, universe, mutated, ctx, maybe=()):
    """compare one command's exit code and output with the oracle; `maybe`: files that may or may not count as new"""
    code, out, exc = res
    lab = state_label(A, R, N, mutated)
    cmd_l = ctx.get("wprefix", "") + cmd
    want = want_codes(cmd, A, R, N)
    if maybe:
        w2 = want_codes(cmd, A, R, sorted(set(N) | set(maybe)))
        want = None if want is None or w2 is None else want | w2
    inp = dict(ctx, altered=A[:6], removed=R[:6], new=N[:6])
    if want is not None and (code not in want or exc is not None):
        viol.append(
            (
                f"{cmd} exits {code}{' with ' + repr(exc) if exc is not None else ''}, expected {sorted(want)} "
                f"[altered={A[:4]} removed={R[:4]} new={N[:4]}] ({ctx.get('mut', 'no mutation')}); output: {out[-400:]!r}",
                f"{cmd_l}/exit/{lab}",
                inp,
            )
        )
    if exc is not None:
        return
    must = {"verify": [("altered", A), ("removed", R), ("new", N)], "create": [("altered", A), ("removed", R)], "diff": [("removed", R), ("new", N)]}[cmd]
    for what, paths in must:
        missing = [p for p in paths if not named(out, p)]
        if missing:
            viol.append(
                (
                    f"{cmd} (exit {code}) does not name the {what} path(s) {missing[:5]} [altered={A[:4]} removed={R[:4]} "
                    f"new={N[:4]}] ({ctx.get('mut', 'no mutation')}); output: {out[-400:]!r}",
                    f"{cmd_l}/unnamed/{what}",
                    inp,
                )
            )
    affected = set(A) | set(R) | set(N) | set(maybe)
    false = sorted(p for p in universe if p not in affected and named(out, p))
    if false:
        viol.append(
            (
                f"{cmd} (exit {code}) names {false[:5]} although neither altered, removed nor new [altered={A[:4]} "
                f"removed={R[:4]} new={N[:4]}] ({ctx.get('mut', 'no mutation')}); output: {out[-400:]!r}",
                f"{cmd_l}/false-report",
                inp,
            )
        )


# ------------------------------------------------------------------------------------------------ sealing (also judged)
def seal(g, fmts, viol, ctx, opts=(), ign=(), ii=None, sf=None, how="abs", sub="", sf_relative=False):
    """one `create` on root (or on the nested root `sub`), judged against the oracle, then the ghost is updated.
    ign: -i patterns, ii: (path of pattern file as given on the command line, cwd or None, lines), sf: root-relative
    paths for -sf."""
    top = os.path.join(g.root, sub) if sub else g.root
    new_pats = list(ign) + (list(ii[2]) if ii else [])
    if sub:
        # a history below the outer root is created on its own: only the default patterns are in force there
        A, R, N = Ghost.expect(_sub_ghost(g, sub), new_pats)
        uni = _sub_ghost(g, sub).universe()
    else:
        A, R, N = g.expect(new_pats)
        uni = g.universe()
    arg, cwd = spell(top, how)
    if ii and ii[1]:
        arg, cwd = top, ii[1]
    args = [arg] + S.hargs(fmts) + list(opts)
    for p in ign:
        args += ["-i", p]
    if ii:
        args += ["-ii", ii[0]]
    if sf is not None:
        sel = set()
        vis = W.visible_tree(top, g.with_patterns(new_pats) if not sub else W.DEFAULT_IGNORE + new_pats)
        for s in sf:
            ap = os.path.join(top, s)
            args += ["-sf", os.path.relpath(ap, cwd) if (sf_relative and cwd) else ap]
            sel |= {p for p, k in vis.items() if k == "f" and under(p, s)}
        A, R, N = [p for p in A if p in sel], [], []
    res = W.run("create", args, cwd=cwd)
    judge(viol, "create", res, A, R, [] if sf is None else N, uni, True, dict(ctx, step=f"create {' '.join(args[1:])}"), maybe=N if sf is None else ())
    if res[2] is not None:
        return res
    if sub:
        sg = _sub_ghost(g, sub)
        for rel, k in W.visible_tree(top, W.DEFAULT_IGNORE + new_pats).items():
            if sf is None or (k == "f" and rel in sel):
                g.record(os.path.join(sub, rel), k)
        return res
    g.add_patterns(new_pats)
    if sf is None:
        g.record_visible(uncertain=res[0] != 0)
    else:
        for p in sorted(sel):
            g.record(p, "f")
    return res


def _sub_ghost(g, sub):
    """the ghost as seen from a nested root that is driven on its own (default patterns, paths relative to it)"""
    sg = Ghost(os.path.join(g.root, sub))
    for full, k in g.kind.items():
        if full.startswith(sub + os.sep):
            rel = os.path.relpath(full, sub)
            sg.kind[rel] = k
            if k == "f":
                sg.orig[rel] = g.orig[full]
    return sg


# ------------------------------------------------------------------------------------------------ histories
def files_of(g):
    return sorted(p for p, k in W.visible_tree(g.root, g.patterns).items() if k == "f" and not os.path.islink(os.path.join(g.root, p)))


def flip_keep(path):
    """invert one byte in the middle, same size, same atime / mtime"""
    st = os.stat(path)
    b = bytearray(rd(path))
    b[len(b) // 2] ^= 0x01
    wr(path, bytes(b))
    os.utime(path, ns=(st.st_atime_ns, st.st_mtime_ns))


def h_one(g, F, viol, ctx, k):
    seal(g, F, viol, ctx)


def h_fmts(g, F, viol, ctx, k):
    seal(g, F, viol, ctx, how="slash")
    seal(g, alt(F), viol, ctx, how="rel")
    seal(g, alt(F) + ["xxh64" if "xxh64" not in alt(F) else "md5"], viol, ctx, how="dot")
    seal(g, ["c4"], viol, ctx, how="dotdot")


def h_nodir(g, F, viol, ctx, k):
    seal(g, F, viol, ctx, opts=["-n"])
    seal(g, alt(F), viol, ctx, opts=["-n"], how="dot")


def h_sf(g, F, viol, ctx, k):
    seal(g, F, viol, ctx)
    fs = files_of(g)
    if fs:
        seal(g, alt(F), viol, ctx, sf=[fs[k % len(fs)]])
        seal(g, F, viol, ctx, sf=[fs[(k + 1) % len(fs)], fs[(k + 1) % len(fs)]], how="rel", sf_relative=True)
        d = os.path.dirname(fs[-1])
        if d:
            seal(g, F, viol, ctx, sf=[d])


def h_sffirst(g, F, viol, ctx, k):
    fs = files_of(g)
    if fs:
        seal(g, F, viol, ctx, sf=[fs[k % len(fs)]])
    seal(g, F, viol, ctx)


def h_failed(g, F, viol, ctx, k):
    """a generation that failed (exit 11) in the middle of the history, file restored afterwards"""
    seal(g, F, viol, ctx)
    fs = [f for f in files_of(g) if os.path.getsize(os.path.join(g.root, f)) > 0]
    if fs:
        p = os.path.join(g.root, fs[k % len(fs)])
        keep = rd(p)
        flip_keep(p)
        seal(g, F, viol, ctx)
        seal(g, alt(F), viol, ctx)
        wr(p, keep)
    seal(g, F, viol, ctx)


def h_failedleft(g, F, viol, ctx, k):
    """the last generation failed and the file stays altered: the latest record of it is not the original one"""
    seal(g, F, viol, ctx)
    fs = [f for f in files_of(g) if os.path.getsize(os.path.join(g.root, f)) > 0]
    if fs:
        flip_keep(os.path.join(g.root, fs[k % len(fs)]))
        seal(g, F, viol, ctx)
        seal(g, alt(F), viol, ctx)


def h_goneback(g, F, viol, ctx, k):
    """a generation made while a file was missing (exit 10), file put back afterwards"""
    seal(g, F, viol, ctx)
    fs = files_of(g)
    if fs:
        p = os.path.join(g.root, fs[k % len(fs)])
        keep = rd(p)
        os.remove(p)
        seal(g, F, viol, ctx)
        wr(p, keep)
    seal(g, alt(F), viol, ctx)


def h_eleven(g, F, viol, ctx, k):
    sets = [F, alt(F), ["c4"], F + alt(F)]
    for i in range(12):
        seal(g, sets[i % 4], viol, ctx, opts=["-n"] if i == 5 else [], how=SPELLS[i % 4])


def h_dup(g, F, viol, ctx, k):
    seal(g, F + F, viol, ctx)
    seal(g, F + alt(F) + F, viol, ctx)


HISTS = {
    "one": h_one,
    "fmts": h_fmts,
    "nodir": h_nodir,
    "sf": h_sf,
    "sffirst": h_sffirst,
    "failed": h_failed,
    "failedleft": h_failedleft,
    "goneback": h_goneback,
    "eleven": h_eleven,
    "dup": h_dup,
}


def build_world(tmp, tree, nested, hist, F, viol, ctx, k=0, nested_fmts=None):
    root = os.path.join(tmp, "t")
    W.build(root, S.TREES[tree] if isinstance(tree, str) else tree)
    g = Ghost(root)
    for nr in nested:
        seal(g, nested_fmts or F, viol, ctx, sub=nr)
    HISTS[hist](g, F, viol, ctx, k)
    return g


# ------------------------------------------------------------------------------------------------ mutations
ADD_NAMES = ["zz_new.bin", "n w.txt", "n\u00e9w.bin", "ne\u0301w.bin", "new&<'>.x", "new\u2028l.bin"]


def mutations(g):
    """all single mutations of the sealed world as (kind, index, root-relative target); indices are positions in the
    sorted lists, so ids are stable and shell-safe"""
    vis = W.visible_tree(g.root, g.patterns)
    files = sorted(p for p, k in vis.items() if k == "f" and not os.path.islink(os.path.join(g.root, p)))
    dirs = sorted(p for p, k in vis.items() if k == "d" and not os.path.islink(os.path.join(g.root, p)))
    roots = W.nested_roots(g.root)
    out = []
    for i, f in enumerate(files):
        size = os.path.getsize(os.path.join(g.root, f))
        if size:
            out += [("flip", i, f), ("trunc", i, f)]
        out += [("append", i, f), ("del", i, f), ("addafter", i, f + "_")]
    for j, d in enumerate(dirs):
        full = os.path.join(g.root, d)
        if not os.listdir(full):
            out.append(("rmdir", j, d))
        elif not any(under(r, d) for r in roots):
            out.append(("deltree", j, d))
    for j, d in enumerate([""] + dirs):
        out.append(("add", j, os.path.join(d, ADD_NAMES[j % len(ADD_NAMES)])))
        out.append(("addsub", j, os.path.join(d, "new dir", "in", ADD_NAMES[(j + 1) % len(ADD_NAMES)])))
    for j, r in enumerate(roots):
        out.append(("addnear", j, r + "_x"))
        if len(os.path.basename(r)) > 1 and not os.path.lexists(os.path.join(g.root, r[:-1])):
            out.append(("addshort", j, r[:-1]))
    out += [("touch", 0, "."), ("touch", 1, "."), ("ign", 0, "."), ("ign", 1, ".")]
    return out


TOUCH_TIMES = [978307200, 1635642000 + 1800, 1616893199, 4102444800]  # 2001, repeated CET hour, before CEST, 2100


def apply(g, mut):
    kind, idx, target = mut
    p = os.path.join(g.root, target)
    if kind == "flip":
        flip_keep(p)
    elif kind == "append":
        with open(p, "ab") as f:
            f.write(b"+")
    elif kind == "trunc":
        b = rd(p)
        wr(p, b[:-1])
    elif kind == "del":
        os.remove(p)
    elif kind == "rmdir":
        os.rmdir(p)
    elif kind == "deltree":
        shutil.rmtree(p)
    elif kind in ("add", "addsub", "addafter", "addnear", "addshort"):
        wr(p, "new " + target)
    elif kind == "touch":
        t = TOUCH_TIMES[idx * 2 % len(TOUCH_TIMES)]
        for dp, dns, fns in os.walk(g.root):
            for n in dns + fns:
                q = os.path.join(dp, n)
                if not os.path.islink(q) and (idx == 0 or "ascmhl" not in q.split(os.sep)):
                    os.utime(q, (t, t + (len(n) if idx else 0)))
        os.utime(g.root, (t, t))
    elif kind == "ign":
        # ignored paths change: finder droppings anywhere, stray files inside history folders
        for dp, dns, fns in os.walk(g.root):
            if "ascmhl" in dp.split(os.sep):
                continue
            if idx == 0 or dp == g.root:
                wr(os.path.join(dp, ".DS_Store"), "junk " + dp)
            if "ascmhl" in dns and idx == 1:
                wr(os.path.join(dp, "ascmhl", "notes.txt"), "stray")
                os.makedirs(os.path.join(dp, "ascmhl", "sub.d"), exist_ok=True)
    else:
        raise ValueError(kind)


REMOVERS = ("del", "rmdir", "deltree")


def needs(m):
    """the path that has to exist for the mutation to be applicable"""
    kind, _, t = m
    if kind == "addsub":
        return os.path.dirname(os.path.dirname(os.path.dirname(t)))
    if kind.startswith("add"):
        return os.path.dirname(t)
    return t


def conflict(m1, m2):
    if "." in (m1[2], m2[2]):
        return m1[0] == m2[0]
    if m1[2] == m2[2]:
        return True
    for x, y in ((m1, m2), (m2, m1)):
        if x[0] in REMOVERS and (under(needs(y), x[2]) or under(y[2], x[2])):
            return True
        if x[0] == "rmdir" and under(y[2], x[2]):
            return True
    return False


def combos(muts, rnd, n):
    out, seen, tries = [], set(), 0
    while len(out) < n and tries < 50 * n and len(muts) > 2:
        tries += 1
        c = rnd.sample(muts, rnd.choice((2, 2, 3)))
        if any(conflict(x, y) for i, x in enumerate(c) for y in c[i + 1 :]):
            continue
        c.sort(key=lambda m: (m[0] in ("ign", "touch"), m[0], m[1]))
        key = tuple((m[0], m[1]) for m in c)
        if len({m[0] for m in c}) < 2 or key in seen:
            continue
        seen.add(key)
        out.append(c)
    return out


def mid(ms):
    return "+".join(f"{k}{i}" for k, i, _ in ms)


# ------------------------------------------------------------------------------------------------ one case
def run_case(g, F, ms, viol, ctx, how="abs", check_extra=(), stage2=True, nested_check=True, create_fmts=None, check_ii=None):
    """apply the mutations, then verify, diff (also on one nested root), create, and verify / diff once more"""
    for m in ms:
        apply(g, m)
    mutated = bool(ms)
    ctx = dict(ctx, mut=", ".join(f"{k} {t}" for k, _, t in ms) or "no mutation")
    A, R, N = g.expect(check_extra)
    uni = g.universe()
    iargs = []
    for p in check_extra:
        iargs += ["-i", p]
    arg, cwd = spell(g.root, how)
    for cmd in ("verify", "diff"):
        # check-time patterns: as -i options, or (verify) through a pattern file
        ia = ["-ii", check_ii] if (check_ii and cmd == "verify") else iargs
        judge(viol, cmd, W.run(cmd, [arg] + ia, cwd=cwd), A, R, N, uni, mutated, dict(ctx, spelling=how), maybe=g.maybe)
    roots = W.nested_roots(g.root)
    if nested_check and roots and g.patterns == W.DEFAULT_IGNORE and not check_extra:
        nr = roots[(len(ms) + len(A) + len(N)) % len(roots)]
        sg = _sub_ghost(g, nr)
        a, r, n = sg.expect()
        mb = {os.path.relpath(p, nr) for p in g.maybe if p.startswith(nr + os.sep)}
        for cmd in ("verify", "diff"):
            judge(viol, cmd, W.run(cmd, [sg.root]), a, r, n, sg.universe(), mutated, dict(ctx, at=nr), maybe=mb)
    cf = create_fmts or F
    args = [arg] + S.hargs(cf) + iargs
    res = W.run("create", args, cwd=cwd)
    judge(viol, "create", res, A, R, [], uni, mutated, dict(ctx, spelling=how, formats=cf))
    if res[2] is not None or not stage2:
        return (A, R, N), res[0]
    g.add_patterns(check_extra)
    g.record_visible(uncertain=res[0] != 0)
    A2, R2, N2 = g.expect()
    arg, cwd = spell(g.root, "abs" if how != "abs" else "rel")
    for cmd in ("verify", "diff"):
        judge(viol, cmd, W.run(cmd, [arg], cwd=cwd), A2, R2, N2, g.universe(), mutated, dict(ctx, stage="after create"), maybe=g.maybe)
    return (A, R, N), res[0]


def result(cid, key, sample, viol):
    return {"cid": cid, "key": key, "sample": sample, "viol": viol}


# ------------------------------------------------------------------------------------------------ jobs
def job_world(p):
    """p: tmp, tree, ni, hist, fi, tier, seed, only.  One sealed world, then every selected mutation on a copy of it
    (every fifth case and the unchanged case run on a world built in place)."""
    tmp, tree, ni, hist, F, tier, seed, only, k = p["tmp"], p["tree"], p["ni"], p["hist"], p["fmts"], p["tier"], p["seed"], p["only"], p["k"]
    wid = p["wid"]
    nested = S.NESTED[tree][ni]
    rnd = random.Random(f"{seed}/{wid}")
    out = []
    nf = alt(F) if k % 3 == 2 else None
    ctx = {"tree": tree, "nested": nested, "hist": hist, "formats": F}
    bviol = []
    g0 = build_world(os.path.join(tmp, "tpl"), tree, nested, hist, F, bviol, ctx, k, nf)
    muts = mutations(g0)
    mode, ncomb = p["mode"], p["ncomb"]
    full = mode != "kinds"
    if mode == "all":
        sel = [[m] for m in muts]
    elif mode.startswith("stride"):
        st = int(mode[6:])
        sel = [[m] for i, m in enumerate(muts) if i % st == k % st]
    else:
        kinds = []
        for m in muts:
            if m[0] not in kinds:
                kinds.append(m[0])
        sel = []
        for kd in kinds:
            c = [m for m in muts if m[0] == kd]
            sel.append([c[(k + len(sel)) % len(c)]])
    sel += combos(muts, rnd, ncomb)
    # the unchanged world: two rounds on the world where it was built
    cid = f"{wid}/unchanged"
    if only is None or only == cid:
        viol = list(bviol)
        g = g0 if only is not None or not sel else build_world(os.path.join(tmp, "inplace0"), tree, nested, hist, F, [], ctx, k, nf)
        run_case(g, F, [], viol, ctx, how=SPELLS[k % len(SPELLS)])
        run_case(g, alt(F), [], viol, ctx, how=SPELLS[(k + 2) % len(SPELLS)], stage2=False)
        out.append(result(cid, ("unchanged", tree, ni, hist, tuple(F)) if g.kind else None, {"case": cid, "generations": len(W.manifests(g.root))}, viol))
    for n, ms in enumerate(sel):
        cid = f"{wid}/{mid(ms)}"
        if only is not None and only != cid:
            continue
        viol = []
        if n % 5 == 4:
            g = build_world(os.path.join(tmp, f"ip{n}"), tree, nested, hist, F, [], ctx, k, nf)
        else:
            dst = os.path.join(tmp, f"c{n}", "t")
            shutil.copytree(g0.root, dst, symlinks=True)
            g = g0.moved(dst)
        sets, code = run_case(
            g, F, ms, viol, ctx, how=SPELLS[(n + k) % len(SPELLS)], create_fmts=alt(F) if n % 2 else None, stage2=(full or n % 2 == 0)
        )
        key = (tree, ni, hist, tuple(F), tuple((m[0], m[2]) for m in ms))
        out.append(result(cid, key, {"case": cid, "mutation": [f"{m[0]} {m[2]}" for m in ms], "A,R,N": [len(x) for x in sets], "create": code}, viol))
        shutil.rmtree(os.path.dirname(g.root), ignore_errors=True)
    shutil.rmtree(tmp, ignore_errors=True)
    return out


IGN_TREE = {
    "keep.txt": "k",
    "notes.md": "n",
    "log/a.log": "1",
    "log/b.txt": "2",
    "tmp/x.tmp": "3",
    "tmp/deep/y.tmp": "4",
    "tmp/deep/keep.dat": "5",
    "src/main.c": "6",
    "src/tmp/z.o": "7",
    "src/x.tmp": "8",
    "build/out.bin": "9",
    "sub/build/in.bin": "10",
    "Clips/c.mov": "c",
    "Clips_proxy/p.mov": "p",
    "Clips.txt": "t",
}
# name: (nested roots, [generation = (ign patterns, ii lines or None)], check-time patterns)
IGN_WORLDS = {
    "glob": ([], [(["*.tmp"], None)], []),
    "dirslash": ([], [(["log/", "tmp/deep/"], None)], []),
    "anchored": ([], [(["src/tmp", "/build"], None)], []),
    "iifile": ([], [([], ["*.o", "tmp/deep/", "Clips"])], []),
    "iirel": ([], [(["*.log"], ["*.o", "/Clips_proxy"])], []),
    "negate-later": ([], [(["*.txt"], None), (["!keep.txt"], None)], []),
    "later-ignored": ([], [([], None), (["*.tmp", "log", "src/tmp", "/build"], None), ([], None)], []),
    # folders that are recorded first and excluded later by folder-only (trailing slash) patterns
    "later-ignored-dirslash": ([], [([], None), (["log/", "tmp/deep/"], None), ([], None)], []),
    "checktime-dirslash": ([], [([], None)], ["log/", "tmp/deep/"]),
    "dup": ([], [(["*.tmp", "*.tmp"], None), (["*.tmp"], ["*.tmp"])], []),
    "checktime": ([], [([], None)], ["*.tmp", "Clips"]),
    "nested": (["src", "tmp/deep"], [(["*.tmp"], None)], []),
    "nested-later": (["Clips"], [([], None), (["Clips"], None)], []),
    "reinclude-below-ignored": ([], [([], None), (["sub", "!sub/build/in.bin"], None)], []),
}


def job_ignore(p):
    tmp, name, tier, seed, only = p["tmp"], p["name"], p["tier"], p["seed"], p["only"]
    nested, gens, check_extra = IGN_WORLDS[name]
    F = ["md5"] if len(name) % 2 else ["xxh64", "c4"]
    ctx = {"ignore-world": name, "generations": [g[0] + (g[1] or []) for g in gens], "check-time": check_extra}
    if name == "reinclude-below-ignored":
        ctx["wprefix"] = "reinclude-below-ignored:"
    out = []

    def build(where, viol):
        root = os.path.join(tmp, where, "t")
        W.build(root, IGN_TREE)
        g = Ghost(root)
        for nr in nested:
            seal(g, F, viol, ctx, sub=nr)
        for gi, (ign, lines) in enumerate(gens):
            ii = None
            if lines is not None:
                pf = os.path.join(tmp, where, f"pat{gi}.txt")
                wr(pf, "\n".join(lines) + "\n")
                # relative option path with a cwd that is neither the root nor its parent
                ii = (os.path.join("..", "..", f"pat{gi}.txt"), root + os.sep + "src", lines) if name == "iirel" else (pf, None, lines)
            seal(g, F if gi % 2 == 0 else alt(F), viol, ctx, ign=ign, ii=ii, how="abs" if ii else SPELLS[gi % 4])
        return g

    bviol = []
    g0 = build("tpl", bviol)
    spec = W.spec_of(g0.with_patterns(check_extra))
    every = sorted(p for p, v in W.listing(g0.root, skip_ascmhl=True).items() if v[0] == "f")
    cases = [("unchanged", [])]
    for i, f in enumerate(every):
        ig = W.ignored(f, spec)
        if tier == "thorough" or ig or i % 3 == len(name) % 3 or "keep" in f:
            cases.append((f"flip{i}", [("flip", i, f)]))
            cases.append((f"del{i}", [("del", i, f)]))
    dirs = sorted(p for p, v in W.listing(g0.root, skip_ascmhl=True).items() if v[0] == "d")
    for j, d in enumerate([""] + dirs):
        for nm in ("new.tmp", "new.o", "new.log", "fresh.dat"):
            t = os.path.join(d, nm)
            if tier == "thorough" or W.ignored(t, spec) or (j + len(nm)) % 4 == 0:
                cases.append((f"add{j}{nm}", [("add", j, t)]))
    ign_files = [f for f in every if W.ignored(f, spec)]
    real_files = [f for f in every if not W.ignored(f, spec)]
    if ign_files and real_files:
        # ignored and real changes together: only the real ones count
        cases.append(("mix", [("flip", 0, ign_files[0]), ("del", 1, ign_files[-1]), ("flip", 2, real_files[0]), ("del", 3, real_files[-1]), ("add", 4, "tmp/zz.dat")]))
        cases.append(("mixign", [("flip", 0, ign_files[0]), ("del", 1, ign_files[-1]), ("add", 4, os.path.join(os.path.dirname(ign_files[0]), ".DS_Store"))]))
    if tier != "thorough":
        # files whose ignore status changes between generations (re-included by a later negation) are always probed
        pinned = lambda c: c[0] in ("unchanged", "mix", "mixign") or any("keep" in str(m[2]) for m in c[1])  # noqa
        keep = [c for c in cases if pinned(c)]
        rest = [c for c in cases if not pinned(c)]
        cases = keep + [c for i, c in enumerate(rest) if i % 4 == (seed + len(name)) % 4]
    if name == "reinclude-below-ignored":
        cases = cases[:3]
    for n, (mname, ms) in enumerate(cases):
        cid = f"ignore/{name}/{mname}"
        if only is not None and only != cid:
            continue
        viol = list(bviol) if mname == "unchanged" else []
        if mname == "unchanged":
            g = g0 if only is not None else build("ip", [])
        else:
            dst = os.path.join(tmp, f"c{n}", "t")
            shutil.copytree(g0.root, dst, symlinks=True)
            g = g0.moved(dst)
        cii = None
        if check_extra and n % 2:
            cii = os.path.join(tmp, f"check{n}.txt")
            wr(cii, "\n".join(check_extra) + "\n")
        sets, code = run_case(g, F, ms, viol, ctx, how=SPELLS[n % 4], check_extra=check_extra, nested_check=False, check_ii=cii)
        out.append(result(cid, ("ignore", name, mname), {"case": cid, "mutation": [f"{m[0]} {m[2]}" for m in ms], "A,R,N": [len(x) for x in sets], "create": code}, viol))
        if g is not g0:
            shutil.rmtree(os.path.dirname(g.root), ignore_errors=True)
    shutil.rmtree(tmp, ignore_errors=True)
    return out


ZONES = [
    "UTC",
    "Europe/Berlin",
    "CET-1CEST,M3.5.0,M10.5.0/3",
    "EST5EDT,M3.2.0,M11.1.0",
    "<+1245>-12:45<+1345>,M9.5.0/2:45,M4.1.0/3:45",
    "Asia/Kolkata",
    "America/St_Johns",
]
# instants on both sides of the European switches of 2021 and inside the repeated hour, plus the US ones
DST_TIMES = [1635641999, 1635642000, 1635643800, 1635645599, 1635645600, 1616893199, 1616893200, 1636264799, 1636264800, 1615705199, 0, 1]


def set_tz(z):
    if z is None:
        os.environ.pop("TZ", None)
    else:
        os.environ["TZ"] = z
    time.tzset()


def job_tz(p):
    tmp, z1, z2, only, k = p["tmp"], p["z1"], p["z2"], p["only"], p["k"]
    cid = f"tz/{ZONES.index(z1)}-{ZONES.index(z2)}"
    if only is not None and only != cid:
        return []
    old = os.environ.get("TZ")
    viol = []
    ctx = {"sealed in TZ": z1, "checked in TZ": z2}
    try:
        root = os.path.join(tmp, "t")
        W.build(root, S.TREES["deep"])
        i = k
        for dp, dns, fns in os.walk(root):
            for n in dns + fns:
                t = DST_TIMES[i % len(DST_TIMES)]
                os.utime(os.path.join(dp, n), (t, t))
                i += 1
        g = Ghost(root)
        set_tz(z1)
        seal(g, ["md5"], viol, ctx, sub="A")
        seal(g, ["md5"], viol, ctx)
        set_tz(z2)
        run_case(g, ["md5"], [], viol, ctx, stage2=False)
        run_case(g, ["xxh64"], [("touch", 1, ".")], viol, ctx)
        set_tz(z1)
        fs = files_of(g)
        sets, code = run_case(g, ["md5"], [("touch", 0, "."), ("flip", 0, fs[k % 4])], viol, ctx)
    finally:
        set_tz(old)
        shutil.rmtree(tmp, ignore_errors=True)
    return [result(cid, ("tz", z1, z2), {"case": cid, "zones": [z1, z2], "create": code}, viol)]


def job_big(p):
    """files just below / at / above the 1 MiB read block: one changed byte at the very end, at the block border, one
    byte more or less"""
    tmp, only, tier = p["tmp"], p["only"], p["tier"]
    out = []
    tree = {"below.bin": bytes(range(256)) * 4096, "at.bin": bytes(range(256)) * 4096, "sub/above.bin": bytes(range(256)) * 4096 + b"\x07"}
    tree["below.bin"] = tree["below.bin"][:-1]
    tree["two.bin"] = b"\x55" * (2 * M)
    edits = []
    for f, size in (("below.bin", M - 1), ("at.bin", M), ("sub/above.bin", M + 1), ("two.bin", 2 * M)):
        for pos in sorted({0, size - 1, min(M - 1, size - 1), min(M, size - 1)}):
            edits.append((f, "flip", pos))
        edits += [(f, "append", 0), (f, "trunc", 0)]
    if tier != "thorough":
        edits = [e for i, e in enumerate(edits) if e[1] != "flip" or e[2] != 0]
    F = ["xxh64", "md5"]
    ctx = {"tree": "big"}
    bviol = []
    g0 = Ghost(W.build(os.path.join(tmp, "tpl", "t"), tree))
    seal(g0, F, bviol, ctx)
    seal(g0, ["c4"], bviol, ctx)
    for n, (f, kind, pos) in enumerate(edits):
        cid = f"big/{n}"
        if only is not None and only != cid:
            continue
        viol = list(bviol) if n == 0 else []
        p0 = os.path.join(g0.root, f)
        keep, st = rd(p0), os.stat(p0)
        if kind == "flip":
            b = bytearray(keep)
            b[pos] ^= 0x80
            wr(p0, bytes(b))
            os.utime(p0, ns=(st.st_atime_ns, st.st_mtime_ns))
        elif kind == "append":
            wr(p0, keep + b"\x00")
        else:
            wr(p0, keep[:-1])
        ctx2 = dict(ctx, mut=f"{kind} {f} at {pos}")
        A, R, N = g0.expect()
        for cmd, args in (("verify", [g0.root]), ("create", [g0.root, "-h", "sha1"] + (["-sf", p0] if n % 2 else []))):
            judge(viol, cmd, W.run(cmd, args), A, R, N if cmd == "verify" else [], g0.universe(), True, ctx2)
        wr(p0, keep)
        os.utime(p0, ns=(st.st_atime_ns, st.st_mtime_ns))
        if n == len(edits) - 1:
            A, R, N = g0.expect()
            judge(viol, "verify", W.run("verify", [g0.root]), A, R, N, g0.universe(), False, dict(ctx, mut="restored after failed generations"))
        out.append(result(cid, ("big", f, kind, pos), {"case": cid, "file": f, "edit": kind, "pos": pos}, viol))
    shutil.rmtree(tmp, ignore_errors=True)
    return out


def job_single(p):
    """verify -sf FILE: the named file altered -> 11 and named, unchanged tree -> 0 for every recorded file"""
    tmp, only = p["tmp"], p["only"]
    out = []
    for tree, nested in (("deep", ["A", "A/deep"]), ("names", ["sp ace"]), ("prefix", ["Clips"])):
        cid = f"verify-sf/{tree}"
        if only is not None and only != cid:
            continue
        viol = []
        ctx = {"tree": tree, "nested": nested}
        g = build_world(os.path.join(tmp, tree), tree, nested, "fmts", ["md5"], viol, ctx)
        fs = files_of(g)
        for i, f in enumerate(fs):
            arg = os.path.join(g.root, f) if i % 2 else f
            res = W.run("verify", [g.root, "-sf", arg])
            judge(viol, "verify", res, [], [], [], g.universe(), False, dict(ctx, mut=f"verify -sf {arg} on the unchanged tree"))
        for i, f in enumerate(fs):
            p0 = os.path.join(g.root, f)
            keep = rd(p0)
            if not keep:
                continue
            flip_keep(p0)
            res = W.run("verify", [g.root, "-sf", p0 if i % 2 else f])
            judge(viol, "verify", res, [f], [], [], g.universe(), True, dict(ctx, mut=f"flip {f}; verify -sf {f}"))
            wr(p0, keep)
        out.append(result(cid, ("verify-sf", tree), {"case": cid, "files": len(fs)}, viol))
    shutil.rmtree(tmp, ignore_errors=True)
    return out


def job_links(p):
    """symbolic links to files: unchanged -> 0; the link removed -> 10; the target's bytes changed -> both names fail"""
    tmp, only = p["tmp"], p["only"]
    out = []
    tree = {"real.txt": "r", "d/x.bin": "x", "d/other.txt": "o", "lnk.txt": ("link", "real.txt"), "d/up.lnk": ("link", "../real.txt")}
    for n, (mname, fn) in enumerate(
        [
            ("unchanged", lambda r: None),
            ("rmlink", lambda r: os.remove(os.path.join(r, "lnk.txt"))),
            ("target", lambda r: wr(os.path.join(r, "real.txt"), "R")),
            ("retarget", lambda r: (os.remove(os.path.join(r, "d/up.lnk")), os.symlink("other.txt", os.path.join(r, "d/up.lnk")))),
            ("newlink", lambda r: os.symlink("x.bin", os.path.join(r, "d/new.lnk"))),
        ]
    ):
        cid = f"links/{mname}"
        if only is not None and only != cid:
            continue
        viol = []
        ctx = {"tree": "links"}
        g = Ghost(W.build(os.path.join(tmp, mname, "t"), tree))
        seal(g, ["md5"], viol, ctx)
        seal(g, ["c4"], viol, ctx)
        fn(g.root)
        sets, code = run_case(g, ["md5"], [], viol, dict(ctx, mut=mname), how=SPELLS[n % 4])
        out.append(result(cid, ("links", mname), {"case": cid, "A,R,N": [len(x) for x in sets], "create": code}, viol))
    shutil.rmtree(tmp, ignore_errors=True)
    return out


CRASH_SRC = r"""
import builtins, os, sys
K, root, args = int(sys.argv[1]), sys.argv[2], sys.argv[3:]
from ascmhl import commands
n = [0]
def ev(partial=None):
    n[0] += 1
    if n[0] == K:
        if partial:
            partial()
        sys.stdout.flush()
        os._exit(77)
def hook(e, a):
    if e == "open" and isinstance(a[2], int) and a[2] & (os.O_WRONLY | os.O_RDWR | os.O_CREAT | os.O_TRUNC | os.O_APPEND):
        if str(a[0]).startswith(root):
            ev()
    elif e in ("os.mkdir", "os.rename", "os.remove", "os.rmdir", "os.truncate", "os.link", "os.symlink", "os.utime", "os.chmod"):
        if str(a[0]).startswith(root):
            ev()
class Proxy:
    def __init__(self, f):
        self.f = f
    def write(self, data):
        def half():
            self.f.write(data[: len(data) // 2])
            self.f.flush()
        ev(half)
        return self.f.write(data)
    def __getattr__(self, k):
        return getattr(self.f, k)
    def __enter__(self):
        return self
    def __exit__(self, *a):
        return self.f.__exit__(*a)
real_open = builtins.open
def my_open(file, mode="r", *a, **kw):
    f = real_open(file, mode, *a, **kw)
    if any(c in mode for c in "wax+") and str(file).startswith(root):
        return Proxy(f)
    return f
builtins.open = my_open
sys.addaudithook(hook)
try:
    commands.create.main(args, standalone_mode=True)
except SystemExit as e:
    print("EVENTS", n[0], "EXIT", e.code)
    sys.stdout.flush()
    os._exit(0)
"""


def crash_create(root, k, args):
    env = dict(os.environ, PYTHONPATH=REPO)
    r = subprocess.run([sys.executable, "-c", CRASH_SRC, str(k), root] + args, env=env, capture_output=True, text=True, timeout=120)
    m = re.search(r"EVENTS (\d+) EXIT (\S+)", r.stdout)
    return r.returncode, (int(m.group(1)) if m else None), r.stdout[-300:] + r.stderr[-300:]


def job_crash(p):
    """a `create` on the unchanged sealed tree is killed at its k-th file-system event (directory creation, opening a
    file for writing, every write call - half of the data is written -, the final move); afterwards the tree is still
    unchanged since it was sealed, and a mutation made afterwards has to be reported as usual"""
    tmp, only, ks, tree, nested = p["tmp"], p["only"], p["ks"], p["tree"], p["nested"]
    out = []
    F = ["md5"]
    ctx = {"tree": tree, "nested": nested}
    for k in ks:
        cid = f"crash/{tree}/{k}"
        if only is not None and only != cid:
            continue
        viol = []
        g = build_world(os.path.join(tmp, f"k{k}"), tree, nested, "one", F, viol, ctx)
        rc, events, tail = crash_create(g.root, k, [g.root, "-h", "xxh64"])
        c2 = dict(ctx, crash=f"create -h xxh64 killed at file-system event {k}")
        if rc != 77:
            # k is beyond the last event: the command ran to its end
            g.record_visible()
        run_case(g, F, [], viol, dict(c2, mut="no mutation after the crash"), stage2=False, how=SPELLS[k % 4])
        muts = mutations(g)
        pick = [muts[(k * 7) % len(muts)], muts[(k * 7 + 3) % len(muts)]]
        if conflict(*pick):
            pick = pick[:1]
        sets, code = run_case(g, F, pick, viol, c2, how=SPELLS[(k + 1) % 4])
        out.append(result(cid, ("crash", tree, k, rc == 77), {"case": cid, "killed": rc == 77, "then": mid(pick), "A,R,N": [len(x) for x in sets]}, viol))
        shutil.rmtree(os.path.join(tmp, f"k{k}"), ignore_errors=True)
    shutil.rmtree(tmp, ignore_errors=True)
    return out


def count_crash_events(tmp, tree, nested):
    g = build_world(os.path.join(tmp, "cnt"), tree, nested, "one", ["md5"], [], {})
    rc, events, tail = crash_create(g.root, 0, [g.root, "-h", "xxh64"])
    shutil.rmtree(os.path.join(tmp, "cnt"), ignore_errors=True)
    return events or 0


JOBS = {"world": job_world, "ignore": job_ignore, "tz": job_tz, "big": job_big, "single": job_single, "links": job_links, "crash": job_crash}


def do_job(p):
    os.makedirs(p["tmp"], exist_ok=True)
    try:
        return JOBS[p["job"]](p)
    except Exception as e:  # a defect of the driver itself must not pass silently
        import traceback

        return [result(p.get("wid", p["job"]) + "/driver-error", None, None, [(f"driver error: {e!r} {traceback.format_exc()[-1500:]}", "driver-error", {"job": {k: v for k, v in p.items() if k != 'tmp'}})])]


# ------------------------------------------------------------------------------------------------ main
def plan(run):
    tier, only = run.tier, run.only
    jobs = []
    base = {"tier": tier, "seed": run.seed, "only": only}

    def add(job, prefix, **kw):
        if only is not None and not only.startswith(prefix + "/"):
            return
        jobs.append(dict(base, job=job, tmp=os.path.join(run.tmp, f"j{len(jobs)}"), **kw))

    fsets = S.format_sets(tier)
    k = 0
    rich = ("deep", "prefix", "levels", "names", "onlydirs", "emptyfolder")
    for hi, hist in enumerate(HISTS):
        for tree in S.TREES:
            places = list(range(len(S.NESTED[tree])))
            for ni in places:
                if hist != "one":
                    if tier != "thorough":
                        # the other histories: on `deep` with a rotating placement and on one more rotating tree
                        other = rich[1 + hi % 5]
                        if not ((tree == "deep" and ni == (hi * 2 + hi // 3) % len(places)) or (tree == other and ni == (len(places) - 1 - hi % 2) % len(places))):
                            continue
                    elif tree not in rich or ni not in (0, places[-1], places[len(places) // 2]):
                        continue
                k += 1
                if tier == "thorough":
                    mode, ncomb = ("all", 16) if hist == "one" else ("stride2", 8)
                else:
                    mode, ncomb = ("stride6", 2) if hist == "one" else ("kinds", 1)
                for x in range(2 if (tier == "thorough" and hist == "one") else 1):
                    F = fsets[(k + x * 7 + run.seed) % len(fsets)]
                    wid = f"w/{tree}/{ni}/{hist}/{'+'.join(F)}"
                    add("world", wid, wid=wid, tree=tree, ni=ni, hist=hist, fmts=F, k=k + x, mode=mode, ncomb=ncomb)
    for name in IGN_WORLDS:
        if name != "reinclude-below-ignored":
            add("ignore", f"ignore/{name}", name=name, wid=f"ignore/{name}")
    zs = [(ZONES[i], ZONES[j]) for i in range(len(ZONES)) for j in range(len(ZONES)) if i != j]
    if only is not None and only.startswith("tz/"):
        zs = [z for z in zs if f"tz/{ZONES.index(z[0])}-{ZONES.index(z[1])}" == only]
    elif tier != "thorough":
        zs = [zs[(i * 5 + run.seed) % len(zs)] for i in range(6)]
    for n, (z1, z2) in enumerate(dict.fromkeys(zs)):
        add("tz", f"tz/{ZONES.index(z1)}-{ZONES.index(z2)}".rsplit("/", 1)[0], z1=z1, z2=z2, k=n, wid="tz")
    add("big", "big", wid="big")
    add("single", "verify-sf", wid="verify-sf")
    add("links", "links", wid="links")
    for tree, nested in (("deep", ["A"]),) + ((("prefix", ["Clips/sub", "Clips"]),) if tier == "thorough" else ()):
        if only is not None and not only.startswith(f"crash/{tree}/"):
            continue
        if only is not None:
            ks = [int(only.rsplit("/", 1)[1])]
        else:
            n = count_crash_events(run.tmp, tree, nested)
            allk = list(range(1, n + 2))
            if tier == "thorough":
                ks = allk
            else:
                rnd = random.Random(run.seed)
                ks = sorted(set([1, 2, n, n + 1] + rnd.sample(allk, min(len(allk), 8))))
        for i in range(0, len(ks), 3):
            add("crash", f"crash/{tree}", tree=tree, nested=nested, ks=ks[i : i + 3], wid=f"crash/{tree}")
    # last, so that its (known) violations come after all others
    add("ignore", "ignore/reinclude-below-ignored", name="reinclude-below-ignored", wid="ignore/reinclude-below-ignored")
    return jobs


def main():
    run = Run(
        "C03",
        rule="case = (sealed world, mutation set): world = (tree, nested-history placement, history script, format set, root "
        "spelling), mutation set = one or 2-3 non-conflicting mutations of {flip a byte keeping size and mtime, append, truncate, "
        "delete file, remove empty directory, remove subtree, add file (in every directory, in a new sub-folder, next to a recorded "
        "name with that name as prefix), touch all mtimes, change ignored paths}; each case runs verify, diff (also on a nested root), "
        "create and verify, diff again and compares exit codes and named paths with the ghost-model oracle; non-trivial = distinct "
        "(world, mutation targets) on a world with at least one recorded entry",
        bound="trees of scen.TREES (<= 7 entries, depth <= 4) + a 15-file ignore tree + files of 1 MiB -1/0/+1 and 2 MiB + a tree with file "
        "symlinks; <= 3 nested histories, 3 levels deep; 10 history scripts of 1-12 generations (format changes, -n, -sf, repeated "
        "options, failed and incomplete generations); 12 ignore-pattern worlds (-i, -ii, anchored, trailing slash, negation, patterns "
        "added later, check-time patterns); 7 time zones (6 pairs quick, all 42 thorough); root spelled absolute / trailing slash / "
        "relative / '.' / '..'; create killed at 12 (quick) or all (thorough) of its file-system events; quick: every 6th single "
        "mutation (rotating) + 2 combinations on each one-generation world of all 37 (tree, placement) pairs, one mutation per kind + 1 "
        "combination on 18 worlds with the other history scripts; thorough: all single mutations + 16 combinations on the "
        "one-generation worlds with 2 format sets, every 2nd single mutation + 8 combinations on ~140 worlds with the other scripts",
    )
    jobs = plan(run)
    nproc = int(os.environ.get("VERIF_JOBS", "0") or 0) or min(12, os.cpu_count() or 1)
    # longest jobs first
    order = sorted(range(len(jobs)), key=lambda i: {"crash": 0, "big": 1, "world": 2}.get(jobs[i]["job"], 3))
    if len(jobs) <= 1 or nproc <= 1:
        results = {i: do_job(jobs[i]) for i in order}
    else:
        with multiprocessing.get_context("fork").Pool(nproc) as pool:
            got = pool.map(do_job, [jobs[i] for i in order], chunksize=1)
        results = dict(zip(order, got))
    for i in range(len(jobs)):
        for r in results[i]:
            cid = r["cid"]
            if not run.want(cid) and not cid.endswith("/driver-error"):
                continue
            run.case(cid, r["key"], sample=r["sample"])
            for what, wclass, inp in r["viol"]:
                run.violation(cid, what, wclass, inp=inp)
    run.finish()


if __name__ == "__main__":
    main()
