"""C01 bounded part: (a) samples the *assumed* library contracts against published vectors, (b) checks the contract
of the bounded function AggregateHasher.hash_file and every entry point on boundary file sizes against an independent
oracle (one-shot hashlib/xxhash + an independent base-58 encoder), (c) C4 codec on boundary 512-bit values."""
import hashlib
import os
import random
import re

import xxhash

from .common import Run, cli

A58 = "123456789ABCDEFGHJKLMNPQRSTUVWXYZabcdefghijkmnopqrstuvwxyz"


def c4_of_int(v):
    s = ""
    while v:
        v, m = divmod(v, 58)
        s = A58[m] + s
    return "c4" + "1" * (88 - len(s)) + s


ORACLE = {
    "md5": lambda b: hashlib.md5(b).hexdigest(),
    "sha1": lambda b: hashlib.sha1(b).hexdigest(),
    "xxh32": lambda b: xxhash.xxh32(b).hexdigest(),
    "xxh64": lambda b: xxhash.xxh64(b).hexdigest(),
    "xxh3": lambda b: xxhash.xxh3_64(b).hexdigest(),
    "xxh128": lambda b: xxhash.xxh3_128(b).hexdigest(),
    "c4": lambda b: c4_of_int(int.from_bytes(hashlib.sha512(b).digest(), "big")),
}
VECTORS = {
    ("md5", b""): "d41d8cd98f00b204e9800998ecf8427e",
    ("md5", b"abc"): "900150983cd24fb0d6963f7d28e17f72",
    ("sha1", b""): "da39a3ee5e6b4b0d3255bfef95601890afd80709",
    ("sha1", b"abc"): "a9993e364706816aba3e25717850c26c9cd0d89d",
    ("xxh32", b""): "02cc5d05",
    ("xxh64", b""): "ef46db3751d8e999",
    ("xxh3", b""): "2d06800538d394c2",
    ("xxh128", b""): "99aa06d3014798d86001c324468d497f",
    ("c4", b""): "c459dsjfscH38cYeXXYogktxf4Cd9ibshE3BHUo6a58hBXmRQdZrAkZzsWcbWtDg5oQstpDuni4Hirj75GEmTc1sFT",
    ("c4", b"alfa"): "c43zYcLni5LF9rR4Lg4B8h3Jp8SBwjcnyyeh4bc6gTPHndKuKdjUWx1kJPYhZxYt3zV6tQXpDs2shPsPYjgG81wZM1",
}


def main():
    run = Run(
        "C01",
        rule="case = (entry point, format set, file size class); non-trivial = distinct (entry point, format, size) with size in "
        "{0,1,2^20-1,2^20,2^20+1,3*2^20+17} plus seeded random sizes; c4 codec cases = distinct 512-bit boundary values",
        bound="sizes up to 3 MiB + 17; format subsets of size <= 3 (quick) / all 127 non-empty subsets on the small sizes (thorough)",
    )
    from ascmhl import commands, hasher
    from ascmhl.__version__ import ascmhl_supported_hashformats

    rnd = random.Random(run.seed)
    # (a) the oracle itself against published vectors
    for (f, data), want in VECTORS.items():
        cid = f"vector/{f}/{len(data)}"
        if not run.want(cid):
            continue
        run.case(cid, ("vector", f, len(data)))
        if ORACLE[f](data) != want:
            run.violation(cid, f"library {f} disagrees with the published vector", "library-vector", inp={"format": f})
        got = hasher.hash_data(data, f)
        if got != want:
            run.violation(cid, f"hash_data({data!r},{f}) = {got}, published {want}", f"hash_data/{f}", contract="ascmhl.hasher.hash_data", inp={"format": f, "len": len(data)})
    if sorted(ascmhl_supported_hashformats) != sorted(["md5", "sha1", "xxh128", "xxh3", "xxh64", "c4"]):
        run.violation("formats", f"CLI formats are {ascmhl_supported_hashformats}", "cli-format-list")
    # (b) boundary sizes through every entry point
    M = 1 << 20
    sizes = [0, 1, M - 1, M, M + 1, 3 * M + 17]
    if run.tier == "thorough":
        sizes += [2 * M, 2 * M - 1, rnd.randrange(1, 4 * M), rnd.randrange(1, 4 * M)]
    else:
        sizes += [rnd.randrange(2, 70000)]
    fmts = ["md5", "sha1", "xxh32", "xxh64", "xxh3", "xxh128", "c4"]
    cli_fmts = [f for f in fmts if f != "xxh32"]
    classes = {"md5": hasher.MD5, "sha1": hasher.SHA1, "xxh32": hasher.XXH32, "xxh64": hasher.XXH64, "xxh3": hasher.XXH3, "xxh128": hasher.XXH128, "c4": hasher.C4}
    for size in sizes:
        data = bytes(rnd.getrandbits(8) for _ in range(min(size, 4096))) * (size // 4096 + 1) if size else b""
        data = data[:size]
        path = os.path.join(run.tmp, f"f{size}.bin")
        with open(path, "wb") as fh:
            fh.write(data)
        want = {f: ORACLE[f](data) for f in fmts}
        # the same bytes reached through a symbolic link (link text much shorter / longer than the content)
        lnk = os.path.join(run.tmp, f"l{size}")
        os.symlink(path, lnk)
        for f in fmts:
            cid = f"symlink/{f}/{size}"
            if run.want(cid):
                run.case(cid, ("symlink", f, size))
                got = [hasher.hash_file(lnk, f), classes[f].hash_file(lnk), hasher.multiple_format_hash_file(lnk, [f, "md5"])[f]]
                if any(g != want[f] for g in got):
                    run.violation(cid, f"digest via symlink {f} size {size}: {got} != standard {want[f]}", f"symlink/{f}", contract="ascmhl.hasher.Hasher.hash_file", inp={"size": size, "format": f})
        for f in fmts:
            for ep, fn in [
                ("hash_file", lambda: hasher.hash_file(path, f)),
                ("hash_data", lambda: hasher.hash_data(data, f)),
                ("Class.hash_file", lambda: classes[f].hash_file(path)),
                ("Class.hash_data", lambda: classes[f].hash_data(data)),
                ("streaming", lambda: _streaming(hasher, f, data, rnd)),
            ]:
                cid = f"{ep}/{f}/{size}"
                if not run.want(cid):
                    continue
                run.case(cid, (ep, f, size), sample={"entry": ep, "format": f, "size": size})
                got = fn()
                if got != want[f]:
                    run.violation(cid, f"{ep} {f} size {size}: {got} != standard {want[f]}", f"{ep}/{f}", contract=f"ascmhl.hasher.{ep}", inp={"size": size, "format": f})
        # read-once multi-format: contract of the bounded function AggregateHasher.hash_file
        subsets = [[f] for f in fmts] + [["md5", "c4"], ["xxh64", "sha1", "xxh3"], fmts, list(reversed(fmts)), ["c4", "c4"]]
        if run.tier == "thorough" and size <= M + 1:
            import itertools

            subsets = [list(c) for r in range(1, 8) for c in itertools.combinations(fmts, r)]
        for sub in subsets:
            cid = f"multi/{'+'.join(sub)}/{size}"
            if not run.want(cid):
                continue
            run.case(cid, ("multi", tuple(sub), size))
            run.contract_evaluations += 1
            for name, got in [
                ("multiple_format_hash_file", hasher.multiple_format_hash_file(path, sub)),
                ("multiple_format_hash_data", hasher.multiple_format_hash_data(data, sub)),
            ]:
                ok = set(got.keys()) == set(sub) and all(got[f] == want[f] for f in got)
                if not ok:
                    run.violation(cid, f"{name}({sub}) size {size} -> {got}", f"{name}", contract="ascmhl.hasher.AggregateHasher.hash_file", inp={"size": size, "formats": sub})
        # commands: hash, create, verify
        for f in cli_fmts:
            cid = f"cmd-hash/{f}/{size}"
            if run.want(cid):
                run.case(cid, ("cmd-hash", f, size))
                code, out, exc = cli(commands.hash, ["-h", f, path])
                if code != 0 or f"{f} ({path}) = {want[f]}" not in out:
                    run.violation(cid, f"`hash -h {f}` printed {out!r} (exit {code})", f"cmd-hash/{f}", contract="ascmhl.commands.hash", inp={"size": size})
        cid = f"cmd-create/{size}"
        if run.want(cid) and size <= M + 1:
            root = os.path.join(run.tmp, f"tree{size}")
            os.makedirs(os.path.join(root, "sub"))
            with open(os.path.join(root, "sub", "media.bin"), "wb") as fh:
                fh.write(data)
            args = [root]
            for f in cli_fmts:
                args += ["-h", f]
            code, out, exc = cli(commands.create, args)
            run.case(cid, ("cmd-create", size))
            mhl = [n for n in os.listdir(os.path.join(root, "ascmhl")) if n.endswith(".mhl")]
            text = open(os.path.join(root, "ascmhl", mhl[0]), encoding="utf-8").read() if mhl else ""
            for f in cli_fmts:
                sect = text.split("<hashes>")[-1].split("</hash>")[0]
                m = re.search(rf"<{f} [^>]*>([^<]*)</{f}>", sect)
                if code != 0 or not m or m.group(1) != want[f]:
                    run.violation(cid, f"create recorded {m.group(1) if m else None} for {f}, standard {want[f]} (exit {code})", f"cmd-create/{f}", contract="ascmhl.commands.seal_file_path", inp={"size": size})
            code, out, exc = cli(commands.verify, [root])
            if code != 0:
                run.violation(cid, f"verify of the just sealed tree exits {code}: {out[-300:]}", "cmd-verify", inp={"size": size})
    # (c) C4 text codec on boundary values
    vals = [0, 1, 57, 58, 58**87 - 1, 58**87, 58**87 + 1, 2**511, 2**512 - 1, 2**512 - 58]
    vals += [rnd.getrandbits(512) for _ in range(50 if run.tier == "quick" else 2000)]
    vals += [rnd.getrandbits(k) for k in (8, 64, 300, 500, 505)]

    class Fake:
        def __init__(self, v):
            self.v = v

        def hexdigest(self):
            return f"{self.v:0128x}"

    for v in vals:
        cid = f"c4codec/{v}"
        if not run.want(cid):
            continue
        run.case(cid, ("c4", v))
        h = hasher.C4()
        h.hasher = Fake(v)
        t = h.string_digest()
        if t != c4_of_int(v) or len(t) != 90:
            run.violation(cid, f"C4 text of {v} is {t}, standard {c4_of_int(v)}", "c4-encode", contract="ascmhl.hasher.C4.string_digest", inp={"value": str(v)})
            continue
        back = hasher.C4.bytes_from_string_digest(t)
        if back != v.to_bytes(64, "big") or hasher.bytes_for_hash_string(t, "c4") != back:
            run.violation(cid, f"C4 decode(encode({v})) differs", "c4-roundtrip", contract="ascmhl.hasher.C4.bytes_from_string_digest", inp={"value": str(v)})
    run.finish()


def _streaming(hasher, f, data, rnd):
    h = hasher.new_hasher_for_hash_type(f)
    i = 0
    while i < len(data):
        k = rnd.choice([1, 7, 4096, 65536, 1 << 20])
        h.update(data[i : i + k])
        i += k
    return h.string_digest()


if __name__ == "__main__":
    main()
