"""C09 bounded part: `verify -dh` on all small sealed worlds, unchanged and after every single mutation at every depth.

Oracle (the statement, nothing taken from the implementation):
  * the tree on disk is byte- and name-identical to the tree that was on disk at *every* create of the history
    (outer and nested, with the same ignore patterns throughout)                                   -> exit 0
  * the outer history holds at least one generation that recorded directory hashes (a folder-mode create without
    -n) and the tree on disk differs - by a changed file content, a renamed / added / removed entry that no
    generation's ignore patterns hide - from the tree at *every* create                           -> exit 12
  * in every case (also the ones the statement leaves open: tree equal to some generations only, histories that
    never recorded a directory hash)                                    -> exit code in {0, 12}, no uncaught exception
"Tree at a create" is an independent full listing (names, types, bytes) taken by the driver right before it calls
create; expected exits never come from reading what the tool wrote.
"""
import itertools
import os
import random
import shutil
import subprocess
import sys
import time
import unicodedata

from . import scen as S
from . import world as W
from .common import REPO, Run

M = 1 << 20
NOVEL = b"\x00C09-mutated\xff"


# ------------------------------------------------------------------------------------------------ extra trees
def _big(n, salt):
    blk = bytes((i * 7 + salt) & 0xFF for i in range(4096))
    return (blk * (n // 4096 + 1))[:n]


IGN_EXTRA = {
    "x.tmp": "t1",
    "A/y.tmp": "t2",
    "keep.tmp": "k",
    "cache/c.bin": "c",
    "A/deep/cache/d.bin": "d",
    "B/skip/s.bin": "s",
    "A/B/skip/t.bin": "visible: the anchored pattern B/skip does not reach here",
}
EXTRA_TREES = {
    "dups": {"d/a": "same", "d/b": "same", "e/a": "same", "a": "same", "d/c": "", "e/c": ""},
    "wide3": {
        "Clips/x.mov": "x",
        "Clips/Clips/x.mov": "x",
        "Clips/Clips/Clips/x.mov": "x",
        "Clips_proxy/x.mov": "x",
        "Clips.txt": "x",
        "Clips/Clips.txt": "x",
    },
    "ign": dict(S.TREES["deep"], **IGN_EXTRA),
    "big": {"m/below.bin": _big(M - 1, 1), "m/at.bin": _big(M, 2), "above.bin": _big(M + 1, 3)},
    "link": {"a.txt": "a", "d/x.bin": "x", "d/l.txt": ("link", "../a.txt"), "top.lnk": ("link", "d/x.bin")},
    # a sub-folder that is called like the root folder itself (the worlds' root folder is always named "t")
    "selfname": {"t/t/x.bin": "x", "t/y.bin": "y", "z.bin": "z", "u/t/": ""},
    "dash": {"-n": "looks like an option", "--help/-v": "1", "#c": "2", "!neg": "3", " lead": "4", "trail ": "5", "%s{0}%(x)d": "6"},
}
EXTRA_NESTED = {
    "dups": [[], ["d"], ["d", "e"]],
    "wide3": [[], ["Clips/Clips/Clips", "Clips/Clips", "Clips"], ["Clips", "Clips/Clips"], ["Clips_proxy"]],
    "ign": [[], ["A"]],
    "big": [[], ["m"]],
    "link": [[], ["d"]],
    "selfname": [[], ["t"], ["t/t", "t"]],
    "dash": [[], ["--help"]],
}
TREES = dict(S.TREES, **EXTRA_TREES)
NESTED = dict(S.NESTED, **EXTRA_NESTED)
IGN_ARGS = ["-i", "*.tmp", "-i", "cache/", "-i", "B/skip"]
IGN_PATTERNS = ["*.tmp", "cache/", "B/skip"]


class SetupFailed(Exception):
    pass


def sig(root):
    """the tree as the statement sees it: every entry below root outside the ascmhl folders, with type and bytes"""
    return W.listing(root, skip_ascmhl=True)


# ------------------------------------------------------------------------------------------------ worlds
class World:
    _n = itertools.count()

    def __init__(self, run, wid, tree, nested):
        self.run = run
        self.wid = wid
        self.tree = tree
        self.nested = list(nested)
        self.tmp = os.path.join(run.tmp, f"w{next(World._n)}")
        self.root = os.path.join(self.tmp, "t")
        self.sigs = []  # tree at every create
        self.gens = []  # human readable description of the history, for the violation text
        self.has_dh = False  # outer history has a generation with directory hashes
        self.pattern_sets = [list(W.DEFAULT_IGNORE)]  # effective patterns of the generations
        self.same_patterns = True  # all generations (outer and nested) used the same patterns
        self.extra_nested_args = []

    def create(self, path, fmts, extra=(), expect=(0,), cwd=None):
        self.sigs.append(sig(self.root))
        args = [path] + S.hargs(fmts) + list(extra)
        code, out, exc = W.run("create", args, cwd=cwd)
        rel = os.path.relpath(os.path.join(cwd or "", path), self.root)
        shown = [a if not os.path.isabs(a) else os.path.relpath(a, self.root) for a in S.hargs(fmts) + list(extra)]
        self.gens.append(f"create {rel} {' '.join(shown)} -> {code}")
        if exc is not None or code not in expect:
            self.run.violation(
                self.wid + "/setup",
                f"create {args[1:]} on '{rel}' exits {code} (expected {expect}), exception {exc!r}: {out[-300:]!r}; history so far {self.gens}",
                "setup/create",
                inp={"tree": self.tree, "nested": self.nested, "history": self.gens},
            )
            raise SetupFailed()
        return code

    def stable(self):
        cur = sig(self.root)
        return self.same_patterns and all(s == cur for s in self.sigs)

    def visible(self):
        """entries that no generation's patterns hide: {rel: 'd'|'f'}"""
        vis = None
        for ps in self.pattern_sets:
            v = W.visible_tree(self.root, ps)
            vis = v if vis is None else {k: t for k, t in vis.items() if k in v}
        return vis

    def hidden_name(self, rel):
        return any(W.ignored(rel, W.spec_of(ps)) for ps in self.pattern_sets)

    def nested_roots(self):
        return W.nested_roots(self.root)


def deepest_file(w):
    files = sorted(k for k, t in w.visible().items() if t == "f" and not os.path.islink(os.path.join(w.root, k)))
    if not files:
        return None
    return max(files, key=lambda f: (f.count(os.sep), f))


# recipes: the generations of the outer history.  c(path, fmts, extra, expect, cwd) creates one generation.
def r_one(w, F1, F2):
    w.create(w.root, F1)
    w.has_dh = True


def r_two(w, F1, F2):
    w.create(w.root, F1)
    w.create(w.root, F2)
    w.has_dh = True


def r_dh_n(w, F1, F2):
    w.create(w.root, F1)
    w.create(w.root, F1, ["-n"])
    w.has_dh = True


def r_n_dh(w, F1, F2):
    w.create(w.root, F1, ["-n"])
    w.create(w.root, F2)
    w.has_dh = True


def r_dh_sf(w, F1, F2):
    w.create(w.root, F1)
    w.has_dh = True
    f = deepest_file(w)
    if f is not None:
        w.create(w.root, F1, ["-sf", os.path.join(w.root, f)])


def r_sf_dh(w, F1, F2):
    f = deepest_file(w)
    if f is not None:
        w.create(w.root, F1, ["-sf", os.path.join(w.root, f), "-sf", os.path.join(w.root, f)])
    w.create(w.root, F2)
    w.has_dh = True


def r_n_only(w, F1, F2):
    w.create(w.root, F1, ["-n"])
    w.create(w.root, F2, ["-n"])


def r_sf_only(w, F1, F2):
    f = deepest_file(w)
    if f is None:
        w.create(w.root, F1, ["-n"])
    else:
        w.create(w.root, F1, ["-sf", os.path.join(w.root, f)])


def r_many(w, F1, F2):
    for i in range(12):
        w.create(w.root, F1 if i % 2 == 0 else F2, ["-n"] if i == 5 else [])
    w.has_dh = True


def r_evolve(w, F1, F2):
    w.create(w.root, F1)
    f = deepest_file(w)
    d = os.path.dirname(f) if f else ""
    W.build(w.root, {os.path.join(d, "late_added.bin"): "late", "late_dir/in.bin": "in", "late_empty/": ""})
    w.create(w.root, F2)
    w.has_dh = True


def r_failed(w, F1, F2):
    w.create(w.root, F1)
    w.has_dh = True
    f = deepest_file(w)
    if f is None:
        return
    with open(os.path.join(w.root, f), "ab") as fh:
        fh.write(b"altered before the second generation")
    w.create(w.root, F1, expect=(11,))


def r_dup(w, F1, F2):
    w.create(w.root, F1 + F1)
    w.has_dh = True


def _ign(w):
    w.pattern_sets = [list(W.DEFAULT_IGNORE) + IGN_PATTERNS]
    # nested roots get the un-anchored patterns only: "B/skip" is meant relative to the outer root
    w.extra_nested_args = IGN_ARGS[:4]


def r_ign(w, F1, F2):
    w.create(w.root, F1, IGN_ARGS)
    w.create(w.root, F2)
    w.has_dh = True


def r_ign_ii(w, F1, F2):
    with open(os.path.join(w.tmp, "pats.txt"), "w") as fh:
        fh.write("\n".join(IGN_PATTERNS) + "\n")
    # option path relative to a cwd that is not the root, root relative as well
    w.create("t", F1, ["-ii", "pats.txt", "-i", "*.tmp"], cwd=w.tmp)
    w.create(w.root, F2, ["-i", "*.tmp"])
    w.has_dh = True


def r_ign_sf(w, F1, F2):
    w.create(w.root, F1, IGN_ARGS)
    w.has_dh = True
    f = deepest_file(w)
    if f is not None:
        w.create(w.root, F1, ["-sf", os.path.join(w.root, f)])


def r_ign_n(w, F1, F2):
    w.create(w.root, F1, IGN_ARGS + ["-n"])
    w.create(w.root, F1)
    w.has_dh = True


def r_neg(w, F1, F2):
    w.create(w.root, F1, ["-i", "*.tmp"])
    w.create(w.root, F1, ["-i", "!keep.tmp"])
    w.has_dh = True
    w.pattern_sets = [list(W.DEFAULT_IGNORE) + ["*.tmp"], list(W.DEFAULT_IGNORE) + ["*.tmp", "!keep.tmp"]]
    w.same_patterns = False


RECIPES = {
    "one": (r_one, None),
    "two-fmt": (r_two, None),
    "dh+n": (r_dh_n, None),
    "n+dh": (r_n_dh, None),
    "dh+sf": (r_dh_sf, None),
    "sf+dh": (r_sf_dh, None),
    "n-only": (r_n_only, None),
    "sf-only": (r_sf_only, None),
    "many12": (r_many, None),
    "evolve": (r_evolve, None),
    "failed11": (r_failed, None),
    "dup-h": (r_dup, None),
    "ign": (r_ign, _ign),
    "ign-ii": (r_ign_ii, _ign),
    "ign+sf": (r_ign_sf, _ign),
    "ign-n+dh": (r_ign_n, _ign),
    "neg-later": (r_neg, None),
}
NMODES = ["same", "other", "n", "late", "regen"]


def seal(run, wid, tree, nested, nmode, recipe, F1, F2, pre=None):
    """returns a sealed World or None when the tool could not produce the history (reported as setup violation)"""
    w = World(run, wid, tree, nested)
    W.build(w.root, TREES[tree] if isinstance(tree, str) else tree)
    if pre:
        pre(w)
    fn, prep = RECIPES[recipe]
    if prep:
        prep(w)
    others = [f for f in W.FORMATS if f not in F1] or [F1[0]]
    try:
        if nmode in ("same", "other", "n", "regen"):
            for i, nr in enumerate(nested):
                p = os.path.join(w.root, nr)
                if nmode == "other":
                    w.create(p, [others[i % len(others)]], w.extra_nested_args)
                elif nmode == "n":
                    w.create(p, F1, ["-n"] + w.extra_nested_args)
                else:
                    w.create(p, F1, w.extra_nested_args)
        fn(w, F1, F2)
        if nmode in ("late", "regen"):
            for i, nr in enumerate(nested):
                w.create(os.path.join(w.root, nr), [others[(i + 1) % len(others)]], w.extra_nested_args, expect=(0, 11) if recipe == "failed11" else (0,))
    except SetupFailed:
        return None
    return w


# ------------------------------------------------------------------------------------------------ mutations
class Mut:
    def __init__(self, mid, kind, rel, do, undo):
        self.mid, self.kind, self.rel, self.do, self.undo = mid, kind, rel, do, undo

    @property
    def klass(self):
        return {
            "edit": "content",
            "flip": "content",
            "swap": "content",
            "trunc": "content",
            "rename": "rename",
            "recase": "rename",
            "renorm": "rename",
            "move": "rename",
            "addfile": "add",
            "addempty": "add",
            "adddir": "add",
            "remove": "remove",
            "rmdir": "remove",
        }[self.kind]


def _rewrite(p, data, keep_times):
    st = os.stat(p)
    with open(p, "wb") as fh:
        fh.write(data)
    if keep_times:
        os.utime(p, ns=(st.st_atime_ns, st.st_mtime_ns))


def enum_mutations(w):
    """every single mutation of every visible entry; ids are indices into the sorted entry lists (stable per world)"""
    root = w.root
    vis = w.visible()
    files = sorted(k for k, t in vis.items() if t == "f")
    dirs = ["."] + sorted(k for k, t in vis.items() if t == "d")
    stash = os.path.join(w.tmp, "stash")
    os.makedirs(stash, exist_ok=True)
    out = []

    def P(rel):
        return root if rel == "." else os.path.join(root, rel)

    def mv(a, b):
        return lambda: os.rename(a, b)

    def renames(tag, rel, i):
        p = P(rel)
        d, n = os.path.split(p)
        cands = [("rename", n + "~r"), ("recase", n.swapcase())]
        nfc, nfd = unicodedata.normalize("NFC", n), unicodedata.normalize("NFD", n)
        if nfc != nfd:
            cands.append(("renorm", nfd if n == nfc else nfc))
        for kind, nn in cands:
            q = os.path.join(d, nn)
            if nn == n or os.path.lexists(q) or w.hidden_name(os.path.relpath(q, root)):
                continue
            out.append(Mut(f"{kind}@{tag}{i}", kind, rel, mv(p, q), mv(q, p)))
        s = os.path.join(stash, f"{tag}{i}")
        out.append(Mut(f"{'remove' if tag == 'f' else 'rmdir'}@{tag}{i}", "remove" if tag == "f" else "rmdir", rel, mv(p, s), mv(s, p)))

    for i, f in enumerate(files):
        p = P(f)
        if not os.path.islink(p):
            with open(p, "rb") as fh:
                old = fh.read()
            st = os.stat(p)

            def restore(p=p, old=old, st=st):
                with open(p, "wb") as fh:
                    fh.write(old)
                os.utime(p, ns=(st.st_atime_ns, st.st_mtime_ns))

            out.append(Mut(f"edit@f{i}", "edit", f, lambda p=p, old=old: _rewrite(p, old + NOVEL, False), restore))
            if len(old) > 0:
                # same size, same mtime: only the bytes tell
                for tag, pos in [("flip", len(old) - 1)] + ([("flip0", 0), ("flipM", min(M - 1, len(old) - 2))] if len(old) >= M - 1 else []):
                    new = old[:pos] + bytes([old[pos] ^ 0x01]) + old[pos + 1 :]
                    out.append(Mut(f"{tag}@f{i}", "flip", f, lambda p=p, new=new: _rewrite(p, new, True), restore))
                if len(old) >= M - 1:
                    out.append(Mut(f"trunc@f{i}", "trunc", f, lambda p=p, old=old: _rewrite(p, old[:-1], True), restore))
        renames("f", f, i)
    for i, d in enumerate(dirs):
        p = P(d)
        if os.path.islink(p):
            renames("d", d, i)
            continue
        for kind, name, mk, rm in [
            ("addfile", "zz_new.bin", lambda q: _write(q, b"new entry"), os.remove),
            ("addempty", "zz_empty.bin", lambda q: _write(q, b""), os.remove),
            ("adddir", "zz_newdir", os.mkdir, os.rmdir),
        ]:
            q = os.path.join(p, name)
            if os.path.lexists(q) or w.hidden_name(os.path.relpath(q, root)):
                continue
            out.append(Mut(f"{kind}@d{i}", kind, d, lambda q=q, mk=mk: mk(q), lambda q=q, rm=rm: rm(q)))
        if d != ".":
            renames("d", d, i)
        # two files of this folder exchange their contents: the folder's content hash stays, only the structure hash tells
        here = [f for f in files if os.path.dirname(f) == ("" if d == "." else d) and not os.path.islink(P(f))]
        pair = None
        for a, b in itertools.combinations(here, 2):
            if open(P(a), "rb").read() != open(P(b), "rb").read():
                pair = (a, b)
                break
        if pair:
            a, b = P(pair[0]), P(pair[1])

            def swap(a=a, b=b):
                da, db = open(a, "rb").read(), open(b, "rb").read()
                sa, sb = os.stat(a), os.stat(b)
                _write(a, db)
                _write(b, da)
                os.utime(a, ns=(sa.st_atime_ns, sa.st_mtime_ns))
                os.utime(b, ns=(sb.st_atime_ns, sb.st_mtime_ns))

            out.append(Mut(f"swap@d{i}", "swap", pair[0], swap, swap))
    # one file moves to every other folder (rename across folders)
    regular = [f for f in files if not os.path.islink(P(f))]
    if regular:
        f = regular[0]
        for i, d in enumerate(dirs):
            if os.path.islink(P(d)) or (os.path.dirname(f) or ".") == d:
                continue
            q = os.path.join(P(d), os.path.basename(f) + "~moved")
            if os.path.lexists(q) or w.hidden_name(os.path.relpath(q, root)):
                continue
            out.append(Mut(f"move@d{i}", "move", f, mv(P(f), q), mv(q, P(f))))
    return out


def _write(p, data):
    with open(p, "wb") as fh:
        fh.write(data)


def probe_subset(w, muts):
    """a small sample that still has a root-level change, a deepest change, one inside every nested history, and
    one of each class"""
    roots = w.nested_roots()
    keep, seen = [], set()

    def depth(m):
        return 0 if m.rel == "." else m.rel.count(os.sep) + (1 if m.kind in ("addfile", "adddir", "addempty") else 0)

    maxd = max([depth(m) for m in muts] or [0])
    for m in muts:
        owner = W.owner_of(m.rel, roots) if m.rel != "." else ""
        d = depth(m)
        key = (m.klass, "root" if d == 0 else ("deepest" if d == maxd else None), owner)
        if key[1] is None and not owner:
            continue
        if key in seen:
            continue
        seen.add(key)
        keep.append(m)
    return keep


# ------------------------------------------------------------------------------------------------ verify + judge
SPELLS = ["abs", "slash", "rel", "dot", "dotslash", "updown", "inside"]


def vdh(w, extra=(), spell="abs"):
    root = w.root
    arg, cwd = root, None
    if spell == "slash":
        arg = root + os.sep
    elif spell == "rel":
        arg, cwd = "t", w.tmp
    elif spell == "dot":
        arg, cwd = ".", root
    elif spell == "dotslash":
        arg, cwd = "./t/", w.tmp
    elif spell == "updown":
        arg, cwd = os.path.join("..", "t"), root
    elif spell == "inside":
        # cwd is a folder below the root (if there is one), root given absolute
        subs = sorted(k for k, t in w.visible().items() if t == "d" and not os.path.islink(os.path.join(root, k)))
        cwd = os.path.join(root, subs[0]) if subs else root
    return W.run("verify", [arg, "-dh"] + list(extra), cwd=cwd)


def where_of(w, m):
    if m is None:
        return "unchanged"
    owner = W.owner_of(m.rel, w.nested_roots()) if m.rel != "." else ""
    if owner:
        return "nested"
    top = m.rel == "." or (os.sep not in m.rel)
    return "root" if top else "sub"


def judge(run, cid, w, res, expect, m, inp, opts=""):
    code, out, exc = res
    what_m = "the unchanged tree" if m is None else f"{m.kind} of {m.rel!r} ({where_of(w, m)})"
    if exc is not None or code not in (0, 12):
        run.violation(
            cid,
            f"verify -dh {opts}on {what_m} aborts: exit {code}, exception {exc!r}, output tail {out[-300:]!r}; history: {w.gens}",
            f"internal-error/{where_of(w, m)}",
            inp=inp,
        )
        return
    if expect is None or code == expect:
        return
    if expect == 0:
        run.violation(
            cid,
            f"verify -dh {opts}exits {code} on a tree identical to the one every generation recorded (expected 0); "
            f"output tail {out[-400:]!r}; history: {w.gens}",
            "false-alarm/unchanged",
            inp=inp,
        )
    else:
        run.violation(
            cid,
            f"verify -dh {opts}exits {code} after {what_m}, a tree no generation recorded (expected 12); history: {w.gens}",
            f"missed/{where_of(w, m)}/{m.klass}",
            inp=inp,
        )


STD_KINDS = {"edit", "flip", "rename", "renorm", "remove", "addfile", "adddir", "rmdir", "swap"}


def select(w, muts, level):
    """full: everything; std: one mutation of every basic kind on every entry; probe: see probe_subset"""
    if level == "full":
        return muts
    std = [m for m in muts if m.kind in STD_KINDS and not m.mid.startswith(("flip0", "flipM"))]
    return std if level == "std" else probe_subset(w, std)


def dangling(root):
    for dp, dns, fns in os.walk(root):
        for n in dns + fns:
            p = os.path.join(dp, n)
            if os.path.islink(p) and not os.path.exists(p):
                return True
    return False


def check_world(run, w, meta, level="full", combos=(("abs", ()),), key_extra=()):
    """the unchanged tree and every selected mutation, under every (root spelling, verify options) combination"""
    wid = w.wid
    pristine = sig(w.root)
    stable = w.stable()
    muts = select(w, enum_mutations(w), level)
    links = any(v[0] == "l" for v in pristine.values())
    for spell, opts in combos:
        suffix = "" if (spell == "abs" and not opts) else f"/{spell}{''.join(opts)}"
        ostr = (" ".join(opts) + " ") if opts else ""
        cid = f"{wid}/ident{suffix}"
        inp = dict(meta, mutation=None, spelling=spell, options=list(opts), history=w.gens)
        if run.want(cid):
            exp = 0 if stable else None
            res = vdh(w, opts, spell)
            run.case(cid, (wid, "ident", spell, opts) + key_extra if exp is not None else None, sample={"case": cid, "exit": res[0], "expected": exp})
            judge(run, cid, w, res, exp, None, inp, ostr)
        for m in muts:
            cid = f"{wid}/{m.mid}{suffix}"
            if not run.want(cid):
                continue
            m.do()
            try:
                if links and dangling(w.root):
                    continue  # a symlink without target is outside the statement's trees (create refuses it as well)
                cur = sig(w.root)
                novel = all(s != cur for s in w.sigs)
                exp = 12 if (w.has_dh and novel) else None
                res = vdh(w, opts, spell)
            finally:
                m.undo()
            run.case(cid, (wid, m.mid, spell, opts) + key_extra if exp is not None else None, sample={"case": cid, "exit": res[0], "expected": exp})
            judge(run, cid, w, res, exp, m, dict(inp, mutation=m.kind, path=m.rel), ostr)
    if sig(w.root) != pristine:
        raise RuntimeError(f"driver bug: world {wid} not restored after its mutations")
    shutil.rmtree(w.tmp, ignore_errors=True)


def wanted_world(run, wid):
    return run.only is None or run.only.startswith(wid + "/")


def pick_f2(fsets, i):
    F1 = fsets[i % len(fsets)]
    for k in range(1, len(fsets) + 1):
        F2 = fsets[(i + k) % len(fsets)]
        if sorted(F2) != sorted(F1):
            return F1, F2
    return F1, F1


# ------------------------------------------------------------------------------------------------ parts
QUICK_STD = {
    ("flat", 0),
    ("single", 0),
    ("emptyfolder", 0),
    ("onlydirs", 1),
    ("deep", 0),
    ("deep", 3),
    ("names", 0),
    ("prefix", 2),
    ("levels", 1),
    ("case", 0),
    ("dups", 1),
    ("wide3", 1),
    ("dash", 0),
    ("link", 1),
    ("lookalike", 1),
    ("selfname", 1),
}
QUICK_BOTH_MODES = {("deep", 3), ("levels", 1), ("wide3", 1)}


def part_mutations(run, fsets):
    """A: every tree x nested placement x nested format mode, one full generation, every mutation"""
    thorough = run.tier == "thorough"
    k = 0
    for tree in TREES:
        if tree in ("ign", "big"):
            continue
        for ni, nested in enumerate(NESTED[tree]):
            if not nested:
                modes = ["same"]
            elif thorough:
                modes = NMODES
            elif (tree, ni) in QUICK_BOTH_MODES:
                modes = ["same", "other"]
            else:
                modes = [["other", "same"][k % 2]]
            for nmode in modes:
                if tree == "deep" and ni == 0:
                    sets = list(range(len(fsets)))
                elif thorough:
                    sets = [k, k + 7]
                else:
                    sets = [k]
                k += 1
                for si, fi in enumerate(sets):
                    F1, F2 = pick_f2(fsets, fi)
                    wid = f"mut/{tree}/{ni}/{nmode}/{'+'.join(F1)}"
                    if not wanted_world(run, wid):
                        continue
                    w = seal(run, wid, tree, nested, nmode, "one", F1, F2)
                    if w is None:
                        continue
                    if thorough:
                        level = "full" if si == 0 else ("std" if tree == "deep" else "probe")
                    else:
                        level = "std" if ((tree, ni) in QUICK_STD and si == 0) else "probe"
                    check_world(run, w, {"tree": tree, "nested": nested, "nested_mode": nmode, "recipe": "one", "formats": F1}, level)


def part_histories(run, fsets):
    """B: every history recipe; whole mutation set on a flat folder and on the deep tree with 2 nested levels"""
    thorough = run.tier == "thorough"
    key = {"two-fmt", "n+dh", "dh+sf"}
    rotate = [("levels", 1), ("prefix", 2), ("emptyfolder", 0), ("names", 1), ("deep", 1), ("wide3", 1), ("dups", 2), ("onlydirs", 1)]
    k = 0
    for ri, recipe in enumerate(RECIPES):
        if recipe == "one":
            continue
        ign = recipe.startswith("ign") or recipe == "neg-later"
        if ign:
            targets = [("ign", 0, "full" if thorough else "probe"), ("ign", 1, "full" if thorough else ("std" if recipe == "ign" else "probe"))]
        elif thorough:
            lv = {("flat", 0): "full", ("deep", 3): "std" if recipe == "many12" else "full", ("levels", 1): "std"}
            targets = [(t, ni, lv.get((t, ni), "probe")) for t in TREES if t not in ("ign", "big") for ni in range(len(NESTED[t]))]
        else:
            t2, n2 = rotate[ri % len(rotate)]
            targets = [("flat", 0, "std"), ("deep", 3, "std" if recipe in key else "probe"), (t2, n2, "probe")]
        for tree, ni, level in targets:
            nested = NESTED[tree][ni]
            if not nested:
                modes = ["same"]
            elif thorough:
                modes = [NMODES[(k + j) % 5] for j in range(3)] if (tree, ni) == ("deep", 3) else [NMODES[k % 5]]
            else:
                modes = [NMODES[k % 5]]
            for nmode in modes:
                k += 1
                F1, F2 = pick_f2(fsets, k)
                wid = f"hist/{recipe}/{tree}/{ni}/{nmode}/{'+'.join(F1)}"
                if not wanted_world(run, wid):
                    continue
                w = seal(run, wid, tree, nested, nmode, recipe, F1, F2)
                if w is None:
                    continue
                check_world(run, w, {"tree": tree, "nested": nested, "nested_mode": nmode, "recipe": recipe, "formats": F1, "formats2": F2}, level)


def part_spellings(run, fsets):
    """C: how the root is spelled (at create and at verify), cwd, -v, -h <recorded format>"""
    thorough = run.tier == "thorough"
    targets = [("deep", 1, "other", "two-fmt"), ("flat", 0, "same", "one"), ("emptyfolder", 0, "same", "one")]
    if thorough:
        targets += [
            ("names", 2, "same", "dh+n"),
            ("levels", 1, "other", "many12"),
            ("prefix", 2, "late", "dh+sf"),
            ("wide3", 1, "regen", "n+dh"),
            ("dash", 1, "same", "one"),
        ]
    for ti, (tree, ni, nmode, recipe) in enumerate(targets):
        F1, F2 = pick_f2(fsets, 3 + ti)
        nested = NESTED[tree][ni]
        wid = f"spell/{tree}/{ni}/{nmode}/{recipe}/{'+'.join(F1)}"
        if wanted_world(run, wid):
            w = seal(run, wid, tree, nested, nmode, recipe, F1, F2)
            if w is not None:
                # -h only with formats in which the outer history recorded directory hashes
                recorded = sorted(set(F2) if recipe == "n+dh" else set(F1) | (set(F2) if recipe in ("two-fmt", "many12") else set()))
                optsets = [("-v",)] + [("-h", f) for f in recorded] + [("-v", "-h", recorded[0])]
                if thorough and ti < 3:
                    combos = [(s, o) for s in SPELLS for o in [()] + optsets]
                else:
                    combos = [(s, ()) for s in SPELLS] + [("abs", o) for o in optsets] + [("dot", ("-v",)), ("slash", ("-h", recorded[-1]))]
                check_world(
                    run,
                    w,
                    {"tree": tree, "nested": nested, "nested_mode": nmode, "recipe": recipe, "formats": F1},
                    "probe",
                    combos=combos,
                )
        # the history itself written through an unusual spelling of the root
        spellings = ("dot", "slash", "rel", "updown")
        for cs in spellings if thorough else (spellings[ti % 4], spellings[(ti + 2) % 4]):
            wid = f"spell-create/{tree}/{ni}/{cs}/{'+'.join(F1)}"
            if not wanted_world(run, wid):
                continue
            w = World(run, wid, tree, nested)
            W.build(w.root, TREES[tree])
            try:
                for nr in nested:
                    w.create(os.path.join(".", nr) + os.sep, F2, cwd=w.root)
                arg, cwd = {"dot": (".", w.root), "slash": (w.root + os.sep, None), "rel": ("t", w.tmp), "updown": ("../t", w.root)}[cs]
                w.create(arg, F1, cwd=cwd)
                w.has_dh = True
            except SetupFailed:
                continue
            combos = [(s, ()) for s in (("abs", "dot", "slash", "updown") if thorough else ("abs", "dot"))]
            check_world(run, w, {"tree": tree, "nested": nested, "create_spelling": cs, "formats": F1}, "probe", combos=combos)


def part_special(run, fsets):
    """D: sizes around 1 MiB, symlinks, time zones / mtimes around DST switches"""
    thorough = run.tier == "thorough"
    for ni, nested in enumerate(NESTED["big"] if thorough else NESTED["big"][1:]):
        F1 = ["xxh64", "md5"] if not thorough else ["xxh64", "c4", "sha1"]
        wid = f"big/{len(nested)}/{'+'.join(F1)}"
        if wanted_world(run, wid):
            w = seal(run, wid, "big", nested, "other", "one", F1, F1)
            if w is not None:
                check_world(run, w, {"tree": "big", "nested": nested, "formats": F1}, "full")
    zones = ["UTC", "CET-1CEST,M3.5.0,M10.5.0/3", "NZST-12NZDT,M9.5.0,M4.1.0/3", "<-03>3", "Europe/Berlin"]
    if not thorough:
        zones = zones[:2]
    # instants: inside the repeated hour and at both edges of the gap of the CET rule in 2025, epoch 0, 2^31
    stamps = [1761438600, 1761442200, 1743296399, 1743296400, 0, 2**31 + 5, 1758930000.123456]
    old_tz = os.environ.get("TZ")
    try:
        for zi, (z_create, z_verify) in enumerate([(z, z) for z in zones] + ([(zones[1], zones[0]), (zones[0], zones[1])])):
            tree, ni = ("deep", 1) if zi % 2 == 0 else ("levels", 1)
            F1, F2 = pick_f2(fsets, zi)
            wid = f"tz/{zi}/{tree}"
            if not wanted_world(run, wid):
                continue

            def pre(w):
                n = 0
                for dp, dns, fns in os.walk(w.root):
                    for name in dns + fns:
                        t = stamps[n % len(stamps)]
                        n += 1
                        os.utime(os.path.join(dp, name), (t, t))
                os.utime(w.root, (stamps[0], stamps[0]))

            os.environ["TZ"] = z_create
            time.tzset()
            w = seal(run, wid, tree, NESTED[tree][ni], "same", "two-fmt", F1, F2, pre=pre)
            os.environ["TZ"] = z_verify
            time.tzset()
            if w is not None:
                check_world(run, w, {"tree": tree, "tz_create": z_create, "tz_verify": z_verify, "formats": F1}, "probe", combos=(("abs", ()), ("abs", ("-v",))))
    finally:
        if old_tz is None:
            os.environ.pop("TZ", None)
        else:
            os.environ["TZ"] = old_tz
        time.tzset()


CRASH_SCRIPT = r"""
import builtins, os, sys
root, k, args = sys.argv[1], int(sys.argv[2]), sys.argv[3:]
n = [0]
WR = os.O_WRONLY | os.O_RDWR | os.O_CREAT | os.O_APPEND | os.O_TRUNC
def tick():
    n[0] += 1
    return n[0] == k
def hook(e, a):
    hit = False
    if e == "open":
        p, mode, flags = a
        hit = isinstance(p, str) and p.startswith(root) and bool(flags & WR)
    elif e in ("os.rename", "os.mkdir", "os.remove", "os.rmdir"):
        hit = str(a[0]).startswith(root)
    if hit and tick():
        os._exit(77)
sys.addaudithook(hook)
_open = builtins.open
class Proxy:
    def __init__(self, f):
        self.f = f
    def write(self, data):
        if tick():
            self.f.write(data[: len(data) // 2])
            self.f.flush()
            os._exit(77)
        return self.f.write(data)
    def __getattr__(self, name):
        return getattr(self.f, name)
    def __enter__(self):
        return self
    def __exit__(self, *a):
        return self.f.__exit__(*a)
def my_open(file, mode="r", *a, **kw):
    f = _open(file, mode, *a, **kw)
    if isinstance(file, str) and file.startswith(root) and any(c in mode for c in "wax+"):
        return Proxy(f)
    return f
builtins.open = my_open
import click
from ascmhl import commands
code = 0
try:
    commands.create.main(args=args, standalone_mode=False)
except click.ClickException as e:
    code = e.exit_code
except SystemExit as e:
    code = e.code or 0
print("EVENTS", n[0])
sys.exit(code)
"""


def crash_create(root, k, args):
    env = dict(os.environ)
    env["PYTHONPATH"] = REPO + os.pathsep + env.get("PYTHONPATH", "")
    p = subprocess.run([sys.executable, "-c", CRASH_SCRIPT, root, str(k)] + args, env=env, capture_output=True, text=True, timeout=120)
    n = None
    for line in p.stdout.splitlines():
        if line.startswith("EVENTS "):
            n = int(line.split()[1])
    return p.returncode, n, p.stderr[-300:]


def part_crash(run, fsets):
    """E: the second create of the history dies at its k-th file-system event (open for writing, write, rename, mkdir);
    then verify -dh, a mutation, another create, verify -dh again"""
    thorough = run.tier == "thorough"
    targets = [("deep", 1, "same")] + ([("flat", 0, "same"), ("levels", 1, "other"), ("prefix", 2, "same")] if thorough else [])
    for tree, ni, nmode in targets:
        F1, F2 = ["md5"], ["c4"]
        nested = NESTED[tree][ni]
        base = f"crash/{tree}/{ni}/{nmode}"
        if not wanted_world(run, base) and not (run.only or "").startswith(base):
            continue
        w0 = seal(run, base, tree, nested, nmode, "one", F1, F2)
        if w0 is None:
            continue
        probe = os.path.join(w0.tmp, "count")
        shutil.copytree(w0.tmp + "/t", probe + "/t", symlinks=True)
        rc, total, err = crash_create(probe + "/t", 0, [probe + "/t", "-h", "c4"])
        if rc != 0 or not total:
            run.violation(base + "/setup", f"uninterrupted second create in a subprocess exits {rc}: {err!r}", "setup/create")
            continue
        ks = list(range(1, total + 1))
        if not thorough and total > 8:
            ks = sorted({1 + round(j * (total - 1) / 7) for j in range(8)})
        for k in ks:
            cid = f"{base}/k{k}"
            if not run.want(cid):
                continue
            w = World(run, cid, tree, nested)
            shutil.copytree(w0.root, w.root, symlinks=True)
            w.gens = list(w0.gens) + [f"create . -h c4 killed at event {k}/{total}"]
            w.has_dh = True
            rc, _, err = crash_create(w.root, k, [w.root, "-h", "c4"])
            inp = {"tree": tree, "nested": nested, "killed_at_event": k, "of": total, "history": w.gens}
            if rc != 77:
                run.case(cid, None)
                continue
            run.case(cid, (base, k), sample={"case": cid, "events": total})
            muts = probe_subset(w, enum_mutations(w))
            for stage in ("after-crash", "after-next-create"):
                if stage == "after-next-create":
                    code, out, exc = W.run("create", [w.root, "-h", "md5"])
                    w.gens.append(f"create . -h md5 -> {code}")
                    if code != 0 or exc is not None:
                        break  # whether create recovers is C15's business, not this property's
                code, out, exc = vdh(w)
                if exc is not None:
                    run.violation(cid, f"{stage}: verify -dh aborts with {exc!r} (exit {code}); history: {w.gens}", f"internal-error/{stage}", inp=inp)
                    continue
                if code == 12:
                    run.violation(cid, f"{stage}: verify -dh exits 12 on the unchanged tree; output tail {out[-300:]!r}; history: {w.gens}", f"false-alarm/{stage}", inp=inp)
                    continue
                if code != 0:
                    continue  # a documented refusal to load a damaged history is not an internal error
                for m in muts:
                    m.do()
                    try:
                        res = vdh(w)
                    finally:
                        m.undo()
                    judge(run, cid, w, res, 12, m, dict(inp, stage=stage, mutation=m.kind, path=m.rel), f"({stage}) ")
            shutil.rmtree(w.tmp, ignore_errors=True)
        shutil.rmtree(w0.tmp, ignore_errors=True)


NAME_POOL = [
    "a",
    "b.txt",
    "Clips",
    "Clips_proxy",
    "Clips.txt",
    "é",
    "é",
    "x y",
    "&<>'\"",
    "l s",
    "ASCMHL",
    "ascmhl_",
    ".hidden",
    "-n",
    "0",
    "A",
    "B",
    "\u30c6\u30b9\u30c8",
]


def random_world(rnd):
    spec, dirs = {}, [""]
    for _ in range(rnd.randint(0, 4)):
        parent = rnd.choice(dirs)
        if parent.count("/") >= 2 and parent:
            continue
        d = (parent + "/" if parent else "") + rnd.choice(NAME_POOL)
        if d not in dirs and d not in spec:
            dirs.append(d)
    for d in dirs[1:]:
        spec[d + "/"] = ""
    for _ in range(rnd.randint(0, 7)):
        d = rnd.choice(dirs)
        f = (d + "/" if d else "") + rnd.choice(NAME_POOL)
        if f in dirs or f + "/" in spec:
            continue
        spec[f] = rnd.choice(["", "same", "same", "x" * rnd.randint(1, 40), bytes(rnd.getrandbits(8) for _ in range(rnd.randint(1, 64)))])
    cands = [d for d in dirs[1:]]
    rnd.shuffle(cands)
    nested = cands[: rnd.randint(0, min(3, len(cands)))]
    return spec, nested


def part_random(run, fsets):
    """F: seeded random trees / placements / recipes beyond the fixed pool"""
    n = 6 if run.tier == "quick" else 120
    plain = [r for r in RECIPES if not r.startswith("ign") and r != "neg-later"]
    for i in range(n):
        rnd = random.Random(f"{run.seed}/{i}")
        spec, nested = random_world(rnd)
        recipe = rnd.choice(plain)
        nmode = rnd.choice(NMODES) if nested else "same"
        F1, F2 = pick_f2(fsets, rnd.randrange(len(fsets)))
        wid = f"rnd/{run.seed}/{i}"
        if not wanted_world(run, wid):
            continue
        w = seal(run, wid, spec, nested, nmode, recipe, F1, F2)
        if w is None:
            continue
        w.tree = {k: (v if isinstance(v, str) else repr(v)) for k, v in spec.items()}
        check_world(run, w, {"tree": w.tree, "nested": nested, "nested_mode": nmode, "recipe": recipe, "formats": F1, "formats2": F2}, "std" if run.tier == "quick" else "full")


def main():
    run = Run(
        "C09",
        rule="case = (sealed world, one mutation or none, root spelling, verify options); world = (tree, nested-history placement, "
        "nested format mode same/other/-n/late/regenerated, history recipe, format sets); mutations = for every visible file: "
        "append / same-size-same-mtime byte flip / rename / case-only rename / NFC<->NFD rename / remove; for every folder incl. the "
        "root: add file / add empty file / add empty folder / rename / remove / swap two files' contents / move a file in; "
        "non-trivial = the statement fixes the exit code (0: tree identical at every create; 12: outer history has directory hashes "
        "and the mutated tree equals the tree at no create); other cases only demand exit in {0,12} without exception",
        bound="17 trees (<= 13 entries, depth <= 4; flat, single, empty, only folders, prefix siblings, case pairs, NFC/NFD, XML-special, "
        "U+2028, option-like names, a sub-folder named like the root, duplicates, file symlinks, files of 2^20-1/2^20/2^20+1 bytes), <= 3 nested histories up to 3 deep, "
        "17 history recipes (1-12 generations; -n, -sf, differing format sets, failed generation, repeated -h, -i/-ii patterns, "
        "negation added later), 5 format sets quick / 22 thorough, 7 root spellings, -v / -h, 2-5 time zones with mtimes around DST "
        "switches, a crash at 8 (quick) / every (thorough) file-system event of a second create, 6 (quick) / 120 (thorough) seeded random worlds; quick runs the basic mutation kinds on 16 worlds and a probe subset (root-level, deepest, one per nested history, one per class) elsewhere",
    )
    parts = (part_mutations, part_histories, part_spellings, part_special, part_crash, part_random)
    for part in parts:
        t0, n0 = time.time(), run.evaluations
        part(run, S.format_sets(run.tier))
        if os.environ.get("C09_DEBUG"):
            print(f"{part.__name__}: {run.evaluations - n0} cases, {time.time() - t0:.1f} s, {len(run.violations)} violations", file=sys.stderr)
    if run.only and run.evaluations == 0 and not run.violations and run.tier != "thorough":
        # a case id reported by a thorough run: enumerate with the thorough dimensions to find it
        run.tier = "thorough"
        for part in parts:
            part(run, S.format_sets(run.tier))
    run.finish()


if __name__ == "__main__":
    main()
