"""C20 bounded part: the real entry points (`python -m ascmhl.cli.ascmhl`, `python -m ascmhl.cli.ascmhl_debug` and the
console-script form `from ascmhl.cli.ascmhl import mhltool_cli; sys.exit(mhltool_cli())`) are run in subprocesses
against an update server that is played by this driver.

How the network is simulated: a `sitecustomize.py` written into run.tmp is put first on the subprocess' PYTHONPATH.  It
wraps `requests.adapters.HTTPAdapter.send` so that every request to api.github.com is sent to a local TCP server owned
by the driver (or to a reserved port nobody listens on, or to a socket that accepts and stays mute), or - for the
behaviours that need no server - blocks / raises inside the adapter; name resolution of non-local hosts fails at once,
so nothing ever leaves the sandbox.

Oracle (the statement, nothing from the implementation): the same command line run without any updater - a click group
that holds the command objects of `ascmhl.commands` directly, or, for group-level invocations (--help, --version, no
command, unknown command) the same entry point with `ascmhl.cli.update` replaced by an inert stand-in - gives the
reference exit code, reference standard output and reference wall time, on an identical copy of the world.
    exit code  == reference exit code
    stdout     == reference stdout, optionally followed by exactly ONE line that is an update notice (a line that speaks
                  of an update / newer version and not of an error; and only if the server delivered anything that could
                  be read as a version at all - with no version information there is nothing to give notice of)
    time       (a) the process reaches its exit handlers at most LIMIT = 2.5 s (the "about one second" of the statement
                  plus tolerance) later after the command's own code has finished than in the reference run (both instants
                  are recorded inside the subprocess by the bootstrap, which is instrumentation only), and
               (b) total wall time <= reference wall time + 1 s + 1.5 s * slowdown, slowdown = wall/CPU time of the reference
                  run (1 on an idle machine, so the bound is 2.5 s there; the commands never sleep), and
               (c) the process ends at all (it is killed after 1.5 * reference + bound (b) + 3 s).
Timing discrepancies are measured twice more, sequentially (nothing else of this driver running) and only reported when all
three measurements show them; a real stall is deterministic.  Standard error is not part of the statement and is ignored.
Reference and updater runs import the same third-party modules at start-up (requests, packaging), so import cost does not
count as delay.
"""
import concurrent.futures
import gzip
import json
import os
import random
import re
import shutil
import socket
import struct
import subprocess
import sys
import threading
import time

from . import scen as S
from . import world as W
from .common import REPO, Run

PY = sys.executable
LIMIT = 2.5  # allowed extra wall-clock seconds over the reference run
MiB = 1 << 20

# ------------------------------------------------------------------------------------------------ subprocess bootstrap
SITECUSTOMIZE = r'''
import os as _os, time as _time

_T0 = _time.monotonic()
_mode = _os.environ.get("C20_MODE", "")
_times = _os.environ.get("C20_TIMES", "")
if _mode:
    # the same imports in reference runs and in runs with the updater, so that import cost does not count as delay
    import requests as _requests, packaging.version as _pv
if _times:
    # instrumentation only: when did the command's own code begin / end, when did the interpreter reach its exit handlers
    # (these run after non-daemon threads have been joined)
    import atexit as _atexit, json as _json, click as _click

    _ev = {"start": _T0, "begin": None, "done": None, "exit": None}
    _orig_invoke = _click.Command.invoke

    def _invoke(self, ctx):
        if isinstance(self, _click.MultiCommand):
            return _orig_invoke(self, ctx)
        if _ev["begin"] is None:
            _ev["begin"] = _time.monotonic()
        try:
            return _orig_invoke(self, ctx)
        finally:
            _ev["done"] = _time.monotonic()

    _click.Command.invoke = _invoke

    def _bye():
        _ev["exit"] = _time.monotonic()
        try:
            with open(_times, "w") as f:
                f.write(_json.dumps(_ev))
        except OSError:
            pass

    _atexit.register(_bye)
if _mode == "stub":
    # the CLI module without any updater: an inert stand-in for ascmhl.cli.update
    import sys as _sys, types as _types

    class Updater:
        needs_update = False
        finished = True
        latest_version = None
        daemon = True

        def __init__(self, *a, **k):
            pass

        def start(self, *a, **k):
            return None

        def join(self, *a, **k):
            return None

        def is_alive(self):
            return False

        def __getattr__(self, name):
            return None

    _m = _types.ModuleType("ascmhl.cli.update")
    _m.Updater = Updater
    _sys.modules["ascmhl.cli.update"] = _m
elif _mode == "net":
    import socket as _socket, threading as _threading
    import requests as _requests, requests.adapters as _adapters

    _port = int(_os.environ.get("C20_PORT", "0"))
    _rid = _os.environ.get("C20_RID", "r")
    _local = _os.environ.get("C20_LOCAL", "")
    _mark = _os.environ.get("C20_MARK", "")
    _orig_send = _adapters.HTTPAdapter.send
    _orig_gai = _socket.getaddrinfo

    def _gai(host, *a, **k):
        h = host.decode() if isinstance(host, bytes) else host
        if h in (None, "", "localhost", "127.0.0.1", "::1"):
            return _orig_gai(host, *a, **k)
        if _local == "dnshang":
            _threading.Event().wait()
        raise _socket.gaierror(-2, "Name or service not known")

    _socket.getaddrinfo = _gai

    def _send(self, request, **kw):
        url = request.url or ""
        if "://api.github.com" in url:
            if _mark:
                try:
                    with open(_mark, "a") as f:
                        f.write("x")
                except OSError:
                    pass
            if _local == "block":
                _threading.Event().wait()
            if _local.startswith("raise:"):
                raise getattr(_requests.exceptions, _local[6:])("simulated by the C20 driver")
            if _local not in ("dnsfail", "dnshang"):
                path = url.split("://api.github.com", 1)[1]
                request.url = "http://127.0.0.1:%d/%s%s" % (_port, _rid, path if path.startswith("/") else "/" + path)
        return _orig_send(self, request, **kw)

    _adapters.HTTPAdapter.send = _send
'''

BASELINE = r'''
import sys
import click
from ascmhl import commands

grp = click.Group(name="reference")
for c in (commands.create, commands.diff, commands.flatten, commands.info, commands.verify, commands.xsd_schema_check, commands.hash):
    grp.add_command(c)
grp.main(args=sys.argv[2:], prog_name=sys.argv[1])
'''

ENTRY = {"ascmhl": ("ascmhl.cli.ascmhl", "mhltool_cli", "ascmhl"), "debug": ("ascmhl.cli.ascmhl_debug", "mhldebugtool_cli", "ascmhl-debug")}


def entry_argv(group, style):
    mod, fn, script = ENTRY[group]
    if style == "module":
        return [PY, "-m", mod], f"python -m {mod}"
    code = f"import sys; sys.argv[0] = {script!r}; from {mod} import {fn}; sys.exit({fn}())"
    return [PY, "-c", code], script


# ------------------------------------------------------------------------------------------------ the update server
class Net:
    """one listener that plays scripted HTTP answers (script chosen by the first path component = run id), one listener
    that accepts and stays mute, one bound-but-not-listening socket (connection refused)"""

    def __init__(self):
        self.scripts = {}
        self.hits = {}
        self.stop = threading.Event()
        self.srv = self._listen()
        self.mute = self._listen()
        self.refused = socket.socket(socket.AF_INET, socket.SOCK_STREAM)
        self.refused.bind(("127.0.0.1", 0))
        self.muted = []
        threading.Thread(target=self._accept_loop, args=(self.srv, True), daemon=True).start()
        threading.Thread(target=self._accept_loop, args=(self.mute, False), daemon=True).start()

    @staticmethod
    def _listen():
        s = socket.socket(socket.AF_INET, socket.SOCK_STREAM)
        s.setsockopt(socket.SOL_SOCKET, socket.SO_REUSEADDR, 1)
        s.bind(("127.0.0.1", 0))
        s.listen(256)
        return s

    def port(self, kind):
        return {"srv": self.srv, "mute": self.mute, "refused": self.refused}[kind].getsockname()[1]

    def close(self):
        self.stop.set()
        for s in [self.srv, self.mute, self.refused] + self.muted:
            try:
                s.close()
            except OSError:
                pass

    def _accept_loop(self, lsock, talk):
        while not self.stop.is_set():
            try:
                conn, _ = lsock.accept()
            except OSError:
                return
            if talk:
                threading.Thread(target=self._serve, args=(conn,), daemon=True).start()
            else:
                self.muted.append(conn)
                if len(self.muted) > 200:
                    old = self.muted.pop(0)
                    try:
                        old.close()
                    except OSError:
                        pass

    def _sleep(self, sec):
        return not self.stop.wait(sec)

    def _hold(self, conn, limit=25.0):
        """keep the connection open and silent until the client goes away"""
        end = time.monotonic() + limit
        conn.settimeout(0.25)
        while time.monotonic() < end and not self.stop.is_set():
            try:
                if conn.recv(4096) == b"":
                    return
            except socket.timeout:
                continue
            except OSError:
                return

    def _serve(self, conn):
        try:
            conn.settimeout(5)
            buf = b""
            while b"\r\n\r\n" not in buf and len(buf) < 65536:
                d = conn.recv(4096)
                if not d:
                    break
                buf += d
            try:
                path = buf.split(b"\r\n", 1)[0].split(b" ")[1].decode("latin-1")
            except IndexError:
                return
            parts = path.split("/")
            rid = parts[1] if len(parts) > 1 else ""
            final = len(parts) > 2 and parts[2] == "final"
            self.hits[rid] = self.hits.get(rid, 0) + 1
            beh = self.scripts.get(rid)
            if beh is None:
                return
            steps = beh.get("final_steps") if final else beh["steps"]
            conn.settimeout(10)
            for st in steps or []:
                op = st[0]
                if op == "wait":
                    if not self._sleep(st[1]):
                        return
                elif op == "send":
                    conn.sendall(st[1].replace(b"{RID}", rid.encode()))
                elif op == "drip":  # ("drip", data, chunk, interval)
                    data, n, iv = st[1], st[2], st[3]
                    for i in range(0, len(data), n):
                        conn.sendall(data[i : i + n])
                        if not self._sleep(iv):
                            return
                elif op == "forever":  # ("forever", chunk, interval): never ends (until the client goes away)
                    end = time.monotonic() + 25
                    while time.monotonic() < end:
                        conn.sendall(st[1])
                        if not self._sleep(st[2]):
                            return
                elif op == "hold":
                    self._hold(conn)
                    return
                elif op == "rst":
                    conn.setsockopt(socket.SOL_SOCKET, socket.SO_LINGER, struct.pack("ii", 1, 0))
                    return
        except OSError:
            pass
        finally:
            try:
                conn.close()
            except OSError:
                pass


def J(obj):
    return json.dumps(obj).encode()


def head(status=200, reason=None, headers=(), clen=None, ctype="application/json; charset=utf-8"):
    reasons = {200: "OK", 204: "No Content", 301: "Moved Permanently", 302: "Found", 304: "Not Modified", 400: "Bad Request",
               401: "Unauthorized", 403: "Forbidden", 404: "Not Found", 418: "I'm a teapot", 429: "Too Many Requests",
               500: "Internal Server Error", 502: "Bad Gateway", 503: "Service Unavailable", 599: "Weird"}  # fmt: skip
    lines = [f"HTTP/1.1 {status} {reason if reason is not None else reasons.get(status, 'X')}"]
    if ctype:
        lines.append(f"Content-Type: {ctype}")
    if clen is not None:
        lines.append(f"Content-Length: {clen}")
    lines += list(headers)
    lines.append("Connection: close")
    return ("\r\n".join(lines) + "\r\n\r\n").encode("latin-1")


def answer(body=b"", status=200, pre=0.0, mid=0.0, clen="auto", drip=None, end="close", headers=(), reason=None, ctype="application/json; charset=utf-8"):
    """steps of one scripted HTTP answer"""
    steps = []
    if pre:
        steps.append(("wait", pre))
    cl = len(body) if clen == "auto" else clen
    steps.append(("send", head(status, reason, headers, cl, ctype)))
    if mid:
        steps.append(("wait", mid))
    if body:
        steps.append(("drip", body, drip[0], drip[1]) if drip else ("send", body))
    if end in ("hold", "rst"):
        steps.append((end,))
    return steps


def installed_version():
    try:
        from importlib.metadata import version

        return version("ascmhl")
    except Exception:
        return "0.1"


def behaviours(tier):
    """every network behaviour: dict(id, cls, port, local, steps[, final_steps])"""
    out = []

    def add(bid, cls, steps=None, port="srv", local="", final_steps=None):
        # info: does the server ever deliver anything that could be read as a version?  Without any version information an
        # extra output line cannot be "an update notice" (lenient: any payload that mentions a version-like value counts)
        payload = b"".join(st[1] for st in (steps or []) + (final_steps or []) if st[0] in ("send", "drip", "forever"))
        payload = payload.split(b"\r\n\r\n", 1)[1] if b"\r\n\r\n" in payload else payload
        lenient = bid.startswith(("mal/", "delay/malformed")) and bid != "mal/empty" or bid in ("type/bigint", "type/zero")
        info = cls == "version" or lenient or b"99" in payload or "\u0669".encode() in payload or gzip.compress(b"x")[:2] == payload[:2]
        out.append({"id": bid, "cls": cls, "port": port, "local": local, "steps": steps or [], "final_steps": final_steps, "info": info})

    cur = installed_version()
    NEW = J({"tag_name": "v99.0.0"})
    real = {"url": "https://api.github.com/repos/ascmitc/mhl/releases/1", "id": 1, "tag_name": "v99.1.0", "name": "v99.1.0", "draft": False,
            "prerelease": False, "assets": [], "author": {"login": "x", "id": 2}, "body": "notes   with <xml> & 'quotes'\n" * 20}  # fmt: skip
    # ---- immediate, well-formed answers with every kind of version
    versions = {
        "newer-v": "v99.0.0", "newer": "99.0.0", "newer-short": "99", "newer-epoch": "1!0.0.1", "newer-post": "99.0.post1",
        "newer-local": "99.0+local.1", "newer-space": " 99.0.0 \n", "newer-huge": "9" * 5000, "older": "0.0.1", "older-v": "v0.0.1",
        "older-zero": "0", "equal": cur, "equal-public": cur.split("+")[0], "pre-rc": "99.0.0rc1", "pre-alpha": "v99.0.0-alpha.2",
        "pre-beta": "99.0b1", "dev": "99.0.0.dev3", "dev-alpha": "99.0a1.dev1", "older-pre": "0.0.1rc1",
    }  # fmt: skip
    for k, v in versions.items():
        add(f"ver/{k}", "version", answer(J({"tag_name": v})))
    add("ver/real-payload", "version", answer(J(real)))
    # ---- malformed version strings
    bad = {
        "empty": "", "v": "v", "words": "not a version", "dots": "99..0", "dash": "99.0.0-", "latest": "latest", "nul": "99.0.0\x00",
        "arabic": "٩٩.٠", "semver-build": "99.0.0-beta+exp.sha.5114f85", "date": "2099-01-01", "slash": "release/99.0",
        "long": "1." * 20000, "emoji": "99.0.0\U0001f600", "newline": "99.0\n.0", "neg": "-1",
    }  # fmt: skip
    for k, v in bad.items():
        add(f"mal/{k}", "malformed", answer(J({"tag_name": v})))
    # ---- tag_name that is not a string, or missing
    nonstr = {"int": 99, "float": 99.5, "list": ["99.0.0"], "dict": {"name": "99.0.0"}, "null": None, "true": True, "false": False,
              "zero": 0, "emptylist": [], "bigint": 10**400, "nested": [[[{"tag_name": "99.0.0"}]]]}  # fmt: skip
    for k, v in nonstr.items():
        add(f"type/{k}", "nonstring", answer(J({"tag_name": v})))
    add("type/nan", "nonstring", answer(b'{"tag_name": NaN}'))
    add("type/infinity", "nonstring", answer(b'{"tag_name": -Infinity}'))
    add("key/missing", "missing", answer(J({})))
    add("key/other", "missing", answer(J({"tag": "99.0.0", "name": "99.0.0"})))
    add("key/case", "missing", answer(J({"TAG_NAME": "99.0.0"})))
    add("key/message", "missing", answer(J({"message": "Not Found", "documentation_url": "https://docs.github.com"})))
    for k, v in {"list": [], "listobj": [{"tag_name": "99.0.0"}], "string": "99.0.0", "int": 99, "null": None, "true": True}.items():
        add(f"top/{k}", "toplevel", answer(J(v)))
    # ---- bodies that are not JSON / incomplete JSON
    notjson = {
        "empty": b"", "html": b"<html><body>rate limited</body></html>", "binary": b"\xff\xfe\x00\x01binary\x80", "single-quotes": b"{'tag_name': '99.0.0'}",
        "bom": b'\xef\xbb\xbf{"tag_name": "99.0.0"}', "utf16": '{"tag_name": "99.0.0"}'.encode("utf-16"), "deep": b"[" * 100000,
        "bad-utf8": b'{"tag_name": "99.0.\xff\xfe0"}', "trailing": b'{"tag_name": "99.0.0"} trailing', "dup-keys": b'{"tag_name": 1, "tag_name": "99.0.0"}',
        "text": b"99.0.0", "trunc-value": b'{"tag_name": "99.0', "trunc-colon": b'{"tag_name":', "trunc-brace": b"{", "trunc-real": J(real)[:300],
        "lone-surrogate": b'{"tag_name": "99.0.0\\ud800"}', "whitespace": b" \r\n\t ",
    }  # fmt: skip
    for k, v in notjson.items():
        add(f"body/{k}", "notjson", answer(v))
    add("body/html-ctype", "notjson", answer(b"<html>captive portal</html>", ctype="text/html"))
    add("body/no-ctype", "version", answer(NEW, ctype=None))
    add("body/gzip-ok", "version", answer(gzip.compress(NEW), headers=["Content-Encoding: gzip"]))
    add("body/gzip-bad", "protocol", answer(b"this is not gzip", headers=["Content-Encoding: gzip"]))
    # ---- HTTP status codes
    for st in (204, 301, 304, 400, 401, 403, 404, 418, 429, 500, 502, 503, 599):
        body = b"" if st in (204, 304) else J({"message": "API rate limit exceeded", "tag_name": "v99.0.0"})
        add(f"http/{st}", "status", answer(body, status=st, headers=["Retry-After: 3600"] if st in (429, 503) else ()))
    add("http/500-html", "status", answer(b"<h1>Server Error</h1>", status=500, ctype="text/html"))
    add("http/302-loop", "status", answer(b"", status=302, headers=["Location: /{RID}/repos/ascmitc/mhl/releases/latest"]))
    add("http/302-final", "status", answer(b"", status=302, headers=["Location: /{RID}/final"]), final_steps=answer(NEW))
    add("http/302-slow-final", "status", answer(b"", status=302, headers=["Location: /{RID}/final"]), final_steps=answer(NEW, pre=8.0))
    add("http/302-elsewhere", "status", answer(b"", status=302, headers=["Location: https://objects.githubusercontent.com/x"]))
    add("http/200-reason", "version", answer(NEW, reason=""))
    # ---- protocol level trouble
    add("proto/garbage", "protocol", [("send", b"\x16\x03\x01garbage that is no http\r\n\r\n")])
    add("proto/empty-reply", "protocol", [])
    add("proto/reset", "protocol", [("rst",)])
    add("proto/reset-after-head", "protocol", [("send", head(200, clen=len(NEW))), ("rst",)])
    add("proto/short-body", "protocol", answer(NEW[:10], clen=len(NEW)))
    add("proto/short-body-hold", "protocol", answer(NEW[:10], clen=len(NEW), end="hold"))
    add("proto/bad-clen", "protocol", answer(NEW, clen="abc"))
    add("proto/no-clen", "version", answer(NEW, clen=None))
    add("proto/chunked-ok", "version", [("send", head(200, headers=["Transfer-Encoding: chunked"])), ("send", b"%x\r\n%s\r\n0\r\n\r\n" % (len(NEW), NEW))])
    add("proto/chunked-bad", "protocol", [("send", head(200, headers=["Transfer-Encoding: chunked"])), ("send", b"zz\r\n" + NEW + b"\r\n0\r\n\r\n")])
    add("proto/chunked-endless", "hang", [("send", head(200, headers=["Transfer-Encoding: chunked"])), ("forever", b"1\r\n \r\n", 0.3)])
    add("proto/huge-header", "protocol", [("send", b"HTTP/1.1 200 OK\r\nX-Big: " + b"a" * 200000 + b"\r\n\r\n" + NEW)])
    add("proto/http10", "version", [("send", b"HTTP/1.0 200 OK\r\nContent-Type: application/json\r\n\r\n" + NEW)])
    add("proto/100-continue-only", "hang", [("send", b"HTTP/1.1 100 Continue\r\n\r\n"), ("hold",)])
    # ---- connection level
    add("conn/refused", "connection", port="refused")
    add("conn/mute", "hang", port="mute")
    add("conn/hang-after-request", "hang", [("hold",)])
    add("conn/hang-after-head", "hang", [("send", head(200, clen=len(NEW))), ("hold",)])
    add("conn/hang-after-status-line", "hang", [("send", b"HTTP/1.1 200 OK\r\n"), ("hold",)])
    add("conn/slow-headers-forever", "hang", [("send", b"HTTP/1.1 200 OK\r\n"), ("forever", b"X-Pad: 1\r\n", 0.3)])
    add("conn/trickle-body", "hang", answer(J(real), drip=(16, 0.1)))
    add("conn/trickle-body-1byte", "hang", answer(NEW, drip=(1, 0.25)))
    add("conn/trickle-then-bad", "hang", answer(b'{"tag_name": 99, "x": "' + b"y" * 60, drip=(4, 0.2)))
    add("conn/blackhole", "hang", local="block")
    add("conn/dns-fail", "connection", local="dnsfail")
    add("conn/dns-hang", "hang", local="dnshang")
    for exc in ("ConnectionError", "ConnectTimeout", "ReadTimeout", "Timeout", "SSLError", "ProxyError", "TooManyRedirects", "ChunkedEncodingError",
                "ContentDecodingError", "InvalidURL", "InvalidHeader", "RetryError", "RequestException", "HTTPError"):  # fmt: skip
        add(f"exc/{exc}", "connection", local="raise:" + exc)
    # ---- delayed answers (interleaving with the command and with the final join)
    delays = [0.2, 0.5, 0.8, 1.0, 1.2, 1.5, 2.0, 3.0, 6.0]
    if tier == "thorough":
        delays = sorted(set(delays + [round(0.1 * k, 1) for k in range(1, 31)] + [4.0, 10.0]))
    for d in delays:
        add(f"delay/newer/{d}", "delay", answer(NEW, pre=d))
    for d in (0.5, 1.2, 3.0) if tier != "thorough" else (0.3, 0.5, 0.9, 1.2, 1.6, 3.0, 6.0):
        add(f"delay/int/{d}", "delay", answer(J({"tag_name": 99}), pre=d))
        add(f"delay/malformed/{d}", "delay", answer(J({"tag_name": "not a version"}), pre=d))
        add(f"delay/notjson/{d}", "delay", answer(b"<html>", pre=d))
        add(f"delay/500/{d}", "delay", answer(b"oops", status=500, pre=d))
        add(f"delay/mid-newer/{d}", "delay", answer(NEW, mid=d))
        add(f"delay/pre/{d}", "delay", answer(J({"tag_name": "99.0.0rc1"}), pre=d))
        add(f"delay/reset/{d}", "delay", [("wait", d), ("rst",)])
    return out


KEY_BEHAVIOURS = ["ver/newer-v", "conn/hang-after-request", "type/int", "delay/newer/0.8", "conn/refused", "conn/trickle-body-1byte", "mal/words",
                  "body/trunc-value", "http/403", "delay/newer/1.2", "conn/blackhole", "top/list", "key/missing", "ver/pre-rc", "ver/older",
                  "proto/chunked-endless", "delay/int/1.2", "exc/SSLError", "http/500", "delay/newer/3.0", "type/null", "conn/mute",
                  "body/html", "delay/newer/0.5"]  # fmt: skip


# ------------------------------------------------------------------------------------------------ worlds and commands
def build_templates(tdir, tier):
    """each template is a directory <tdir>/<name>/ that holds the root `t` and side files; built in-process with the
    command objects (no updater involved)"""
    t = {}

    def mk(name, tree):
        d = os.path.join(tdir, name)
        W.build(os.path.join(d, "t"), tree)
        t[name] = d
        return os.path.join(d, "t")

    mk("fresh", S.TREES["flat"])
    mk("nohist", S.TREES["deep"])
    # names: spaces, NFC + NFD, XML-special, U+2028; nested history; two generations with different format sets
    r = mk("names", dict(S.TREES["names"], **{"lnk": ("link", "q\"uote.txt"), "empty.bin": b"", "E/": ""}))
    W.run("create", [os.path.join(r, "sp ace"), "-h", "md5"])
    W.run("create", [r, "-h", "md5", "-h", "c4"])
    W.run("create", [r, "-h", "xxh64"])
    # deep: nested in nested, -n, -sf, then a failed generation (exit 11); the altered file stays altered
    r = mk("deep", S.TREES["deep"])
    W.run("create", [os.path.join(r, "A", "deep"), "-h", "c4"])
    W.run("create", [os.path.join(r, "A"), "-h", "md5"])
    W.run("create", [r, "-h", "md5"])
    W.run("create", [r, "-n", "-h", "c4"])
    W.run("create", [r, "-sf", os.path.join(r, "c.txt"), "-h", "sha1"])
    st = os.stat(os.path.join(r, "B", "b.txt"))
    with open(os.path.join(r, "B", "b.txt"), "w") as f:
        f.write("X")  # same size
    os.utime(os.path.join(r, "B", "b.txt"), ns=(st.st_atime_ns, st.st_mtime_ns))
    code, _, _ = W.run("create", [r, "-h", "md5"])
    with open(os.path.join(t["deep"], "ign.txt"), "w") as f:
        f.write("*.bin\nB/\n!keep.bin\nA/deep/notes.txt\n")
    # prefix siblings next to a nested history
    r = mk("prefix", S.TREES["prefix"])
    W.run("create", [os.path.join(r, "Clips"), "-h", "md5"])
    W.run("create", [r, "-h", "md5", "-i", "*.tmp"])
    # three levels of nesting
    r = mk("levels", S.TREES["levels"])
    for nr in ("L1/L2/L3", "L1/L2", "L1"):
        W.run("create", [os.path.join(r, nr), "-h", "md5"])
    W.run("create", [r, "-h", "md5"])
    # >= 11 generations with changing format sets
    r = mk("long", S.TREES["flat"])
    fm = W.FORMATS
    for k in range(12):
        W.run("create", [r] + S.hargs([fm[k % len(fm)], fm[(k * 5 + 1) % len(fm)]]))
    # modified / missing / added files
    r = mk("modified", S.TREES["flat"])
    W.run("create", [r, "-h", "md5"])
    st = os.stat(os.path.join(r, "a.txt"))
    with open(os.path.join(r, "a.txt"), "w") as f:
        f.write("b")
    os.utime(os.path.join(r, "a.txt"), ns=(st.st_atime_ns, st.st_mtime_ns))
    r = mk("missing", dict(S.TREES["deep"]))
    W.run("create", [r, "-h", "md5"])
    os.remove(os.path.join(r, "A", "a.txt"))
    W.build(r, {"new/n.txt": "n"})
    r = mk("empty", {})
    W.run("create", [r, "-h", "md5"])
    # big: sizes around 1 MiB plus bulk so that the command itself takes a noticeable time
    big = {"below.bin": b"\x01" * (MiB - 1), "at.bin": b"\x02" * MiB, "above.bin": b"\x03" * (MiB + 1)}
    n, sz = (10, 8 * MiB) if tier != "thorough" else (14, 12 * MiB)
    rnd = random.Random(20)
    blk = rnd.randbytes(MiB)
    for k in range(n):
        big[f"bulk/clip{k:02d}.mov"] = bytes([k]) + blk * (sz // MiB)
    r = mk("big", big)
    W.run("create", [r, "-h", "md5"])
    # an xml file that is no manifest
    with open(os.path.join(t["fresh"], "other.xml"), "w") as f:
        f.write("<?xml version='1.0'?><hashlist xmlns='urn:ASC:MHL:v2.0'><bogus/></hashlist>")
    return t


def link_or_copy(src, dst, **kw):
    if os.path.getsize(src) >= 256 * 1024 and not os.path.islink(src):
        os.link(src, dst)
        return dst
    return shutil.copy2(src, dst, follow_symlinks=False)


def commands(tier):
    """(id, group, template, f(w) -> (args, cwd), reference mode, extra env)"""
    x_manifest = os.path.join(REPO, "xsd", "ASCMHL.xsd")
    x_chain = os.path.join(REPO, "xsd", "ASCMHLDirectory__combined.xsd")
    R = lambda w: os.path.join(w, "t")  # noqa: E731
    DST = "EST5EDT,M3.2.0,M11.1.0"
    c = []

    def add(cid, group, tpl, f, ref="base", env=None):
        c.append({"id": cid, "group": group, "tpl": tpl, "f": f, "ref": ref, "env": env or {}})

    # ---- ascmhl
    add("create-fresh", "ascmhl", "fresh", lambda w: (["create", "-v", R(w)], None))
    add("create-quiet", "ascmhl", "fresh", lambda w: (["create", R(w)], None))
    add("create-names-dup-h", "ascmhl", "names", lambda w: (["create", "-v", "-h", "md5", "-h", "md5", "-h", "c4", R(w)], None), env={"TZ": DST})
    add("create-levels-slash-n", "ascmhl", "levels", lambda w: (["create", "-v", "-n", R(w) + os.sep], None))
    add("create-rel-sf-twice", "ascmhl", "deep", lambda w: (["create", "-v", "t", "-sf", "t/A/a.txt", "-sf", "t/A/a.txt", "-h", "md5"], w))
    add("create-dot-ignore", "ascmhl", "levels", lambda w: (["create", "-v", ".", "-i", "*.txt", "-i", "L1/L2/", "-h", "md5"], R(w)))
    add("create-ii-relative", "ascmhl", "deep", lambda w: (["create", "-v", "t", "-ii", "ign.txt", "-sf", "t/A/deep/x.bin", "-h", "c4"], w))
    add("create-fail-11", "ascmhl", "deep", lambda w: (["create", "-v", R(w), "-h", "md5"], None))
    add("create-big-all-formats", "ascmhl", "big", lambda w: (["create", "-v", R(w)] + S.hargs(W.FORMATS), None))
    add("create-long-13th", "ascmhl", "long", lambda w: (["create", "-v", R(w), "-h", "xxh3", "--author_name", "A & <B>", "--comment", "c d"], None))
    add("create-empty", "ascmhl", "empty", lambda w: (["create", "-v", R(w)], None))
    add("create-nopath-2", "ascmhl", "fresh", lambda w: (["create", os.path.join(w, "nonexistent")], None))
    add("create-badoption-2", "ascmhl", "fresh", lambda w: (["create", "--bogus", R(w)], None))
    add("create-help", "ascmhl", "fresh", lambda w: (["create", "--help"], None))
    add("diff-clean", "ascmhl", "names", lambda w: (["diff", "-v", R(w)], None))
    add("diff-changed", "ascmhl", "missing", lambda w: (["diff", "-v", R(w)], None))
    add("diff-prefix-rel", "ascmhl", "prefix", lambda w: (["diff", "t/"], w))
    add("info-long-v", "ascmhl", "long", lambda w: (["info", "-v", R(w)], None), env={"TZ": "Australia/Lord_Howe"})
    add("info-levels", "ascmhl", "levels", lambda w: (["info", "."], R(w)))
    add("info-sf", "ascmhl", "long", lambda w: (["info", "-v", "-sf", os.path.join(R(w), "a.txt"), R(w)], None))
    add("info-nohist-30", "ascmhl", "nohist", lambda w: (["info", R(w)], None))
    add("flatten", "ascmhl", "prefix", lambda w: (["flatten", "-v", R(w), os.path.join(w, "out")], None))
    add("flatten-rel", "ascmhl", "long", lambda w: (["flatten", "t", "out dir"], w))
    add("group-help", "ascmhl", "fresh", lambda w: (["--help"], None), ref="stub")
    add("group-version", "ascmhl", "fresh", lambda w: (["--version"], None), ref="stub")
    add("group-noargs", "ascmhl", "fresh", lambda w: ([], None), ref="stub")
    add("group-unknown", "ascmhl", "fresh", lambda w: (["verify", R(w)], None), ref="stub")
    # ---- ascmhl-debug
    add("verify-ok", "debug", "names", lambda w: (["verify", "-v", R(w)], None), env={"TZ": DST})
    add("verify-quiet", "debug", "levels", lambda w: (["verify", R(w)], None))
    add("verify-modified-11", "debug", "modified", lambda w: (["verify", "-v", R(w)], None))
    add("verify-missing-new", "debug", "missing", lambda w: (["verify", "-v", "t"], w))
    add("verify-dh", "debug", "levels", lambda w: (["verify", "-v", "-dh", R(w)], None))
    add("verify-dh-co-ro", "debug", "prefix", lambda w: (["verify", "-dh", "-co", "-ro", "-h", "md5", R(w) + "/"], None))
    add("verify-sf", "debug", "deep", lambda w: (["verify", "-v", "-sf", os.path.join(R(w), "A", "a.txt"), R(w)], None))
    add("verify-nohist-30", "debug", "nohist", lambda w: (["verify", "."], R(w)))
    add("verify-big", "debug", "big", lambda w: (["verify", "-v", R(w)], None))
    add("verify-failed-history", "debug", "deep", lambda w: (["verify", "-v", R(w)], None))
    add("hash-c4", "debug", "fresh", lambda w: (["hash", "-h", "c4", os.path.join(R(w), "a.txt")], None))
    add("hash-u2028-rel", "debug", "names", lambda w: (["hash", "-h", "md5", "line\u2028sep.txt"], R(w)))
    add("hash-big", "debug", "big", lambda w: (["hash", "-h", "sha1", os.path.join(R(w), "above.bin")], None))
    add("hash-noformat-2", "debug", "fresh", lambda w: (["hash", os.path.join(R(w), "a.txt")], None))
    add("xsd-manifest", "debug", "names", lambda w: (["xsd-schema-check", "-xsd", x_manifest, W.manifests(R(w))[-1]], None))
    add("xsd-chain", "debug", "long", lambda w: (["xsd-schema-check", "-df", "-xsd", x_chain, W.chain_path(R(w))], None))
    add("xsd-invalid-11", "debug", "fresh", lambda w: (["xsd-schema-check", "-xsd", x_manifest, os.path.join(w, "other.xml")], None))
    add("xsd-no-xsd-file", "debug", "names", lambda w: (["xsd-schema-check", W.manifests(R(w))[-1]], w))
    add("dgroup-help", "debug", "fresh", lambda w: (["--help"], None), ref="stub")
    add("dgroup-version", "debug", "fresh", lambda w: (["--version"], None), ref="stub")
    add("dgroup-noargs", "debug", "fresh", lambda w: ([], None), ref="stub")
    add("dgroup-unknown", "debug", "fresh", lambda w: (["create", R(w)], None), ref="stub")
    add("dgroup-verify-help", "debug", "fresh", lambda w: (["verify", "--help"], None))
    return c


# ------------------------------------------------------------------------------------------------ running
TS = re.compile(r"\d{4}-\d{2}-\d{2}[T_]\d{2}:?\d{2}:?\d{2}(?:\.\d+)?(?:Z|[+-]\d{2}:?\d{2})?")
DATE = re.compile(r"\d{4}-\d{2}-\d{2}")
NOTICE = re.compile(r"updat|upgrad|new(er)? version|latest", re.I)
NOT_NOTICE = re.compile(r"error|fail|could not|couldn't|unable|cannot|can't|exception|traceback|timed? ?out|warning", re.I)


class Harness:
    def __init__(self, run):
        self.run = run
        self.boot = os.path.join(run.tmp, "boot")
        os.makedirs(self.boot)
        with open(os.path.join(self.boot, "sitecustomize.py"), "w") as f:
            f.write(SITECUSTOMIZE)
        with open(os.path.join(self.boot, "c20_base.py"), "w") as f:
            f.write(BASELINE)
        self.net = Net()
        self.templates = build_templates(os.path.join(run.tmp, "tpl"), run.tier)
        self.counter = 0
        self.lock = threading.Lock()
        self.env = {k: v for k, v in os.environ.items() if not k.lower().endswith("_proxy") and not k.startswith("C20_")}
        self.env.update({"PYTHONPATH": self.boot + os.pathsep + REPO, "PYTHONUTF8": "1", "NO_PROXY": "*", "PYTHONDONTWRITEBYTECODE": "1"})
        self.env.pop("PYTHONSTARTUP", None)

    def world(self, tpl):
        with self.lock:
            self.counter += 1
            n = self.counter
        w = os.path.join(self.run.tmp, "w", f"{n:07d}")
        shutil.copytree(self.templates[tpl], w, symlinks=True, copy_function=link_or_copy)
        return w, n

    def execute(self, cmd, style, beh, kill_after):
        """one subprocess on a fresh copy of the world. beh: None = reference run"""
        w, n = self.world(cmd["tpl"])
        args, cwd = cmd["f"](w)
        env = dict(self.env)
        env.update(cmd["env"])
        rid = f"r{n}"
        side = os.path.join(self.run.tmp, "w", f"{n:07d}")
        mark, times, fout, ferr = side + ".mark", side + ".times", side + ".out", side + ".err"
        argv, prog = entry_argv(cmd["group"], style)
        env["C20_TIMES"] = times
        if beh is None and cmd["ref"] == "base":
            argv = [PY, os.path.join(self.boot, "c20_base.py"), prog]
            env["C20_MODE"] = "base"
        elif beh is None:
            env["C20_MODE"] = "stub"
        else:
            env.update({"C20_MODE": "net", "C20_RID": rid, "C20_PORT": str(self.net.port(beh["port"])), "C20_LOCAL": beh["local"], "C20_MARK": mark})
            self.net.scripts[rid] = beh
        killed = False
        with open(fout, "wb") as fo, open(ferr, "wb") as fe:
            t0 = time.monotonic()
            p = subprocess.Popen(argv + args, cwd=cwd or self.run.tmp, env=env, stdin=subprocess.DEVNULL, stdout=fo, stderr=fe)
            while True:
                pid, status, ru = os.wait4(p.pid, os.WNOHANG)
                if pid:
                    break
                if time.monotonic() - t0 > kill_after:
                    killed = True
                    p.kill()
                    pid, status, ru = os.wait4(p.pid, 0)
                    break
                time.sleep(0.004)
            dt = time.monotonic() - t0
        p.returncode = os.waitstatus_to_exitcode(status)
        self.net.scripts.pop(rid, None)
        with open(fout, "rb") as f:
            out = f.read().decode("utf-8", "replace")
        with open(ferr, "rb") as f:
            err = f.read().decode("utf-8", "replace")
        ev = None
        try:
            with open(times) as f:
                ev = json.load(f)
        except (OSError, ValueError):
            pass
        res = {
            "code": p.returncode,
            "out": DATE.sub("<DATE>", TS.sub("<TIME>", out.replace(w, "<W>"))),
            "err": err.replace(w, "<W>")[-600:],
            "t": dt,
            "cpu": ru.ru_utime + ru.ru_stime,
            "post": (ev["exit"] - ev["done"]) if ev and ev.get("done") and ev.get("exit") else None,
            "killed": killed,
            "contacted": os.path.exists(mark) or self.net.hits.get(rid, 0) > 0,
            "argv": " ".join(argv[1:3] if style == "module" else [prog]) + " " + " ".join(a.replace(w, "<W>") for a in args),
        }
        shutil.rmtree(w, ignore_errors=True)
        for f in (mark, times, fout, ferr):
            try:
                os.remove(f)
            except OSError:
                pass
        return res


def is_notice(line):
    return bool(line.strip()) and bool(NOTICE.search(line)) and not NOT_NOTICE.search(line)


def judge(ref, got, info=True):
    """-> (list of (witness_class, what)), timing suspicion or None"""
    issues = []
    if got["killed"]:
        return issues, slow(ref, got)
    if got["code"] != ref["code"]:
        issues.append(("exit-code", f"exit code {got['code']} but the command itself exits {ref['code']}; stderr tail: {got['err'][-300:]!r}"))
    if got["out"] != ref["out"]:
        if got["out"].startswith(ref["out"]):
            rest = got["out"][len(ref["out"]) :]
            if not (rest.endswith("\n") and rest.count("\n") == 1 and is_notice(rest[:-1])):
                issues.append(("stdout-extra", f"stdout has extra text after the command's own output that is not one update notice line: {rest[:300]!r}"))
            elif not info:
                issues.append(("stdout-extra", f"stdout has an extra line after the command's own output although the update server never delivered "
                               f"any version information, so it cannot be an update notice: {rest[:300]!r}"))  # fmt: skip
        else:
            k = 0
            while k < min(len(got["out"]), len(ref["out"])) and got["out"][k] == ref["out"][k]:
                k += 1
            issues.append(("stdout-changed", f"stdout differs from the command's own output at offset {k}: got {got['out'][max(0, k - 40) : k + 160]!r}, "
                           f"expected {ref['out'][max(0, k - 40) : k + 160]!r}"))  # fmt: skip
    return issues, slow(ref, got)


def slowdown(ref):
    """how much slower than its own CPU time the reference run was (1 on an idle machine; the commands do not sleep)"""
    return max(1.0, ref["t"] / max(ref["cpu"], 0.05))


def total_limit(ref):
    """one second for the check itself plus the tolerance, the tolerance stretched when the machine is busy"""
    return 1.0 + (LIMIT - 1.0) * slowdown(ref)


def kill_after(ref):
    return ref["t"] * 1.5 + 1.0 + total_limit(ref) + 2.0


def slow(ref, got):
    """timing part of the oracle -> None or a description"""
    if got["killed"]:
        return f"still running {got['t']:.1f} s after start (the command itself takes {ref['t']:.2f} s); killed by the driver"
    if got["post"] is not None and ref["post"] is not None and got["post"] - ref["post"] > LIMIT:
        return (f"the process terminated {got['post']:.2f} s after the command's own code had finished "
                f"({ref['post']:.2f} s without the update check; extra {got['post'] - ref['post']:.2f} s > {LIMIT} s)")  # fmt: skip
    if got["t"] - ref["t"] > total_limit(ref):
        return (f"terminated after {got['t']:.2f} s, the command itself takes {ref['t']:.2f} s "
                f"(extra {got['t'] - ref['t']:.2f} s > {total_limit(ref):.2f} s)")  # fmt: skip
    return None


def plan(run, cmds, behs):
    """the (command, entry style, behaviour) triples of this tier"""
    rnd = random.Random(run.seed)
    byid = {b["id"]: b for b in behs}
    key = [byid[k] for k in KEY_BEHAVIOURS if k in byid]
    jobs, seen = [], set()

    def put(c, style, b):
        k = (c["id"], style, b["id"])
        if k not in seen:
            seen.add(k)
            jobs.append((c, style, b))

    thorough = run.tier == "thorough"
    per_cmd, per_beh = (len(key), 6) if thorough else (4, 1)
    off = rnd.randrange(1000)
    # quick: one entry style per command (two thirds `python -m`, one third console-script call); thorough: both
    style_of = {c["id"]: ("script" if (i + off) % 3 == 0 else "module") for i, c in enumerate(cmds)}
    other = {"module": "script", "script": "module"}
    plain = [c for c in cmds if c["ref"] == "base"]
    # every command with the key behaviours (rotating window so that different seeds pair differently)
    for i, c in enumerate(cmds):
        first = key[:2]  # newer version at once + server that never answers: every command
        rest = key[2:]
        sel = first + [rest[(i * 3 + off + j) % len(rest)] for j in range(max(0, per_cmd - 2))]
        for j, b in enumerate(sel):
            put(c, style_of[c["id"]], b)
            if thorough and j < 6:
                put(c, other[style_of[c["id"]]], b)
    # every behaviour with some commands of both groups
    order = list(plain)
    rnd.shuffle(order)
    for i, b in enumerate(behs):
        for j in range(per_beh):
            c = order[(i * per_beh + j) % len(order)]
            put(c, other[style_of[c["id"]]] if thorough and j % 3 == 2 else style_of[c["id"]], b)
    # the slow commands against the whole delay grid: the answer arrives before / while / after the command runs and
    # before / while / after the final join
    slow_cmds = [c for c in cmds if c["id"] in ("create-big-all-formats", "verify-big")]
    grid = [b for b in behs if b["id"].startswith("delay/newer/")]
    for i, b in enumerate(grid):
        for j, c in enumerate(slow_cmds):
            if thorough or (i + j + off) % 2 == 0:
                put(c, style_of[c["id"]], b)
    return jobs


def main():
    run = Run(
        "C20",
        rule="case = (command line on a world, entry style [python -m / console-script call], network behaviour of the update server); "
        "non-trivial = distinct triple in which the update check really contacted the simulated network; each case is compared with "
        "the same command line run without any updater on an identical copy of the world: exit code equal, stdout equal up to one "
        "trailing update-notice line, termination after the command's own code has finished at most 2.5 s later, total wall time at most "
        "1 s + 1.5 s * machine slowdown longer (timing re-measured twice sequentially before it is reported)",
        bound="50 command lines (create/diff/info/flatten/verify/hash/xsd-schema-check + group --help/--version/no command/unknown command; "
        "exit codes 0,1,2,10,11,21,30; 11 worlds incl. nested x3, 13 generations, failed generation, NFC/NFD/U+2028 names, ~85-170 MiB tree "
        "for a slow command, relative/'.'/trailing-slash roots, TZ with DST) x 168 (quick) / 220 (thorough) network behaviours (19 valid versions, 15 malformed, "
        "13 non-string, missing key, non-object JSON, 21 non-JSON/truncated bodies, 18 HTTP statuses/redirects, 14 protocol faults, refused / "
        "mute / hanging / trickling / endless connections, DNS failure or hang, 14 requests exceptions, answers delayed 0.2-6 s (quick) or "
        "0.1-10 s in 0.1 s steps (thorough)); quick = every command x 4 behaviours + every behaviour x 1 command, thorough = x24 / x6",
    )
    cmds = commands(run.tier)
    behs = behaviours(run.tier)
    jobs = [(c, s, b) for c, s, b in plan(run, cmds, behs) if run.want(f"{c['id']}|{s}|{b['id']}")]
    if not jobs:
        run.finish()
    h = Harness(run)
    workers = 14
    try:
        with concurrent.futures.ThreadPoolExecutor(workers) as pool:
            # reference runs, twice each (the second one shows whether the command's own output is reproducible at all)
            need = sorted({(c["id"], s) for c, s, _ in jobs})
            cmd_by_id = {c["id"]: c for c in cmds}
            futs = {k: [pool.submit(h.execute, cmd_by_id[k[0]], k[1], None, 60) for _ in range(2)] for k in need}
            refs = {k: [f.result() for f in v] for k, v in futs.items()}
            unstable = {}
            for k, (a, b) in refs.items():
                if a["killed"] or b["killed"] or a["code"] != b["code"] or a["out"] != b["out"]:
                    unstable[k] = f"reference runs disagree: exit {a['code']}/{b['code']}, stdout equal: {a['out'] == b['out']}"
            ref = {k: min(v, key=lambda x: x["t"]) for k, v in refs.items()}
            futs = []
            for c, s, b in jobs:
                r = ref[(c["id"], s)]
                futs.append(pool.submit(h.execute, c, s, b, kill_after(r)))
            results = [f.result() for f in futs]
        budget = time.monotonic() + (30 if run.tier != "thorough" else 180)
        remeasured = confirmed = 0
        for (c, s, b), got in zip(jobs, results):
            cid = f"{c['id']}|{s}|{b['id']}"
            k = (c["id"], s)
            if k in unstable:
                run.case(cid, None, sample={"case": cid, "skipped": unstable[k]})
                continue
            r = ref[k]
            issues, suspect = judge(r, got, b["info"])
            if suspect and time.monotonic() < budget:
                # measure again (twice) with nothing else of this driver running: reference, then the case; a real stall
                # is deterministic, so it is reported only when every measurement shows it
                remeasured += 1
                again = []
                for _ in range(2):
                    r2 = h.execute(c, s, None, 60)
                    g2 = h.execute(c, s, b, kill_after(r2))
                    i2, s2 = judge(r2, g2, b["info"])
                    for it in i2:
                        if it not in issues:
                            issues.append(it)
                    again.append(s2)
                    if not s2:
                        break
                if all(again):
                    confirmed += 1
                    issues.append(("stall", f"{again[-1]} [measured three times; first measurement, with other cases running in parallel: {suspect}]"))
            elif suspect and remeasured >= 3 and confirmed == remeasured:
                # the time budget for sequential re-measurement is used up and every re-measured case stalled again
                issues.append(("stall", f"{suspect} [not re-measured: all {remeasured} re-measured cases before this one were confirmed]"))
            run.case(
                cid,
                (c["id"], s, b["id"]) if got["contacted"] else None,
                sample={"case": cid, "exit": got["code"], "ref_exit": r["code"], "t": round(got["t"], 2), "ref_t": round(r["t"], 2),
                        "notice": got["out"] != r["out"]},  # fmt: skip
            )
            for wclass, what in issues:
                run.violation(cid, f"`{got['argv']}` with update server behaviour {b['id']}: {what}", f"{wclass}/{b['cls']}",
                              inp={"command": got["argv"], "behaviour": b["id"], "entry": s})  # fmt: skip
    finally:
        h.net.close()
    run.finish()


if __name__ == "__main__":
    main()
