"""C05 bounded part: every history-reading command on small worlds in which exactly one chained manifest was edited or
removed, or one chain file was removed.

Oracle (from the statement only): the driver records the bytes of every manifest right after the generation that wrote
it ("what was hashed when it was written").  A fault makes the bytes of one chained manifest differ from that record
(expected exit 31), makes the file absent (33), or makes the chain file of an existing ascmhl folder absent (32).  Every
command that reads a history containing the fault has to leave with exactly that code, and a byte/mtime/mode snapshot
of the whole scratch area (tree, flatten destination, option files) taken before the command has to equal the one taken
after it.  Nothing is derived from the implementation: the list of chained manifests is read with xml.etree, the
snapshot with os.walk."""
import os
import random
import shutil
import subprocess
import sys
import time

from . import scen as S
from . import world as W
from .common import REPO, Run

M = 1 << 20
NFD = S.NFD

# POSIX TZ strings (no tz database needed); Berlin switches back on 2025-10-26 01:00 UTC
TZ_BERLIN = "CET-1CEST,M3.5.0,M10.5.0/3"
TZ_NY = "EST5EDT,M3.2.0,M11.1.0"
TZ_KATHMANDU = "<+0545>-5:45"
DST_BEFORE, DST_FIRST, DST_SECOND, DST_AFTER = 1761435000, 1761438600, 1761442200, 1761445800


class WorldError(Exception):
    pass


# ------------------------------------------------------------------------------------------------ worlds
def world_specs(tier):
    """(wid, tree, steps).  steps:
    ("seal", history rel, formats, extra args, accepted exit codes)    create on that (nested) root
    ("sf", history rel, formats, [paths rel to the outer root], extra args)   create -sf
    ("write", rel, content)   ("mkdir", rel)   ("remove", rel)   ("mtime", rel, epoch)   ("tz", TZ string or None)
    ("ignfile", name, text)  writes an ignore-spec file next to the tree, referred to as "@name" in extra args
    ("crash", history rel, formats, k)   create in a subprocess that is killed before its k-th writing fs operation
    """
    ok, failed = (0,), (11,)
    sp = []
    sp.append(("flat1", "flat", [("seal", "", ["md5"], [], ok)]))
    sp.append(("empty2", "emptyfolder", [("seal", "", ["c4"], [], ok), ("seal", "", ["xxh64"], ["-n"], ok)]))
    sp.append(
        (
            "deep",
            "deep",
            [
                ("seal", "A/deep", ["md5"], [], ok),
                ("seal", "A", ["md5"], [], ok),
                ("seal", "", ["md5", "c4"], [], ok),
                ("write", "A/a.txt", "changed"),
                ("seal", "", ["c4"], [], failed),  # failed generation (also in A)
                ("sf", "", ["xxh64"], ["c.txt", "A/deep/x.bin"], []),
                ("seal", "A", ["sha1"], ["-n"], failed),
            ],
        )
    )
    sp.append(
        (
            "levels",
            "levels",
            [
                ("seal", "L1/L2/L3", ["xxh64"], [], ok),
                ("seal", "L1/L2", ["md5"], [], ok),
                ("seal", "L1", ["c4"], [], ok),
                ("seal", "", ["md5"], [], ok),
                ("seal", "", ["sha1"], ["-n"], ok),
                ("seal", "L1/L2", ["xxh3"], [], ok),  # generation the parents do not reference
            ],
        )
    )
    sp.append(
        (
            "names",
            "names",
            [
                ("seal", NFD, ["md5"], [], ok),
                ("seal", "sp ace", ["xxh128"], [], ok),
                ("seal", "", ["md5"], ["-i", "*.tmp", "-i", "sp ace/sub/", "-i", "/q*"], ok),
                ("ignfile", "ign.txt", "build/\n!keep.txt\nsp ace/*.bak\n\n/top only\n"),
                ("seal", "", ["c4"], ["-ii", "@ign.txt", "-i", "!q*"], ok),
            ],
        )
    )
    sp.append(
        (
            "prefix",
            "prefix",
            [
                ("seal", "Clips/sub", ["md5"], [], ok),
                ("seal", "Clips", ["md5"], [], ok),
                ("seal", "", ["md5"], [], ok),
                ("sf", "", ["md5"], ["Clips_proxy/y.mov", "Clips.txt", "Clips.txt"], []),
                ("seal", "", ["md5", "md5"], [], ok),
            ],
        )
    )
    many = []
    fs = [["md5"], ["xxh64"], ["c4"], ["md5", "c4"], ["sha1"], ["xxh3", "xxh128"]]
    for g in range(12 if tier == "quick" else 23):
        if g == 4:
            many.append(("write", "a.txt", "tampered media"))
            many.append(("seal", "", fs[g % len(fs)], [], failed))
        elif g % 5 == 3:
            many.append(("sf", "", fs[g % len(fs)], ["b.txt"], []))
        else:
            many.append(("seal", "", fs[g % len(fs)], ["-n"] if g % 4 == 2 else [], (0, 11)))
    sp.append(("many", "flat", many))
    sp.append(("onlydirs", "onlydirs", [("seal", "E", ["md5"], [], ok), ("seal", "", ["md5"], [], ok), ("seal", "", ["c4"], [], ok)]))
    sp.append(
        (
            "tz",
            "deep",
            [
                ("tz", TZ_BERLIN),
                ("mtime", "A/a.txt", DST_BEFORE),
                ("mtime", "A/deep/x.bin", DST_FIRST),
                ("mtime", "B/b.txt", DST_SECOND),
                ("mtime", "c.txt", DST_AFTER),
                ("seal", "B", ["md5"], [], ok),
                ("seal", "", ["md5"], [], ok),
                ("tz", TZ_NY),
                ("seal", "", ["xxh64"], [], ok),
                ("tz", TZ_KATHMANDU),
                ("seal", "B", ["c4"], [], ok),
                ("tz", "UTC0"),
            ],
        )
    )
    # outer root never sealed, nested history exists; nested history made after the outer one (never referenced)
    sp.append(("unsealed", "deep", [("seal", "A/deep", ["md5"], [], ok), ("seal", "A", ["md5"], [], ok)]))
    sp.append(("late", "deep", [("seal", "", ["md5"], [], ok), ("seal", "B", ["xxh64"], [], ok), ("seal", "z", ["md5"], [], ok)]))
    sp.append(
        (
            "links",
            {"a.txt": "a", "d/x.bin": "x", "lnk.txt": ("link", "a.txt"), "d/up": ("link", "../a.txt"), "e/": ""},
            [("seal", "d", ["md5"], [], ok), ("seal", "", ["md5"], [], ok), ("seal", "", ["c4"], ["-n"], ok)],
        )
    )
    # nested histories at and below hidden (dot) folders, and in folders with unusual names: they are histories like any other
    sp.append(
        (
            "hidden",
            {"top.txt": "t", ".offload/A001/clip.bin": "c", ".offload/A001/sub/s.txt": "s", ".hid/f.txt": "f", "vis/.inner/g.txt": "g", "vis/v.txt": "v"},
            [("seal", ".offload/A001", ["md5"], [], ok), ("seal", ".hid", ["xxh64"], [], ok), ("seal", "vis/.inner", ["md5"], [], ok),
             ("seal", "", ["md5"], [], ok), ("seal", ".offload/A001", ["md5"], [], ok)],
        )
    )
    # a manifest that is larger than one read block (a long comment), to reach byte positions beyond 1 MiB
    sp.append(("bigmanifest", "single", [("seal", "", ["md5"], ["--comment", "c" * (M + 300)], ok), ("seal", "", ["md5"], [], ok)]))
    # interrupted create (killed before its k-th writing operation), then the faults; in thorough every k
    # (writing operations of that create: A manifest tmp, move, A chain tmp, move, then the same four for the outer root)
    ks = [(2, False), (4, True), (7, False)] if tier == "quick" else [(k, again) for k in range(1, 10) for again in (False, True)]
    for k, again in ks:
        sp.append(
            (
                f"crash{k}{'again' if again else ''}",
                "deep",
                [("seal", "A", ["md5"], [], ok), ("seal", "", ["md5"], [], ok), ("crash", "", ["md5"], k)]
                + ([("seal", "", ["md5"], [], (0, 10, 11))] if again else []),
            )
        )
    if tier == "thorough":
        sp.append(("case", "case", [("seal", "Reel_A", ["md5"], [], ok), ("seal", "", ["md5"], [], ok), ("seal", "", ["c4"], [], ok)]))
        sp.append(("lookalike", "lookalike", [("seal", "ascmhl_x", ["md5"], [], ok), ("seal", "", ["md5"], [], ok)]))
        sp.append(
            (
                "sizes",
                {"below.bin": b"b" * (M - 1), "at.bin": b"a" * M, "above.bin": b"c" * (M + 1), "empty.bin": b"", "n/at.bin": b"a" * M},
                [("seal", "n", ["md5"], [], ok), ("seal", "", ["md5", "xxh64"], [], ok), ("seal", "", ["c4"], [], ok)],
            )
        )
        sp.append(
            (
                "deep2",
                "deep",
                [("seal", "A", ["c4"], [], ok), ("seal", "B", ["md5"], [], ok), ("seal", "", ["xxh64", "md5"], [], ok)]
                + [("seal", h, [f], [], ok) for h, f in (("B", "sha1"), ("", "xxh3"), ("A", "md5"), ("", "c4"))],
            )
        )
    return sp


CRASH_SRC = r"""
import os, sys
root, k = sys.argv[1], int(sys.argv[2])
n = 0
def hook(ev, a):
    global n
    p = None
    if ev == "open" and isinstance(a[0], (str, bytes)) and isinstance(a[1], str) and any(c in a[1] for c in "wax+"):
        p = a[0]
    elif ev in ("os.rename", "os.mkdir", "os.remove"):
        p = a[0]
    if p is None:
        return
    if not os.path.abspath(os.fsdecode(p)).startswith(root):
        return
    n += 1
    if n == k:
        os._exit(77)
sys.addaudithook(hook)
from ascmhl import commands
commands.create.main(sys.argv[3:], standalone_mode=True)
"""


class World:
    def __init__(self, run, wid, tree, steps):
        self.wid = wid
        self.base = os.path.join(run.tmp, wid)
        self.root = os.path.join(self.base, "t")
        self.out = os.path.join(self.base, "out")
        self.ign = os.path.join(self.base, "ignore_spec.txt")
        self.written = {}  # manifest path -> bytes right after the generation that wrote it
        self.tz = None
        self._hist = None
        os.makedirs(self.out)
        with open(self.ign, "w") as f:
            f.write("*.tmp\nsub/dir/\n!keep.tmp\n")
        W.build(self.root, S.TREES[tree] if isinstance(tree, str) else tree)
        for st in steps:
            self.step(st)
            self.record()
        self._hist = [""] + W.nested_roots(self.root)
        self._files = {}
        self.pristine = self.base + ".pristine"
        shutil.copytree(self.base, self.pristine, symlinks=True)

    def hp(self, h):
        return os.path.join(self.root, h) if h else self.root

    def step(self, st):
        op = st[0]
        if op == "seal":
            _, h, fmts, extra, accept = st
            extra = [os.path.join(self.base, a[1:]) if a.startswith("@") else a for a in extra]
            code, out, exc = W.run("create", [self.hp(h)] + S.hargs(fmts) + extra)
            if code not in accept or exc is not None:
                raise WorldError(f"{self.wid}: create {h!r} {fmts} {extra[:2]} exits {code} {exc!r}, wanted {accept}: {out[-200:]}")
        elif op == "sf":
            _, h, fmts, files, extra = st
            args = [self.hp(h)] + S.hargs(fmts) + list(extra)
            for f in files:
                args += ["-sf", os.path.join(self.root, f)]
            code, out, exc = W.run("create", args)
            if code != 0 or exc is not None:
                raise WorldError(f"{self.wid}: create -sf {files} exits {code} {exc!r}: {out[-200:]}")
        elif op == "write":
            with open(os.path.join(self.root, st[1]), "wb") as f:
                f.write(st[2].encode() if isinstance(st[2], str) else st[2])
        elif op == "mkdir":
            os.makedirs(os.path.join(self.root, st[1]), exist_ok=True)
        elif op == "remove":
            os.remove(os.path.join(self.root, st[1]))
        elif op == "mtime":
            os.utime(os.path.join(self.root, st[1]), (st[2], st[2]))
        elif op == "tz":
            set_tz(st[1])
            self.tz = st[1]
        elif op == "ignfile":
            with open(os.path.join(self.base, st[1]), "w", encoding="utf-8") as f:
                f.write(st[2])
        elif op == "crash":
            _, h, fmts, k = st
            env = dict(os.environ, PYTHONPATH=REPO + os.pathsep + os.environ.get("PYTHONPATH", ""))
            # something to record, so that the interrupted run has work in every history
            with open(os.path.join(self.root, "A", "new.bin"), "wb") as f:
                f.write(b"new")
            with open(os.path.join(self.root, "new_top.bin"), "wb") as f:
                f.write(b"new")
            p = subprocess.run(
                [sys.executable, "-c", CRASH_SRC, self.root, str(k), self.hp(h)] + S.hargs(fmts), env=env, capture_output=True, cwd=self.base
            )
            self.crashed = p.returncode == 77
        else:
            raise WorldError(f"unknown step {op}")

    def histories(self):
        """every directory at or below the outer root that holds an ascmhl folder ('' = outer root, listed even when
        it has none)"""
        return self._hist if self._hist is not None else [""] + W.nested_roots(self.root)

    def record(self):
        for h in self.histories():
            for m in W.manifests(self.hp(h)):
                if m not in self.written:
                    with open(m, "rb") as f:
                        self.written[m] = f.read()

    def restore(self):
        shutil.rmtree(self.base)
        shutil.copytree(self.pristine, self.base, symlinks=True)

    def victims(self):
        """(history, label, path, kind) of every chained manifest and every chain file"""
        out = []
        for h in self.histories():
            cp = W.chain_path(self.hp(h))
            if not os.path.isfile(cp):
                continue
            for seq, name, _c4 in W.read_chain(cp):
                p = os.path.join(self.hp(h), "ascmhl", name)
                if not os.path.isfile(p) or p not in self.written:
                    continue
                with open(p, "rb") as f:
                    if f.read() != self.written[p]:
                        continue  # rewritten by a later generation: not what this driver is about
                out.append((h, f"g{seq}", p, "manifest"))
            out.append((h, "chain", cp, "chain"))
        return out

    def ancestors(self, h):
        """histories whose loading has to read history h (h itself and every enclosing root, the outer root last)"""
        out = [h]
        for o in sorted(self.histories(), key=len, reverse=True):
            if o != h and (o == "" or h.startswith(o + os.sep)) and o not in out:
                out.append(o)
        return out

    def file_for(self, h, target):
        """(regular file owned directly by history h, True) if there is one, else (any regular file below target, False)"""
        if (h, target) in self._files:
            return self._files[(h, target)]
        self._files[(h, target)] = r = self._file_for(h, target)
        return r

    def file_elsewhere(self, h, target):
        """a regular file below the target history that lies outside the directory of history h (None if there is none)"""
        if ("else", h, target) in self._files:
            return self._files[("else", h, target)]
        vis = W.visible_tree(self.root, W.DEFAULT_IGNORE)
        c = sorted(
            e
            for e, k in vis.items()
            if k == "f"
            and not os.path.islink(os.path.join(self.root, e))
            and (target == "" or e.startswith(target + os.sep))
            and not (h == "" or e.startswith(h + os.sep))
        )
        self._files[("else", h, target)] = r = os.path.join(self.root, c[-1]) if c else None
        return r

    def _file_for(self, h, target):
        roots = [r for r in self.histories() if r]
        if h and h not in roots:
            roots.append(h)
        vis = W.visible_tree(self.root, W.DEFAULT_IGNORE)
        own = sorted(e for e, k in vis.items() if k == "f" and W.owner_of(e, roots) == h and not os.path.islink(os.path.join(self.root, e)))
        if own:
            return os.path.join(self.root, own[0]), True
        below = sorted(e for e, k in vis.items() if k == "f" and (target == "" or e.startswith(target + os.sep)))
        if below:
            return os.path.join(self.root, below[0]), False
        return None, False


_TZ0 = os.environ.get("TZ")


def set_tz(v):
    if v is None:
        if _TZ0 is None:
            os.environ.pop("TZ", None)
        else:
            os.environ["TZ"] = _TZ0
    else:
        os.environ["TZ"] = v
    time.tzset()


# ------------------------------------------------------------------------------------------------ faults
MODIFY = [
    "flip-first",
    "flip-last",
    "flip-mid",
    "flip-rnd",
    "flip-keep-mtime",
    "insert-rnd",
    "insert-front",
    "delete-rnd",
    "delete-last",
    "truncate-0",
    "truncate-1",
    "truncate-half",
    "append-nl",
    "append-space",
    "crlf",
    "swap",
    "xmldecl-space",
    "other-generation",
    "other-manifest",
    "exchange-generations",
    "symlink-to-edited",
    "attr-quote",
]
MISSING = ["remove", "rename-bak", "rename-upper"]
CHAIN = ["remove", "rename-bak"]
BIG = ["flip-1M-1", "flip-1M", "flip-1M+1", "delete-1M"]


def edited(kind, data, rnd, others):
    """the new bytes for a modifying edit, or None when not applicable; always differs from data"""
    n = len(data)
    if n == 0:
        return None
    b = bytearray(data)

    def flip(p, bit=None):
        b[p] ^= 1 << (rnd.randrange(8) if bit is None else bit)
        return bytes(b)

    if kind == "flip-first":
        return flip(0)
    if kind == "flip-last":
        return flip(n - 1, 0)
    if kind == "flip-mid":
        return flip(n // 2)
    if kind in ("flip-rnd", "flip-keep-mtime"):
        return flip(rnd.randrange(n))
    if kind.startswith("flip@"):
        p, bit = kind[5:].split(".")
        return flip(int(p), int(bit)) if int(p) < n else None
    if kind in ("flip-1M-1", "flip-1M", "flip-1M+1"):
        p = {"flip-1M-1": M - 1, "flip-1M": M, "flip-1M+1": M + 1}[kind]
        return flip(p) if p < n else None
    if kind == "delete-1M":
        return data[:M] + data[M + 1 :] if n > M + 1 and data[M] != data[M + 1] else (data[:M] if n > M else None)
    if kind == "insert-rnd":
        p = rnd.randrange(n + 1)
        return data[:p] + bytes([rnd.choice(b" \n\tx0<")]) + data[p:]
    if kind == "insert-front":
        return b"\n" + data
    if kind == "delete-rnd":
        p = rnd.randrange(n)
        return data[:p] + data[p + 1 :]
    if kind == "delete-last":
        return data[:-1]
    if kind == "truncate-0":
        return b""
    if kind == "truncate-1":
        return data[: n - 1]
    if kind == "truncate-half":
        return data[: n // 2]
    if kind == "append-nl":
        return data + b"\n"
    if kind == "append-space":
        return data + b" "
    if kind == "crlf":
        return data.replace(b"\n", b"\r\n") if b"\n" in data else None
    if kind == "swap":
        for p in range(rnd.randrange(n), n - 1):
            if data[p] != data[p + 1]:
                return data[:p] + bytes([data[p + 1], data[p]]) + data[p + 2 :]
        return None
    if kind == "xmldecl-space":  # the same XML document, other bytes
        return data.replace(b"?>", b" ?>", 1) if b"?>" in data else None
    if kind == "attr-quote":  # the same XML document, other bytes
        p = data.find(b'="')
        if p < 0:
            return None
        q = data.find(b'"', p + 2)
        seg = data[p + 2 : q]
        return data[: p + 1] + b"'" + seg + b"'" + data[q + 1 :] if q > 0 and b"'" not in seg else None
    if kind in ("other-manifest", "other-generation"):  # a complete, valid manifest, but not the one that was chained
        for o in others:
            if o != data:
                return o
        return None
    raise ValueError(kind)


class Fault:
    """one fault; apply() puts it on disk (repeatable), undo() takes it back in place; expected = acceptable exit codes"""

    def __init__(self, world, victims, victim, edit, rnd):
        self.world, self.victims, self.victim, self.edit = world, victims, victim, edit
        self.expected = None
        self.descr = None
        self.rnd = rnd
        self.rnd_state = rnd.getstate()
        self.saved = {}  # path -> (bytes, atime_ns, mtime_ns) | None (did not exist)
        self.dirs = {}  # directory -> (atime_ns, mtime_ns)

    def touch(self, path):
        """remember the state of a path (and of its directory) that the fault is going to change"""
        if path in self.saved:
            return
        d = os.path.dirname(path)
        if d not in self.dirs and os.path.isdir(d):
            st = os.stat(d)
            self.dirs[d] = (st.st_atime_ns, st.st_mtime_ns)
        if os.path.lexists(path) and not os.path.isdir(path):
            st = os.stat(path)
            with open(path, "rb") as f:
                self.saved[path] = (f.read(), st.st_atime_ns, st.st_mtime_ns)
        else:
            self.saved[path] = None

    def undo(self):
        for path, was in self.saved.items():
            if os.path.isdir(path) and not os.path.islink(path):
                os.rmdir(path)
            elif os.path.lexists(path):
                os.remove(path)
            if was is not None:
                with open(path, "wb") as f:
                    f.write(was[0])
                os.utime(path, ns=(was[1], was[2]))
        for d, t in self.dirs.items():
            os.utime(d, ns=t)
        self.saved, self.dirs = {}, {}

    def apply(self):
        """False when the edit is not applicable to this victim"""
        w = self.world
        h, label, path, vkind = self.victim
        rnd = self.rnd
        rnd.setstate(self.rnd_state)
        rel = os.path.relpath(path, w.base)
        if vkind == "newdir":  # an ascmhl folder without chain file in a directory that has no history yet
            self.touch(path)
            os.mkdir(path)
            self.expected = {32}
            self.descr = f"empty folder {rel} created (an ascmhl folder without chain file)"
            return True
        if vkind == "chain":
            if self.edit == "remove":
                self.touch(path)
                os.remove(path)
            elif self.edit == "rename-bak":
                self.touch(path)
                self.touch(path + ".bak")
                os.rename(path, path + ".bak")
            elif self.edit == "remove-all":  # ascmhl folder left empty
                d = os.path.dirname(path)
                for n in os.listdir(d):
                    self.touch(os.path.join(d, n))
                    os.remove(os.path.join(d, n))
            else:
                raise ValueError(self.edit)
            self.expected = {32}
            self.descr = f"chain file {rel} {self.edit}"
            return True
        if self.edit in MISSING:
            if self.edit == "remove":
                self.touch(path)
                os.remove(path)
            elif self.edit == "rename-bak":
                self.touch(path)
                self.touch(path + ".bak")
                os.rename(path, path + ".bak")
            else:
                up = os.path.join(os.path.dirname(path), os.path.basename(path).upper())
                if up == path or os.path.lexists(up):
                    return False
                self.touch(path)
                self.touch(up)
                os.rename(path, up)
            self.expected = {33}
            self.descr = f"manifest {rel} {self.edit}"
            return True
        st = os.stat(path)
        with open(path, "rb") as f:
            data = f.read()
        if self.edit == "modify+remove-last":
            hm = [v for v in self.victims if v[0] == h and v[3] == "manifest"]
            if len(hm) < 2 or hm[-1][2] == path:
                return False
            new = edited("flip-rnd", data, rnd, [])
            self.touch(path)
            self.touch(hm[-1][2])
            with open(path, "wb") as f:
                f.write(new)
            os.remove(hm[-1][2])
            self.expected = {31, 33}
            self.descr = f"manifest {rel} bit flipped and {os.path.basename(hm[-1][2])} removed"
            return True
        if self.edit == "exchange-generations":  # two chained manifests of one history trade places
            hm = [v for v in self.victims if v[0] == h and v[3] == "manifest"]
            i = [v[2] for v in hm].index(path)
            if len(hm) < 2:
                return False
            other = hm[(i + 1) % len(hm)][2]
            with open(other, "rb") as f:
                odata = f.read()
            if odata == data:
                return False
            self.touch(path)
            self.touch(other)
            with open(path, "wb") as f:
                f.write(odata)
            with open(other, "wb") as f:
                f.write(data)
            self.expected = {31}
            self.descr = f"manifests {rel} and {os.path.basename(other)} exchanged their content (c4 {W.c4_of_bytes(data)[:12]}.. <-> {W.c4_of_bytes(odata)[:12]}..)"
            return True
        if self.edit == "other-generation":
            others = [w.written[v[2]] for v in self.victims if v[3] == "manifest" and v[2] != path and v[0] == h]
        else:
            others = [w.written[v[2]] for v in self.victims if v[3] == "manifest" and v[2] != path and v[0] != h]
        rnd.shuffle(others)
        new = edited("flip-rnd" if self.edit == "symlink-to-edited" else self.edit, data, rnd, others)
        if new is None or new == data or new == w.written.get(path):
            return False
        self.touch(path)
        if self.edit == "symlink-to-edited":
            aux = os.path.join(w.base, "aux_edited.mhl")
            self.touch(aux)
            with open(aux, "wb") as f:
                f.write(new)
            os.remove(path)
            os.symlink(aux, path)
        else:
            with open(path, "wb") as f:
                f.write(new)
        if self.edit in ("flip-keep-mtime", "swap") or self.edit.startswith("flip@"):
            os.utime(path, ns=(st.st_atime_ns, st.st_mtime_ns))
        d = next((i for i in range(min(len(new), len(data))) if new[i] != data[i]), min(len(new), len(data)))
        self.expected = {31}
        self.descr = (
            f"manifest {rel} edited ({self.edit}): {len(data)} -> {len(new)} bytes, first difference at offset {d}, "
            f"c4 {W.c4_of_bytes(data)[:12]}.. -> {W.c4_of_bytes(new)[:12]}.."
        )
        return True


# ------------------------------------------------------------------------------------------------ commands
def command_table():
    """name -> (family, builder(ctx) -> (command, args) or None); ctx: arg (spelled root), F (file option value or None),
    Fdir, own (F is owned directly by the victim's history and target is that history), out, newout, ign"""
    t = {}
    t["create"] = ("create", lambda c: ("create", [c["arg"], "-h", "md5"]))
    t["create-n-c4"] = ("create", lambda c: ("create", ["-n", "-h", "c4", c["arg"]]))
    t["create-dup-h"] = ("create", lambda c: ("create", [c["arg"], "-h", "xxh64", "-h", "xxh64", "-v"]))
    t["create-i"] = ("create", lambda c: ("create", [c["arg"], "-i", "*.tmp", "-i", "sub/dir/", "-i", "!keep.tmp"]))
    t["create-ii"] = ("create", lambda c: ("create", [c["arg"], "-ii", c["ign"]]))
    t["create-dr"] = ("create", lambda c: ("create", [c["arg"], "-dr", "--author_name", "N", "--comment", "c"]))
    t["create-sf"] = ("create-sf", lambda c: ("create", [c["arg"], "-sf", c["F"]]) if c["F"] else None)
    t["create-sf-twice"] = ("create-sf", lambda c: ("create", [c["arg"], "-h", "xxh64", "-sf", c["F"], "-sf", c["F"]]) if c["F"] else None)
    t["create-sf-dir"] = ("create-sf", lambda c: ("create", [c["arg"], "-sf", c["Fdir"], "-i", "*.tmp"]) if c["Fdir"] else None)
    # the option names a file of another history than the one with the fault; the folder with the fault is ignored
    t["create-sf-elsewhere"] = ("create-sf", lambda c: ("create", [c["arg"], "-sf", c["G"]]) if c["G"] else None)
    t["create-i-victimdir"] = ("create", lambda c: ("create", [c["arg"], "-i", c["top"]]) if c["top"] else None)
    t["verify-sf-elsewhere"] = ("verify", lambda c: ("verify", [c["arg"], "-sf", c["Gv"]]) if c["Gv"] else None)
    t["verify-i-victimdir"] = ("verify", lambda c: ("verify", [c["arg"], "-i", c["top"] + "/"]) if c["top"] else None)
    t["info-sf-elsewhere"] = ("info", lambda c: ("info", [c["arg"], "-sf", c["G"]]) if c["G"] else None)
    t["verify"] = ("verify", lambda c: ("verify", [c["arg"]]))
    t["verify-v-i"] = ("verify", lambda c: ("verify", ["-v", c["arg"], "-i", "*.txt"]))
    t["verify-sf"] = ("verify", lambda c: ("verify", [c["arg"], "-sf", c["Fv"]]) if c["Fv"] else None)
    t["verify-dh"] = ("verify-dh", lambda c: ("verify", ["-dh", c["arg"]]))
    t["verify-dh-md5"] = ("verify-dh", lambda c: ("verify", ["-dh", "-h", "md5", c["arg"], "-v"]))
    t["verify-dh-co"] = ("verify-dh", lambda c: ("verify", ["-dh", "-co", c["arg"]]))
    t["verify-dh-ro"] = ("verify-dh", lambda c: ("verify", ["-dh", "-ro", "-h", "c4", c["arg"]]))
    t["diff"] = ("diff", lambda c: ("diff", [c["arg"]]))
    t["diff-v-ii"] = ("diff", lambda c: ("diff", ["-v", c["arg"], "-ii", c["ign"]]))
    t["info"] = ("info", lambda c: ("info", [c["arg"]]))
    t["info-v"] = ("info", lambda c: ("info", ["-v", c["arg"]]))
    t["info-sf"] = ("info", lambda c: ("info", [c["arg"], "-sf", c["F"]]) if c["F"] else None)
    t["info-sf-noroot"] = ("info", lambda c: ("info", ["-sf", c["F"], "-v"]) if c["F"] and c["own"] else None)
    t["flatten"] = ("flatten", lambda c: ("flatten", [c["arg"], c["out"]]))
    t["flatten-new"] = ("flatten", lambda c: ("flatten", ["-v", c["arg"], c["newout"]]))
    t["flatten-n-i"] = ("flatten", lambda c: ("flatten", [c["arg"], c["out"], "-n", "-i", "*.txt", "--author_name", "N"]))
    return t


CORE = ["create", "create-sf", "verify", "verify-dh", "diff", "info", "flatten"]  # the seven named by the statement
SPELL = ["abs", "slash", "rel", "dot", "unnorm"]


def context(world, h, target, spell):
    T = world.hp(target)
    arg, cwd = T, None
    if spell == "slash":
        arg = T + os.sep
    elif spell == "rel":
        arg, cwd = os.path.relpath(T, world.base), world.base
    elif spell == "dot":
        arg, cwd = ".", T
    elif spell == "unnorm":
        arg = os.path.join(os.path.dirname(T), ".", os.path.basename(T)) + os.sep + "."
    F, own = world.file_for(h, target)
    G = world.file_elsewhere(h, target)  # a file below the target that the victim's history does not own
    c = {"arg": arg, "cwd": cwd, "F": F, "Fv": F, "Fdir": os.path.dirname(F) if F else None, "own": own and target == h, "G": G, "Gv": G}
    relh = h if target == "" else (os.path.relpath(h, target) if h != target else "")
    c["top"] = relh.split(os.sep)[0] if relh else None  # first folder on the way from the target to the victim's history
    if F and cwd:  # option paths relative to the cwd (create, info) / to the root (verify)
        c["F"] = os.path.relpath(F, cwd)
        c["Fdir"] = os.path.relpath(os.path.dirname(F), cwd)
        c["Fv"] = os.path.relpath(F, T)
    if G and cwd:
        c["G"] = os.path.relpath(G, cwd)
        c["Gv"] = os.path.relpath(G, T)
    c["out"] = world.out if not cwd else os.path.relpath(world.out, cwd)
    c["newout"] = os.path.join(world.base, "newout")
    c["ign"] = world.ign if spell != "rel" else os.path.relpath(world.ign, cwd)
    return c


# ------------------------------------------------------------------------------------------------ main loop
def show(cmd, args):
    return f"{cmd} " + " ".join(a if len(a) < 120 else a[:40] + "..." for a in args)


def run_fault(run, world, table, fault, plan, intact, steps):
    """plan: [(cid, command variant, target history, spelling)]; the fault is applied once, every command is run on it and
    compared with the statement, then the fault is taken back"""
    h, label, path, vkind = fault.victim
    if not fault.apply():
        fault.undo()
        return
    before = W.snapshot(world.base)
    dirty = False
    for cid, cname, target, spell in plan:
        family, builder = table[cname]
        ctx = context(world, h, target, spell)
        built = builder(ctx)
        if built is None:
            continue
        cmd, args = built
        code, out, exc = W.run(cmd, args, cwd=ctx["cwd"])
        after = W.snapshot(world.base)
        nontrivial = (world.wid, h, label, fault.edit.split("@")[0], cname) if intact.get(target, True) else None
        run.case(cid, nontrivial, sample={"case": cid, "fault": fault.descr, "exit": code})
        inp = {
            "world": world.wid,
            "steps": [[str(x)[:60] for x in s[:4]] for s in steps][:14],
            "fault": fault.descr,
            "command": [cmd] + [a if len(a) < 120 else a[:40] + "..." for a in args],
            "cwd": ctx["cwd"],
        }
        want = "+".join(str(x) for x in sorted(fault.expected))
        if code not in fault.expected or exc is not None:
            run.violation(
                cid,
                f"{fault.descr}; `{show(cmd, args)}` left with exit code {code}"
                f"{' (uncaught ' + repr(exc)[:160] + ')' if exc is not None else ''}, expected {want}; output: {out[-200:]!r}",
                f"{want}/{family}/exit",
                inp=inp,
            )
        if after != before:
            ch = W.diff_snap(before, after)
            run.violation(
                cid,
                f"{fault.descr}; `{show(cmd, args)}` (exit {code}) changed the file system: {ch[:6]} ({len(ch)} entries), expected no change",
                f"{want}/{family}/wrote",
                inp=inp,
            )
            # back to the reference state, fault re-applied
            world.restore()
            fault.saved, fault.dirs = {}, {}
            fault.apply()
            before = W.snapshot(world.base)
            dirty = True
    if dirty:
        world.restore()
    else:
        fault.undo()


def main():
    run = Run(
        "C05",
        rule="case = (world, victim = chained manifest of generation g or chain file of history h, edit, command variant, history the "
        "command is pointed at, spelling of the root); a case is non-trivial when `info` on the intact history the command is pointed "
        "at does not leave with 31/32/33 and the edit really changed the bytes recorded when the manifest was written; distinct = "
        "distinct (world, history, generation, edit kind, command variant)",
        bound="16 scripted histories quick / 35 thorough (<= 7 entries, nesting <= 3 levels, 1-12 generations quick / 23 thorough per "
        "history, mixed format sets, -n / -sf / failed / reference-only generations, ignore patterns via -i and -ii incl. negation, "
        "three POSIX TZ zones with mtimes around a DST switch, symlinks, unsealed outer root, unreferenced nested history, manifest "
        "> 1 MiB, create killed before its k-th writing operation k in {2,4,7} quick / 1..9 thorough, with and without a further "
        "create); every chained manifest and chain file is a victim; 22 modifying edits (+4 around offset 1 MiB) + 3 ways of removal + "
        "combined fault per manifest, 2 removals + emptied folder per chain, chain-less ascmhl folder in a fresh directory; 32 command "
        "variants of the 7 commands, pointed at every enclosing history, root spelled 5 ways; quick: per victim 6 rotating edits "
        "(always removal and an mtime/size-preserving flip) x 2 rotating variants + the 7 core commands on one rotating edit, all "
        "edits x 7 core commands on 2 victims; thorough: all edits x 3 rotating variants + all 32 variants on 2 edits per victim, "
        "and every byte position (one bit each) of two manifests",
    )
    sweep(run, run.tier)
    if run.only is not None and run.evaluations == 0:
        # the replay command carries no tier: a case that only exists in the other tier is looked for there
        sweep(run, "quick" if run.tier == "thorough" else "thorough")
    run.finish()


def sweep(run, tier):
    table = command_table()
    names = list(table)
    thorough = tier == "thorough"
    for wid, tree, steps in world_specs(tier):
        if run.only is not None and not run.only.startswith(wid + "/"):
            continue
        try:
            world = World(run, wid, tree, steps)
        except WorldError as e:
            print(f"C05: world not built, skipped: {e}", file=sys.stderr)
            set_tz(None)
            continue
        victims = world.victims()
        intact = {}
        for h in world.histories():
            code, _, _ = W.run("info", [world.hp(h)])
            intact[h] = code not in (31, 32, 33)
        # an ascmhl folder without chain file in directories that have no history yet
        dirs = sorted(
            e
            for e, kd in W.visible_tree(world.root, W.DEFAULT_IGNORE).items()
            if kd == "d" and not os.path.islink(os.path.join(world.root, e)) and e not in world.histories()
        )
        for d in dirs[: (4 if thorough else 1)]:
            victims.append((d, "new", os.path.join(world.root, d, "ascmhl"), "newdir"))
        full = [("flat1", "", "g1"), ("unsealed", "A/deep", "g1")]
        for vi, victim in enumerate(victims):
            h, label, path, vkind = victim
            exhaustive_edits = (wid, h, label) in full
            if vkind == "newdir":
                edits = ["empty-ascmhl-folder"]
            elif vkind == "chain":
                edits = CHAIN + ["remove-all"]
            else:
                edits = MODIFY + MISSING + ["modify+remove-last"] + (BIG if len(world.written[path]) > M else [])
                if not thorough and not exhaustive_edits and len(world.written[path]) <= M:
                    # removal, an mtime- and size-preserving flip, and four more in rotation
                    rot = [e for e in edits if e not in ("remove", "flip-keep-mtime")]
                    edits = ["remove", "flip-keep-mtime"] + [rot[(vi * 4 + j + run.seed) % len(rot)] for j in range(4)]
                if thorough and exhaustive_edits:
                    rb = random.Random(f"{run.seed}/{wid}/bits")
                    edits = edits + [f"flip@{p}.{rb.randrange(8)}" for p in range(len(world.written[path]))]
            targets = world.ancestors(h)
            for ei, edit in enumerate(edits):
                k = vi * 7 + ei * 3 + run.seed
                if edit.startswith("flip@"):
                    chosen = [CORE[(k + int(edit[5:].split(".")[0])) % len(CORE)]]
                elif thorough:
                    chosen = [names[k % len(names)], names[(k + 11) % len(names)], names[(k + 19) % len(names)]]
                    if ei % len(edits) in ((vi + run.seed) % len(edits), (vi + run.seed + 7) % len(edits)) or vkind != "manifest":
                        chosen = names
                else:
                    chosen = [names[k % len(names)], names[(k + 13) % len(names)]]
                    if ei == (vi + run.seed) % len(edits) or exhaustive_edits or vkind == "newdir":
                        chosen = CORE + chosen
                    elif vkind == "chain":
                        chosen = chosen + [CORE[k % len(CORE)]]
                plan = []
                for ci, cname in enumerate(dict.fromkeys(chosen)):
                    target = targets[(k + ci) % len(targets)]
                    spell = SPELL[(k + 2 * ci) % len(SPELL)]
                    cid = f"{wid}/{h or '.'}#{label}/{edit}/{cname}/{target or '.'}/{spell}"
                    if run.want(cid):
                        plan.append((cid, cname, target, spell))
                if plan:
                    fault = Fault(world, victims, victim, edit, random.Random(f"{run.seed}/{wid}/{h}/{label}/{edit}"))
                    run_fault(run, world, table, fault, plan, intact, steps)
        set_tz(None)
        shutil.rmtree(world.base, ignore_errors=True)
        shutil.rmtree(world.pristine, ignore_errors=True)


if __name__ == "__main__":
    main()
