"""C10 bounded part: manifests and chain files read back exactly what was written.

Two layers, both judged by the statement only (written value == value recovered by the tool's reader == value an
independent ElementTree reader extracts; absent text ~ empty text for comment / location / author name, the author
name '-' ~ absent):

(M) model layer: well-formed model objects are enumerated from a plain `spec` (text pool x fields, every format
    subset x action, sizes, dates under several POSIX TZ strings incl. the repeated hour, 0..n authors / patterns /
    references / chain entries, many records), written with the real writer and re-read with the real reader and
    with the independent reader; the expectation is computed from the spec, never from the model classes.
(W) world layer: real commands on small worlds (create in every spelling, nested histories, -n, -sf, -dr, -i / -ii,
    failed generations, >= 11 generations, flatten, other time zones, killed runs).  The object handed to the writer
    is photographed at the call boundary (a view is taken *before* the real writer runs) and compared with both
    re-read forms; on top of that the values that are determined by the world (names on disk, sizes, digests,
    directory hashes, creator options, patterns, references, chain entries) are checked against the disk.
"""
import datetime as DT
import itertools
import os
import platform
import random
import subprocess
import sys
import time
import xml.etree.ElementTree as ET

from . import scen as S
from . import world as W
from .common import Run

UTC = DT.timezone.utc
NS, NSD = W.NS, W.NSD
FORMATS = list(W.FORMATS)
ACTIONS = ["original", "verified", "failed", None]
COUNTER = itertools.count()

# text without control characters (Cc); U+FFFE / U+FFFF are non-characters that XML 1.0 cannot carry at all
TEXTS = [
    "plain",
    "a b",
    " lead",
    "trail ",
    "  ",
    "\u00e9t\u00e9",
    "e\u0301te\u0301",
    "a&b",
    "<x>",
    "]]>",
    "&amp;",
    "&#10;&lt;",
    "'q'",
    '"dq"',
    "\u2028",
    "a\u2029b",
    "\u00a0",
    "\u3000x",
    "\U0001F3AC",
    "z\u200bw",
    "\ufeffbom",
    "\ufffd",
    "so\u00adft",
    "\u202ertl",
    "-",
    "<!-- c -->",
    "<![CDATA[x]]>",
    "a\\b",
    "%41",
    "\ue000",
    "\U0010ffff",
    "\u0394\u03b9\u03b1",
    "\u6620\u753b",
    "\u05e9\u05dc\u05d5\u05dd",
    "--flag",
    "#hash",
    "!neg",
    "*.txt",
    "a=b;c",
    "{urn:ASC:MHL:v2.0}path",
    "<path>x</path>",
    "long" * 60,
]
TZS = [
    "UTC0",
    "CET-1CEST,M3.5.0,M10.5.0/3",
    "NST3:30NDT,M3.2.0,M11.1.0",
    "<+0545>-5:45",
    "AEST-10AEDT,M10.1.0,M4.1.0/3",
    "<-12>12",
]
# instants (UTC seconds): winter / summer, both sides of the European and North-American switches of 2021, inside
# both occurrences of the repeated hour, the epoch neighbourhood and 2038
INSTANTS = [
    1610712000,  # 2021-01-15 12:00
    1626350400,  # 2021-07-15 12:00
    1616893199,  # 2021-03-28 00:59:59  (CET: last second before the gap)
    1616893200,  # 2021-03-28 01:00:00
    1635640200,  # 2021-10-31 00:30  (02:30 CEST, first pass)
    1635643800,  # 2021-10-31 01:30  (02:30 CET, second pass)
    1635642000,  # 2021-10-31 01:00  (exactly the switch)
    1615699799,  # 2021-03-14 05:29:59 (NST gap)
    1615699800,
    1636259400,  # 2021-11-07 04:30  (NDT repeated hour 1st)
    1636263000,  # 2021-11-07 05:30  (2nd)
    1617465600 - 1800,  # 2021-04-03 15:30 (AEDT repeated hour)
    1617465600 + 1800,
    86400,
    2147483647,
    2147483648,
]


ORIG_TZ = os.environ.get("TZ")


def set_tz(tz):
    """tz None: back to the zone the driver was started in"""
    tz = ORIG_TZ if tz is None else tz
    if tz is None:
        os.environ.pop("TZ", None)
    else:
        os.environ["TZ"] = tz
    time.tzset()


# ------------------------------------------------------------------------------------------------ canonical views
def nz(x):
    return x if x else None


def an(x):
    return None if x in (None, "", "-") else x


def inst(d):
    """datetime -> aware UTC instant (a naive value is local time, `fold` selects the pass of a repeated hour)"""
    if d is None:
        return None
    return d.astimezone(UTC)


def iso_inst(text):
    if text is None:
        return None
    d = DT.datetime.fromisoformat(text)
    if d.tzinfo is None:
        return ("naive", text)
    return d.astimezone(UTC)


def off(d):
    return None if d is None or d.tzinfo is None else d.utcoffset()


def view_creator(date, host, tool, location, comment, authors):
    return {
        "creationdate": date,
        "hostname": host,
        "tool": tuple(tool),
        "location": nz(location),
        "comment": nz(comment),
        "authors": [(an(a[0]), a[1], a[2], a[3]) for a in authors],
    }


def indep_view(path):
    """independent reader (xml.etree): canonical view, mtimes, utc offsets of the hash dates"""
    t = ET.parse(path).getroot()
    if t.tag != NS + "hashlist":
        raise ValueError(f"root element is {t.tag}")
    ci = t.find(NS + "creatorinfo")
    tool = ci.find(NS + "tool")
    v = {
        "creator": view_creator(
            ci.findtext(NS + "creationdate"),
            ci.findtext(NS + "hostname"),
            (tool.text, tool.get("version")),
            ci.findtext(NS + "location"),
            ci.findtext(NS + "comment"),
            [(a.text, a.get("email"), a.get("phone"), a.get("role")) for a in ci.findall(NS + "author")],
        )
    }
    pi = t.find(NS + "processinfo")
    v["process"] = pi.findtext(NS + "process")
    ig = pi.find(NS + "ignore")
    v["ignore"] = [p.text for p in ig.findall(NS + "pattern")] if ig is not None else []
    offsets = {}

    def dir_entries(el, key):
        c, s = el.find(NS + "content"), el.find(NS + "structure")
        smap = {}
        for x in s if s is not None else []:
            smap[x.tag.replace(NS, "")] = x
        out = []
        for x in c if c is not None else []:
            f = x.tag.replace(NS, "")
            sx = smap.pop(f, None)
            out.append((f, x.text, sx.text if sx is not None else "<no structure element>", x.get("action"), iso_inst(x.get("hashdate"))))
            if sx is not None and (sx.get("action"), sx.get("hashdate")) != (x.get("action"), x.get("hashdate")):
                out.append((f, "<structure attributes differ from content attributes>", sx.get("action"), sx.get("hashdate")))
            offsets[(key, f)] = off(DT.datetime.fromisoformat(x.get("hashdate"))) if x.get("hashdate") else None
        for f in smap:
            out.append((f, "<structure without content>", smap[f].text, None, None))
        return sorted(out, key=repr)

    rh = pi.find(NS + "roothash")
    v["roothash"] = dir_entries(rh, ".") if rh is not None else []
    v["records"] = {}
    mt = {}
    hs = t.find(NS + "hashes")
    for h in hs if hs is not None else []:
        tag = h.tag.replace(NS, "")
        pe = h.find(NS + "path")
        p = pe.text
        rec = {"dir": tag == "directoryhash", "size": None, "prev": h.findtext(NS + "previousPath"), "entries": []}
        if pe.get("size") is not None:
            rec["size"] = int(pe.get("size")) if str(int(pe.get("size"))) == pe.get("size") else ("text", pe.get("size"))
        mt[p] = iso_inst(pe.get("lastmodificationdate"))
        if tag == "directoryhash":
            rec["entries"] = dir_entries(h, p)
        elif tag == "hash":
            for c in h:
                ct = c.tag.replace(NS, "")
                if ct in ("path", "previousPath"):
                    continue
                rec["entries"].append((ct, c.text, None, c.get("action"), iso_inst(c.get("hashdate"))))
                offsets[(p, ct)] = off(DT.datetime.fromisoformat(c.get("hashdate"))) if c.get("hashdate") else None
            rec["entries"].sort(key=repr)
        else:
            rec["entries"] = [("<unknown element>", tag)]
        if p in v["records"]:
            p = ("duplicate", p, len(v["records"]))
        v["records"][p] = rec
    rf = t.find(NS + "references")
    v["references"] = sorted((r.findtext(NS + "path"), r.findtext(NS + "c4")) for r in (rf.findall(NS + "hashlistreference") if rf is not None else []))
    return v, mt, offsets


def _tool_entries(mh, key, offsets):
    out = []
    for e in mh.hash_entries:
        out.append((e.hash_format, e.hash_string, e.structure_hash_string if mh.is_directory else None, nz(e.action), inst(e.hash_date)))
        offsets[(key, e.hash_format)] = off(e.hash_date)
    return sorted(out, key=repr)


def object_view(hl, root_path=None):
    """canonical view of an MHLHashList object (used for the object the tool's reader returns and, at the call
    boundary of the writer, for the object that is about to be written)"""
    ci, pi = hl.creator_info, hl.process_info
    offsets = {}
    v = {
        "creator": view_creator(
            ci.creation_date, ci.host_name, (ci.tool.name, ci.tool.version), ci.location, ci.comment, [(a.name, a.email, a.phone, a.role) for a in ci.authors]
        )
    }
    pr = pi.process
    v["process"] = getattr(pr, "process_type", pr)
    v["ignore"] = list(pi.ignore_spec.get_pattern_list()) if pi.ignore_spec is not None else []
    rm = pi.root_media_hash
    v["roothash"] = _tool_entries(rm, ".", offsets) if rm is not None and rm.hash_entries else []
    if rm is not None and not rm.is_directory and rm.hash_entries:
        v["roothash"].append(("<root hash is not flagged as directory>",))
    v["records"] = {}
    mt = {}
    for mh in hl.media_hashes:
        p = mh.path.replace(os.sep, "/") if mh.path is not None else None
        rec = {
            "dir": bool(mh.is_directory),
            "size": mh.file_size,
            "prev": mh.previous_path.replace(os.sep, "/") if mh.previous_path else None,
            "entries": _tool_entries(mh, p, offsets),
        }
        d = mh.last_modification_date
        mt[p] = inst(d.replace(microsecond=0)) if d else None
        if p in v["records"]:
            p = ("duplicate", p, len(v["records"]))
        v["records"][p] = rec
    if root_path is None:  # object produced by the reader
        v["references"] = sorted((r.path.replace(os.sep, "/") if r.path else r.path, r.reference_hash) for r in hl.hash_list_references)
    else:  # object about to be written: the references are the manifests of the child histories
        refs = []
        for r in hl.referenced_hash_lists:
            with open(r.file_path, "rb") as f:
                refs.append((os.path.relpath(r.file_path, root_path).replace(os.sep, "/"), W.c4_of_bytes(f.read())))
        v["references"] = sorted(refs)
    return v, mt, offsets


def tool_read(path):
    from ascmhl import hashlist_xml_parser as HP

    hl = HP.parse(path)
    v, mt, offsets = object_view(hl)
    return v, offsets, hl


def diff(exp, got, pre=()):
    """[(key path, expected, got)] of the leaves that differ"""
    out = []
    if isinstance(exp, dict) and isinstance(got, dict):
        for k in sorted(set(exp) | set(got), key=repr):
            if k not in got:
                out.append((pre + (k,), exp[k], "<absent>"))
            elif k not in exp:
                out.append((pre + (k,), "<absent>", got[k]))
            else:
                out += diff(exp[k], got[k], pre + (k,))
    elif exp != got:
        out.append((pre, exp, got))
    return out


def field_class(keys):
    """stable label of the differing field: top-level key and, for records, the record field"""
    if not keys:
        return "whole"
    if keys[0] == "records":
        return "records." + (str(keys[2]) if len(keys) > 2 else "path")
    if keys[0] == "creator":
        return "creator." + (str(keys[1]) if len(keys) > 1 else "")
    return str(keys[0])


def short(x, n=160):
    s = repr(x)
    return s if len(s) <= n else s[:n] + "..."


def report(run, cid, exp, got, side_exp, side_got, layer, fname, inp=None, limit=4):
    ds = diff(exp, got)
    for keys, e, g in ds[:limit]:
        where = "".join(f"[{k!r}]" for k in keys)
        run.violation(
            cid,
            f"{fname}: {where}: {side_exp} {short(e)} but {side_got} {short(g)}",
            f"{layer}/{side_got.split()[0]}/{field_class(keys)}",
            inp=inp,
        )
    return len(ds)


def check_index(run, cid, hl, layer, fname):
    """a record is found under its path and under its previous path (when no other record carries that name)"""
    names = [m.path for m in hl.media_hashes]
    for m in hl.media_hashes:
        if names.count(m.path) == 1 and hl.find_media_hash_for_path(m.path) is not m:
            run.violation(cid, f"{fname}: re-read record {m.path!r} is not found under its own path", f"{layer}/tool-reader/index")
        if m.previous_path and m.previous_path not in names:
            others = [o for o in hl.media_hashes if o is not m and o.previous_path == m.previous_path]
            if not others and hl.find_media_hash_for_path(m.previous_path) is not m:
                run.violation(
                    cid,
                    f"{fname}: re-read record {m.path!r} is not found under its previous path {m.previous_path!r}",
                    f"{layer}/tool-reader/index-previous",
                )


def read_chain_tool(path):
    from ascmhl import chain_xml_parser as CP

    ch = CP.parse(path)
    return [(str(g.generation_number), g.ascmhl_filename, g.hash_string if g.hash_format == "c4" else (g.hash_format, g.hash_string)) for g in ch.generations], ch


# ------------------------------------------------------------------------------------------------ (M) model layer
def digests(seed):
    b = f"content {seed}".encode()
    return {f: W.DIGEST[f](b) for f in FORMATS}


def local_naive(ts, us=0):
    """naive local rendering of an instant (fold set inside a repeated hour), and the instant itself"""
    return DT.datetime.fromtimestamp(ts).replace(microsecond=us), DT.datetime.fromtimestamp(ts, UTC).replace(microsecond=us)


def entry(fmt, seed, action, ts, us, structure=False):
    d, i = local_naive(ts, us)
    dg = digests(seed)[fmt]
    return {"format": fmt, "digest": dg, "structure": digests(f"s{seed}")[fmt] if structure else None, "action": action, "date": d, "instant": i}


def base_spec():
    return {
        "creator": {"date": "2021-01-15T12:00:00+01:00", "host": "host.local", "tool": ("ascmhl", "1.0"), "location": None, "comment": None, "authors": []},
        "process": "in-place",
        "patterns": [],
        "root": [],
        "records": [],
        "refs": [],
    }


def rec(path, size=1, entries=(), is_dir=False, prev=None, mtime=None):
    return {"path": path, "dir": is_dir, "size": None if is_dir else size, "prev": prev, "entries": list(entries), "mtime": mtime}


def spec_view(spec, ref_expect):
    c = spec["creator"]
    v = {"creator": view_creator(c["date"], c["host"], c["tool"], c["location"], c["comment"], c["authors"])}
    v["process"] = spec["process"]
    v["ignore"] = list(W.DEFAULT_IGNORE) + [p for p in spec["patterns"]]
    ent = lambda es, d: sorted(((e["format"], e["digest"], e["structure"] if d else None, e["action"], e["instant"]) for e in es), key=repr)
    v["roothash"] = ent(spec["root"], True)
    v["records"] = {r["path"]: {"dir": r["dir"], "size": r["size"], "prev": r["prev"], "entries": ent(r["entries"], r["dir"])} for r in spec["records"]}
    v["references"] = sorted(ref_expect)
    mt = {r["path"]: (r["mtime"][1] if r["mtime"] else None) for r in spec["records"]}
    offsets = {}
    for key, es in [(".", spec["root"])] + [(r["path"], r["entries"]) for r in spec["records"]]:
        for e in es:
            if e["date"].tzinfo is not None:
                offsets[(key, e["format"])] = e["date"].utcoffset()
    return v, mt, offsets


def build_model(spec, root):
    """model objects from the spec, through the public constructors of the package"""
    from ascmhl import hashlist as H
    from ascmhl.ignore import MHLIgnoreSpec

    hl = H.MHLHashList()
    c = spec["creator"]
    ci = H.MHLCreatorInfo()
    ci.creation_date, ci.host_name, ci.tool = c["date"], c["host"], H.MHLTool(*c["tool"])
    ci.location, ci.comment = c["location"], c["comment"]
    for a in c["authors"]:
        ci.authors.append(H.MHLAuthor(a[0], a[1], a[2], a[3]))
    hl.creator_info = ci
    hl.process_info.process = H.MHLProcess(spec["process"])
    hl.process_info.ignore_spec = MHLIgnoreSpec(None, list(spec["patterns"]))

    def media(r, path):
        mh = H.MHLMediaHash()
        mh.path, mh.file_size, mh.is_directory, mh.previous_path = path, r.get("size"), r["dir"], r.get("prev")
        mh.last_modification_date = r["mtime"][0] if r.get("mtime") else None
        for e in r["entries"]:
            he = H.MHLHashEntry(e["format"], e["digest"], e["action"], e["date"])
            if r["dir"]:
                he.structure_hash_string = e["structure"]
            mh.append_hash_entry(he)
        return mh

    if spec["root"]:
        hl.append_hash(media({"dir": True, "entries": spec["root"]}, "."))
    for r in spec["records"]:
        hl.append_hash(media(r, r["path"]))
    ref_expect = []
    for i, (rel, payload) in enumerate(spec["refs"]):
        d = os.path.join(root, rel, "ascmhl")
        os.makedirs(d, exist_ok=True)
        fp = os.path.join(d, f"{i + 1:04d}_{os.path.basename(rel)}_2021-01-15_110000Z.mhl")
        with open(fp, "wb") as f:
            f.write(payload)
        child = H.MHLHashList()
        child.file_path = fp
        hl.referenced_hash_lists.append(child)
        ref_expect.append((os.path.relpath(fp, root).replace(os.sep, "/"), W.c4_of_bytes(payload)))
    return hl, ref_expect


def compare_three(run, cid, layer, fname, exp, exp_mt, exp_off, path, inp=None):
    """exp (what was written) against the tool's reader and the independent reader of the file at `path`"""
    n = 0
    try:
        iv, imt, ioff = indep_view(path)
    except Exception as ex:
        run.violation(cid, f"{fname}: the independent XML reader cannot read the written file: {ex!r}", f"{layer}/independent-reader/unreadable", inp=inp)
        iv = imt = None
        n += 1
    try:
        tv, toff, hl = tool_read(path)
    except Exception as ex:
        run.violation(cid, f"{fname}: the tool's reader fails on the file the tool wrote: {ex!r}", f"{layer}/tool-reader/unreadable", inp=inp)
        tv = None
        n += 1
    if iv is not None:
        n += report(run, cid, exp, iv, "written", "independent-reader extracts", layer, fname, inp)
        for p, want in exp_mt.items():
            if want is not None and imt.get(p) != want:
                run.violation(cid, f"{fname}: lastmodificationdate of {p!r}: written {want}, independent reader extracts {imt.get(p)}", f"{layer}/independent-reader/mtime", inp=inp)
                n += 1
        for k, o in exp_off.items():
            if o is not None and ioff.get(k) != o:
                run.violation(cid, f"{fname}: utc offset of hashdate {k}: written {o}, file carries {ioff.get(k)}", f"{layer}/independent-reader/hashdate-offset", inp=inp)
                n += 1
    if tv is not None:
        n += report(run, cid, exp, tv, "written", "tool-reader returns", layer, fname, inp)
        for k, o in exp_off.items():
            if o is not None and toff.get(k) != o:
                run.violation(cid, f"{fname}: utc offset of hashdate {k}: written {o}, tool's reader returns {toff.get(k)}", f"{layer}/tool-reader/hashdate-offset", inp=inp)
                n += 1
        check_index(run, cid, hl, layer, fname)
    return n, iv, imt, tv


def model_case(run, cid, spec):
    from ascmhl import hashlist_xml_parser as HP

    root = os.path.join(run.tmp, f"m{next(COUNTER)}", "root")
    os.makedirs(os.path.join(root, "ascmhl"))
    hl, ref_expect = build_model(spec, root)
    exp, exp_mt, exp_off = spec_view(spec, ref_expect)
    # the object must hold what was put in (constructors / append_hash)
    mv, mmt, _ = object_view(hl, root)
    report(run, cid, exp, mv, "spec", "model-object holds", "model", "(before writing)")
    fp = os.path.join(root, "ascmhl", "0001_root_2021-01-15_110000Z.mhl")
    try:
        HP.write_hash_list(hl, fp)
    except Exception as ex:
        run.violation(cid, f"write_hash_list raises {ex!r} on a well-formed object", "model/writer/exception", inp={"spec": short(spec, 600)})
        return
    compare_three(run, cid, "model", os.path.basename(fp), exp, exp_mt, exp_off, fp, inp={"spec": short(spec, 600)})


def model_chain_case(run, cid, names, rnd):
    """write_chain on a chain with len(names)-1 earlier generations, re-read; then the tool's own flow: parse, append"""
    from ascmhl import chain as C
    from ascmhl import chain_xml_parser as CP
    from ascmhl import hashlist as H

    d = os.path.join(run.tmp, f"m{next(COUNTER)}", "root", "ascmhl")
    os.makedirs(d)
    cp = os.path.join(d, "ascmhl_chain.xml")
    exp = []
    ch = C.MHLChain(cp)
    for i, n in enumerate(names[:-1]):
        c4 = W.c4_of_bytes(f"gen {i} {rnd.random()}".encode())
        ch.append_generation(C.MHLChainGeneration(i + 1, n, "c4", c4))
        exp.append((str(i + 1), n, c4))

    def new_list(num, n):
        payload = f"manifest {num} {rnd.random()}".encode()
        with open(os.path.join(d, n), "wb") as f:
            f.write(payload)
        hl = H.MHLHashList()
        hl.file_path, hl.generation_number = os.path.join(d, n), num
        exp.append((str(num), n, W.c4_of_bytes(payload)))
        return hl

    def check(stage):
        try:
            got_i = [tuple(x) for x in W.read_chain(cp)]
            got_t, _ = read_chain_tool(cp)
        except Exception as ex:
            run.violation(cid, f"chain file unreadable after {stage}: {ex!r}", "model/chain/unreadable")
            return
        for who, got in (("independent-reader", got_i), ("tool-reader", got_t)):
            if got != exp:
                k = next((j for j in range(max(len(got), len(exp))) if j >= len(got) or j >= len(exp) or got[j] != exp[j]), 0)
                run.violation(
                    cid,
                    f"chain after {stage}: entry {k}: written {short(exp[k] if k < len(exp) else None)}, {who} gives {short(got[k] if k < len(got) else None)} ({len(got)} of {len(exp)} entries)",
                    f"model/{who}/chain",
                )

    try:
        CP.write_chain(ch, new_list(len(names), names[-1]))
    except Exception as ex:
        run.violation(cid, f"write_chain raises {ex!r}", "model/chain/exception")
        return
    check("write_chain")
    # read, append one more, write again (what every create does)
    extra = names[-1].replace(f"{len(names):04d}_", f"{len(names) + 1:04d}_", 1) if names[-1].startswith(f"{len(names):04d}_") else "next_" + names[-1]
    try:
        ch2 = CP.parse(cp)
        CP.write_chain(ch2, new_list(len(names) + 1, extra))
    except Exception as ex:
        run.violation(cid, f"parse + write_chain raises {ex!r}", "model/chain/exception")
        return
    check("parse + write_chain")


def model_cases(run, rnd):
    """yields (cid, key, thunk)"""
    thorough = run.tier == "thorough"
    # F1 text pool through every text-carrying position
    for i, t in enumerate(TEXTS):
        sp = base_spec()
        sp["creator"].update(host=t, tool=(t, t), location=t, comment=t, authors=[(t, t, t, t), (None, t, None, None), (t, None, None, t)])
        sp["creator"]["date"] = "2021-01-15T12:00:00+01:00" if i % 2 else t
        sp["patterns"] = list(dict.fromkeys([t, "!" + t, t + "/", "/" + t + "/*"]))
        sp["process"] = t if i % 3 == 0 else "in-place"
        sp["root"] = [entry("md5", "root", None, INSTANTS[0], 5, True)]
        sp["records"] = [
            rec(t, 1, [entry("md5", i, "original", INSTANTS[0], 1)]),
            rec(f"D{t}/x{t}.bin", 2, [entry("c4", i, "verified", INSTANTS[1], 2)], prev=f"old{t}"),
            rec(f"D{t}", entries=[entry("md5", f"d{i}", None, INSTANTS[0], 3, True), entry("c4", f"d{i}", None, INSTANTS[0], 4, True)], is_dir=True, prev=f"E{t}" if i % 2 else None),
            rec(f"N {t}", entries=[], is_dir=True),
        ]
        sp["refs"] = [(f"D{t[:40]}/child {t[:40]}", t.encode("utf8"))]
        yield f"model/text/{i}", ("text", i), (lambda sp=sp, cid=f"model/text/{i}": model_case(run, cid, sp))
    # F2 every format subset x action rotation
    subsets = [list(c) for r in range(1, 7) for c in itertools.combinations(FORMATS, r)]
    for si, sub in enumerate(subsets):
        for rot in range(4) if (thorough or len(sub) <= 2 or len(sub) == 6) else (si % 4,):
            sp = base_spec()
            es = [entry(f, f"{si}", ACTIONS[(k + rot) % 4], INSTANTS[k % 2] + k, 100 * k + rot) for k, f in enumerate(sub)]
            ds = [entry(f, f"d{si}", ACTIONS[(k + rot + 1) % 4], INSTANTS[(k + 1) % 2] + k, 7 * k + rot, True) for k, f in enumerate(reversed(sub))]
            rs = [entry(f, f"r{si}", ACTIONS[(k + rot + 2) % 4], INSTANTS[0] - k, 999999 - k, True) for k, f in enumerate(sub)]
            sp["records"] = [rec("clip.mov", 10, es), rec("Reel", entries=ds, is_dir=True), rec("other.mov", 11, list(reversed(es[:1])))]
            sp["root"] = rs
            cid = f"model/formats/{'+'.join(sub)}/{rot}"
            yield cid, ("formats", tuple(sub), rot), (lambda sp=sp, cid=cid: model_case(run, cid, sp))
    # F3 sizes
    sizes = [0, 1, 2, 2**20, 2**31 - 1, 2**31, 2**32, 2**40, 2**53 + 1, 2**63, 2**64, 10**30, None]
    if thorough:
        sizes += [rnd.randrange(0, 2**70) for _ in range(30)]
    for n in sizes:
        sp = base_spec()
        sp["records"] = [rec("a.bin", n, [entry("md5", "a", "original", INSTANTS[0], 0)]), rec("z/b.bin", 0 if n else 5, [entry("xxh64", "b", "original", INSTANTS[0], 0)])]
        cid = f"model/size/{n}"
        yield cid, ("size", n), (lambda sp=sp, cid=cid: model_case(run, cid, sp))
    # F4 dates under time zones (naive local dates incl. the repeated hour; dates that carry their own offset)
    for zi, tz in enumerate(TZS):
        cid = f"model/date/{zi}"

        def date_case(tz=tz, zi=zi, cid=cid):
            set_tz(tz)
            try:
                sp = base_spec()
                ins = list(INSTANTS) + ([rnd.randrange(0, 2**32) for _ in range(40)] if thorough else [rnd.randrange(0, 2**31)])
                for k, ts in enumerate(ins):
                    us = [0, 1, 999999, 123456, 500000][k % 5]
                    e = [entry(FORMATS[k % 6], k, ACTIONS[k % 3], ts, us), entry(FORMATS[(k + 1) % 6], k, ACTIONS[(k + 1) % 3], ts + 3600, (us + 1) % 1000000)]
                    sp["records"].append(rec(f"f{k}.bin", k, e, mtime=local_naive(ts)))
                    sp["records"].append(rec(f"d{k}", entries=[entry("md5", k, None, ts, us, True)], is_dir=True, mtime=local_naive(ts + 1)))
                for k, (hh, mm) in enumerate([(5, 45), (-9, -30), (14, 0), (0, 0), (-12, 0), (1, 0)]):
                    tzinfo = DT.timezone(DT.timedelta(hours=hh, minutes=mm))
                    d = DT.datetime.fromtimestamp(INSTANTS[k], tzinfo).replace(microsecond=k * 1001)
                    e = {"format": "sha1", "digest": digests(k)["sha1"], "structure": None, "action": "verified", "date": d, "instant": d.astimezone(UTC)}
                    sp["records"].append(rec(f"aware{k}.bin", 1, [e]))
                sp["root"] = [entry("md5", "r", None, INSTANTS[5], 42, True)]
                model_case(run, cid, sp)
            finally:
                set_tz(None)

        yield cid, ("date", tz), date_case
    # F5 authors
    masks = [(k, m) for k in (1,) for m in range(16)] + [(0, 0), (2, 0b0110_1001), (3, 0b1111_0000_0101), (3, 0)]
    if thorough:
        masks += [(k, rnd.randrange(0, 16**k)) for k in (2, 3, 5) for _ in range(20)]
    for k, m in masks:
        sp = base_spec()
        auth = []
        for j in range(k):
            bits = (m >> (4 * j)) & 15
            auth.append(tuple((f"{fld}{j} <&> \u00e9" if bits & (1 << b) else None) for b, fld in enumerate(["name", "mail@x", "+49 1", "role"])))
        sp["creator"]["authors"] = auth
        sp["creator"]["comment"] = "c" if m & 1 else None
        sp["creator"]["location"] = "l" if m & 2 else None
        sp["records"] = [rec("a", 1, [entry("md5", 1, "original", INSTANTS[0], 0)])]
        cid = f"model/authors/{k}/{m}"
        yield cid, ("authors", k, m), (lambda sp=sp, cid=cid: model_case(run, cid, sp))
    # F6 patterns, F7 references, F9 process, F11 empty, F12 many records
    for n in [0, 1, 2, 5, 20] + ([200] if thorough else []):
        sp = base_spec()
        sp["patterns"] = [f"{TEXTS[j % len(TEXTS)]}{j}" + ("/" if j % 3 == 0 else "") for j in range(n)]
        cid = f"model/patterns/{n}"
        yield cid, ("patterns", n), (lambda sp=sp, cid=cid: model_case(run, cid, sp))
    for n in [0, 1, 2, 3] + ([12] if thorough else []):
        sp = base_spec()
        sp["refs"] = [([f"child{j}", "sp ace/c", "a&b", "\u00e9/deep/<x>", "Clips", "Clips_proxy"][j % 6] + (str(j) if j >= 6 else ""), f"payload{j}".encode()) for j in range(n)]
        cid = f"model/refs/{n}"
        yield cid, ("refs", n), (lambda sp=sp, cid=cid: model_case(run, cid, sp))
    # reference paths begin with the nested folder's name, which may begin or end with a blank
    sp = base_spec()
    sp["refs"] = [(" lead blank/c", b"payload-lead"), ("trail blank /c", b"payload-trail"), (" both /d ", b"payload-both")]
    yield "model/refs/blanks", ("refs", "blanks"), (lambda sp=sp: model_case(run, "model/refs/blanks", sp))
    for p in ["in-place", "transfer", "flatten"]:
        sp = base_spec()
        sp["process"] = p
        cid = f"model/process/{p}"
        yield cid, ("process", p), (lambda sp=sp, cid=cid: model_case(run, cid, sp))
    for n in [0, 1, 2, 300] + ([5000] if thorough else []):
        sp = base_spec()
        for j in range(n):
            if j % 7 == 3:
                sp["records"].append(rec(f"dir{j}", entries=[entry("xxh64", j, None, INSTANTS[0] + j, j, True)], is_dir=True))
            else:
                sp["records"].append(rec(f"dir{j // 7}/f{j}.bin", j, [entry(FORMATS[j % 6], j, ACTIONS[j % 3], INSTANTS[0] + j, j)], prev=f"was{j}" if j % 11 == 0 else None))
        if n:
            sp["root"] = [entry("xxh64", "r", None, INSTANTS[0], 0, True)]
        cid = f"model/records/{n}"
        yield cid, ("records", n), (lambda sp=sp, cid=cid: model_case(run, cid, sp))
    # F8 chain files
    for ti, t in enumerate(["root", "sp ace", "a&b<c>", "\u00e9\u2028x", "e\u0301"]):
        for n in [1, 2, 3, 11, 12] + ([120] if thorough else []):
            if ti and n not in (2, 12):
                continue
            names = [f"{j + 1:04d}_{t}_2021-01-{(j % 28) + 1:02d}_110000Z.mhl" for j in range(n)]
            cid = f"model/chain/{ti}/{n}"
            yield cid, ("chain", ti, n), (lambda names=names, cid=cid: model_chain_case(run, cid, names, rnd))
    # F10 random mixtures
    for i in range(1500 if thorough else 200):
        cid = f"model/random/{run.seed}/{i}"

        def rand_case(i=i, cid=cid):
            r = random.Random(f"{run.seed}/{i}")
            tx = lambda: r.choice(TEXTS)
            sp = base_spec()
            sp["creator"].update(host=tx(), tool=(tx(), tx()), location=r.choice([None, tx()]), comment=r.choice([None, tx()]))
            sp["creator"]["authors"] = [tuple(r.choice([None, tx()]) for _ in range(4)) for _ in range(r.randrange(0, 4))]
            sp["patterns"] = list(dict.fromkeys(tx() + r.choice(["", "/", "*"]) for _ in range(r.randrange(0, 5))))
            sp["patterns"] = [p for p in sp["patterns"] if p not in W.DEFAULT_IGNORE]
            sp["process"] = r.choice(["in-place", "transfer", "flatten"])
            used = set()
            for j in range(r.randrange(0, 8)):
                p = "/".join(tx() for _ in range(r.randrange(1, 4)))
                if p in used or "//" in p:
                    continue
                used.add(p)
                sub = r.sample(FORMATS, r.randrange(0 if j % 2 else 1, 7))
                is_dir = j % 2 == 1
                es = [entry(f, f"{i}.{j}", r.choice(ACTIONS[:3] if not is_dir else ACTIONS), r.randrange(0, 2**32), r.randrange(0, 10**6), is_dir) for f in sub]
                prev = r.choice([None, None, "was " + tx()])
                if prev in used:
                    prev = None
                sp["records"].append(rec(p, r.choice([0, 1, r.randrange(0, 2**48)]), es, is_dir=is_dir, prev=prev, mtime=r.choice([None, local_naive(r.randrange(0, 2**32))])))
            sp["records"] = [x for x in sp["records"] if x["prev"] is None or x["prev"] not in used]
            if r.random() < 0.6:
                sp["root"] = [entry(f, f"root{i}", None, r.randrange(0, 2**32), r.randrange(0, 10**6), True) for f in r.sample(FORMATS, r.randrange(1, 4))]
            sp["refs"] = [(f"c{j} {tx()[:40]}".replace("/", "_"), f"p{j}".encode()) for j in range(r.randrange(0, 3))]
            model_case(run, cid, sp)

        yield cid, ("random", i), rand_case


# ------------------------------------------------------------------------------------------------ (W) world layer
class Capture:
    """photographs the objects at the call boundary of the two writers (view taken before the real writer runs)"""

    def __enter__(self):
        from ascmhl import chain_xml_parser as CP
        from ascmhl import hashlist_xml_parser as HP

        self.HP, self.CP = HP, CP
        self.man, self.chains = {}, {}
        self._wh, self._wc = HP.write_hash_list, CP.write_chain

        def wh(hash_list, file_path):
            try:
                root = os.path.dirname(os.path.dirname(file_path))
                snap = object_view(hash_list, root)
            except Exception as ex:  # the object is not viewable: leave it to the world oracle
                snap = ex
            res = self._wh(hash_list, file_path)
            self.man[os.path.realpath(file_path)] = snap
            return res

        def wc(chain, new_hash_list):
            try:
                before = [(str(g.generation_number), g.ascmhl_filename, g.hash_string) for g in chain.generations]
            except Exception as ex:
                before = ex
            res = self._wc(chain, new_hash_list)
            try:
                with open(new_hash_list.file_path, "rb") as f:
                    last = (str(new_hash_list.generation_number), os.path.basename(new_hash_list.file_path), W.c4_of_bytes(f.read()))
                self.chains[os.path.realpath(chain.file_path)] = before + [last] if isinstance(before, list) else before
            except Exception as ex:
                self.chains[os.path.realpath(chain.file_path)] = ex
            return res

        HP.write_hash_list, CP.write_chain = wh, wc
        return self

    def __exit__(self, *a):
        self.HP.write_hash_list, self.CP.write_chain = self._wh, self._wc


def all_manifest_dirs(top):
    """every folder below top that holds *.mhl files (histories at any depth and flatten collections)"""
    out = []
    for dp, dns, fns in os.walk(top):
        dns.sort()
        if any(n.endswith(".mhl") for n in fns):
            out.append(dp)
    return out


class World:
    def __init__(self, run, cid, tree, name="t"):
        self.run, self.cid = run, cid
        self.tmp = os.path.join(run.tmp, f"w{next(COUNTER)}")
        self.root = os.path.join(self.tmp, name)
        W.build(self.root, tree)
        self.known = {}  # manifest path -> bytes
        self.user_patterns = []
        self.nviol = len(run.violations)
        self.log = []

    def v(self, what, wc, **inp):
        inp["steps"] = self.log[-6:]
        self.run.violation(self.cid, what, wc, inp=inp)

    # ---- commands
    def create(self, target=None, fmts=("md5",), extra=(), creator=None, patterns=(), spec_file=None, expect=(0,), arg=None, cwd=None, dirhash=True, tag="create", strict_chain=True):
        """target: history root addressed (default the outer root); arg/cwd: how it is spelled on the command line"""
        target = target or self.root
        args = [arg if arg is not None else target] + S.hargs(fmts) + list(extra)
        for k, val in (creator or {}).items():
            args.append(f"--{k}={val}")
        for p in patterns:
            args.append(f"--ignore={p}")
        lines = []
        if spec_file is not None:
            path, lines, how = spec_file
            args += ["-ii", how]
        self.log.append(short(["create"] + args[1:], 300))
        with Capture() as cap:
            t0 = time.time()
            code, out, exc = W.run("create", args, cwd=cwd)
            t1 = time.time()
        self.log[-1] += f" -> exit {code}"
        if expect is not None and (code not in expect or exc is not None):
            self.v(f"{tag}: exit {code} ({exc!r}), expected {expect}: {out[-300:]}", "world/exit")
            return code
        if target == self.root:
            for p in list(patterns) + lines:
                if p not in self.user_patterns:
                    self.user_patterns.append(p)
        ctx = {
            "t0": t0,
            "t1": t1,
            "fmts": sorted(set(fmts)),
            "creator": creator or {},
            "patterns": list(patterns) + lines,
            "process": "in-place",
            "no_dirhash": "-n" in extra or any(x == "-sf" for x in extra),
            "dirhash": dirhash,
            "target": target,
            "strict_chain": strict_chain,
        }
        self.audit(cap, ctx)
        return code

    def flatten(self, dest, creator=None, cwd=None, arg=None):
        args = [arg if arg is not None else self.root, dest]
        for k, val in (creator or {}).items():
            args.append(f"--{k}={val}")
        self.log.append(short(["flatten"] + args[1:], 300))
        src = [indep_view(m)[0] for m in W.manifests(self.root)]
        with Capture() as cap:
            t0 = time.time()
            code, out, exc = W.run("flatten", args, cwd=cwd)
            t1 = time.time()
        if code != 0 or exc is not None:
            self.v(f"flatten: exit {code} ({exc!r}): {out[-300:]}", "world/exit")
            return
        ctx = {"t0": t0, "t1": t1, "creator": creator or {}, "process": "flatten", "flatten_src": src, "target": self.root, "patterns": [], "fmts": [], "no_dirhash": True, "dirhash": False}
        self.audit(cap, ctx, top=os.path.join(cwd, dest) if cwd and not os.path.isabs(dest) else dest)

    def rename(self, a, b):
        """rename below the root; manifests that move with a renamed folder stay 'known'"""
        pa, pb = os.path.join(self.root, a), os.path.join(self.root, b)
        os.rename(pa, pb)
        self.known = {(pb + k[len(pa) :] if k.startswith(pa + os.sep) else k): v for k, v in self.known.items()}
        self.log.append(f"rename {a!r} -> {b!r}")

    def verify_ok(self):
        code, out, exc = W.run("verify", [self.root])
        if code != 0 or exc is not None:
            self.v(f"verify of the just sealed, unchanged tree exits {code} ({exc!r}): the recorded names are not found again: {out[-400:]}", "world/verify-after-create")

    # ---- checks
    def audit(self, cap, ctx, top=None):
        top = top or self.root
        new_by_dir = {}
        for d in all_manifest_dirs(top):
            for n in sorted(os.listdir(d)):
                if not n.endswith(".mhl"):
                    continue
                mf = os.path.join(d, n)
                with open(mf, "rb") as f:
                    b = f.read()
                if mf not in self.known:
                    new_by_dir.setdefault(d, []).append(mf)
                self.known[mf] = b
        views = {}
        for d, mfs in new_by_dir.items():
            for mf in mfs:
                views[mf] = self.check_new(d, mf, cap, ctx)
        self.check_references(new_by_dir, views)
        for d in all_manifest_dirs(top):
            self.check_chain(d, cap, strict=ctx.get("strict_chain", True))
        return new_by_dir

    def check_new(self, d, mf, cap, ctx):
        run, cid = self.run, self.cid
        hp = os.path.dirname(d) if os.path.basename(d) == "ascmhl" else None  # history root (None: a collection)
        fname = os.path.relpath(mf, self.tmp)
        snap = cap.man.get(os.path.realpath(mf)) if cap else None
        iv = tv = None
        if isinstance(snap, tuple):
            mv, mmt, moff = snap
            n, iv, imt, tv = compare_three(run, cid, "world", fname, mv, mmt, moff, mf, inp={"steps": self.log[-6:]})
        else:
            imt = None
            try:
                iv, imt, ioff = indep_view(mf)
            except Exception as ex:
                self.v(f"{fname}: the independent XML reader cannot read the file: {ex!r}", "world/independent-reader/unreadable")
            try:
                tv, toff, hl = tool_read(mf)
                check_index(run, cid, hl, "world", fname)
            except Exception as ex:
                self.v(f"{fname}: the tool's reader fails on a file the tool wrote: {ex!r}", "world/tool-reader/unreadable")
            if iv is not None and tv is not None:
                report(run, cid, iv, tv, "independent-reader extracts", "tool-reader returns", "world", fname, {"steps": self.log[-6:]})
        if iv is None:
            return None
        # ---- values determined by the world
        lo = DT.datetime.fromtimestamp(int(ctx["t0"]) - 1, UTC)
        hi = DT.datetime.fromtimestamp(int(ctx["t1"]) + 2, UTC)
        c = iv["creator"]
        cd = None
        try:
            cd = iso_inst(c["creationdate"])
        except Exception:
            pass
        if not isinstance(cd, DT.datetime) or not (lo <= cd <= hi):
            self.v(f"{fname}: creationdate {c['creationdate']!r} is not the time of the run ({lo.isoformat()} .. {hi.isoformat()})", "world/creator.creationdate")
        if c["hostname"] != platform.node():
            self.v(f"{fname}: hostname {c['hostname']!r}, this host is {platform.node()!r}", "world/creator.hostname")
        o = ctx["creator"]
        want_auth = [(an(o.get("author_name")), o.get("author_email"), o.get("author_phone"), o.get("author_role"))] if any(k.startswith("author_") for k in o) else []
        if ctx["process"] == "flatten" and "author_name" not in o:
            want_auth = []
        for label, got, want in [
            ("location", c["location"], nz(o.get("location"))),
            ("comment", c["comment"], nz(o.get("comment"))),
            ("authors", c["authors"], want_auth),
        ]:
            if got != want:
                self.v(f"{fname}: creator {label}: command line gave {short(want)}, file carries {short(got)}", f"world/creator.{label}")
        if iv["process"] != ctx["process"]:
            self.v(f"{fname}: process {iv['process']!r}, expected {ctx['process']!r}", "world/process")
        for p in list(W.DEFAULT_IGNORE) + (ctx["patterns"] if hp is not None else []):
            if p not in iv["ignore"]:
                self.v(f"{fname}: ignore pattern {p!r} given to the command is not among the recorded patterns {short(iv['ignore'])}", "world/ignore")
        if len(set(iv["ignore"])) != len(iv["ignore"]):
            pass  # duplicates are C12's business
        if ctx["process"] == "flatten":
            self.check_flatten(fname, iv, ctx["flatten_src"])
            return iv
        dh = {}
        if ctx["dirhash"] and not ctx["no_dirhash"]:
            pats = list(W.DEFAULT_IGNORE) + self.user_patterns
            for f in ctx["fmts"]:
                try:
                    dh[f] = W.dir_hashes(ctx["target"], pats, f)
                except Exception:
                    pass
        for p, r in iv["records"].items():
            if not isinstance(p, str):
                self.v(f"{fname}: path {p[1]!r} is recorded twice", "world/records.duplicate")
                continue
            full = os.path.join(hp, p)
            parent, base = os.path.split(full)
            try:
                present = base in os.listdir(parent)
            except OSError:
                present = False
            if not present:
                self.v(f"{fname}: recorded path {p!r} names nothing on disk (names there: {short(sorted(os.listdir(parent)) if os.path.isdir(parent) else None)})", "world/records.path")
                continue
            if r["dir"] != os.path.isdir(full):
                self.v(f"{fname}: {p!r}: directory flag {r['dir']} but on disk isdir={os.path.isdir(full)}", "world/records.dir")
                continue
            st = os.stat(full)
            if imt.get(p) is not None and imt.get(p) != DT.datetime.fromtimestamp(int(st.st_mtime), UTC) and st.st_mtime >= 0:
                self.v(f"{fname}: {p!r}: lastmodificationdate {imt.get(p)} but the entry was modified at {DT.datetime.fromtimestamp(int(st.st_mtime), UTC)}", "world/records.mtime")
            if not r["dir"]:
                if r["size"] != st.st_size:
                    self.v(f"{fname}: {p!r}: size {r['size']!r}, file has {st.st_size} bytes", "world/records.size")
                for e in r["entries"]:
                    f, dg, _, act, when = e[:5]
                    if f not in W.DIGEST or dg != W.file_digest(full, f):
                        self.v(f"{fname}: {p!r}: {f} digest {dg!r}, file content gives {W.file_digest(full, f) if f in W.DIGEST else None}", "world/records.digest")
                    if not isinstance(when, DT.datetime) or not (lo <= when <= hi):
                        self.v(f"{fname}: {p!r}: {f} hashdate {when} outside the run ({lo} .. {hi})", "world/records.hashdate")
                    if act not in ("original", "verified", "failed"):
                        self.v(f"{fname}: {p!r}: {f} action {act!r}", "world/records.action")
            else:
                for e in r["entries"]:
                    f, cont, struct = e[0], e[1], e[2]
                    key = os.path.relpath(full, ctx["target"])
                    if f in dh and key in dh[f] and (cont, struct) != dh[f][key]:
                        self.v(f"{fname}: directory {p!r}: {f} content/structure {cont}/{struct}, the folder gives {dh[f][key][0]}/{dh[f][key][1]}", "world/records.dirhash")
        for e in iv["roothash"]:
            f, key = e[0], os.path.relpath(hp, ctx["target"])
            if f in dh and key in dh[f] and (e[1], e[2]) != dh[f][key]:
                self.v(f"{fname}: root hash {f} content/structure {e[1]}/{e[2]}, the folder gives {dh[f][key][0]}/{dh[f][key][1]}", "world/roothash")
        return iv

    def check_flatten(self, fname, iv, src):
        have = {}
        for sv in src:
            for p, r in sv["records"].items():
                if r["dir"]:
                    continue
                for e in r["entries"]:
                    have.setdefault((p, e[0]), []).append((r["size"], e))
        for p, r in iv["records"].items():
            for e in r["entries"]:
                cands = have.get((p, e[0]), [])
                if not any(se == e for sz, se in cands) or not any(sz == r["size"] for sz, se in cands):
                    self.v(
                        f"{fname}: flattened entry {p!r} size {r['size']} {short(e)} equals no entry of the history it was read from: {short([c for c in cands], 400)}",
                        "world/flatten/entry",
                    )
        for (p, f), cands in have.items():
            if all(se[3] == "failed" for _, se in cands):
                continue
            if p not in iv["records"] or not any(e[0] == f for e in iv["records"][p]["entries"]):
                self.v(f"{fname}: history entry {p!r} {f} does not appear in the flattened manifest", "world/flatten/missing")

    def check_references(self, new_by_dir, views):
        hist = {os.path.dirname(d): mfs for d, mfs in new_by_dir.items() if os.path.basename(d) == "ascmhl"}
        roots = sorted(hist)
        all_roots = sorted(os.path.dirname(d) for d in all_manifest_dirs(self.root) if os.path.basename(d) == "ascmhl")
        for hp, mfs in hist.items():
            for mf in mfs:
                iv = views.get(mf)
                if iv is None:
                    continue
                fname = os.path.relpath(mf, self.tmp)
                want = []
                for c in roots:
                    if c == hp or not c.startswith(hp + os.sep):
                        continue
                    between = [x for x in all_roots if x != hp and x != c and c.startswith(x + os.sep) and x.startswith(hp + os.sep)]
                    if between:
                        continue
                    for cm in hist[c]:
                        want.append((os.path.relpath(cm, hp).replace(os.sep, "/"), W.c4_of_bytes(self.known[cm])))
                if len(mfs) == 1 and sorted(want) != iv["references"]:
                    self.v(f"{fname}: references {short(iv['references'], 300)}, the child generations written by this run are {short(sorted(want), 300)}", "world/references")
                for rp, c4 in iv["references"]:
                    fp = os.path.join(hp, rp)
                    if not os.path.isfile(fp):
                        self.v(f"{fname}: reference path {rp!r} names no file", "world/references.path")
                    else:
                        with open(fp, "rb") as f:
                            real = W.c4_of_bytes(f.read())
                        if real != c4:
                            self.v(f"{fname}: reference {rp!r} carries c4 {c4}, the file has {real}", "world/references.c4")

    def check_chain(self, d, cap, strict=True):
        name = "ascmhl_chain.xml" if os.path.basename(d) == "ascmhl" else "ascmhl_collection.xml"
        cp = os.path.join(d, name)
        rel = os.path.relpath(cp, self.tmp)
        mans = sorted(n for n in os.listdir(d) if n.endswith(".mhl"))
        if not os.path.exists(cp):
            if strict:
                self.v(f"{rel} is missing although {len(mans)} manifests exist", "world/chain/missing")
            return
        try:
            got_i = [tuple(x) for x in W.read_chain(cp)]
        except Exception as ex:
            self.v(f"{rel}: the independent reader cannot read the chain file: {ex!r}", "world/independent-reader/chain-unreadable")
            return
        try:
            got_t, _ = read_chain_tool(cp)
        except Exception as ex:
            self.v(f"{rel}: the tool's reader fails on the chain file: {ex!r}", "world/tool-reader/chain-unreadable")
            return
        if got_t != got_i:
            self.v(f"{rel}: tool's reader gives {short(got_t, 300)}, independent reader {short(got_i, 300)}", "world/tool-reader/chain")
        snap = cap.chains.get(os.path.realpath(cp)) if cap else None
        if isinstance(snap, list) and snap != got_i:
            self.v(f"{rel}: written entries {short(snap, 300)}, read back {short(got_i, 300)}", "world/independent-reader/chain")
        want = []
        for n in mans:
            with open(os.path.join(d, n), "rb") as f:
                c4 = W.c4_of_bytes(f.read())
            num = str(int(n[:4])) if n[:4].isdigit() else None
            want.append((num, n, c4))
        if name == "ascmhl_collection.xml":
            want = [(str(i + 1), n, c) for i, (_, n, c) in enumerate(want)]
        if strict:
            if got_i != want:
                k = next((j for j in range(max(len(got_i), len(want))) if j >= len(got_i) or j >= len(want) or got_i[j] != want[j]), 0)
                self.v(
                    f"{rel}: entry {k} is {short(got_i[k] if k < len(got_i) else None)}, the manifests on disk give {short(want[k] if k < len(want) else None)} ({len(got_i)} entries, {len(want)} manifests)",
                    "world/chain/entries",
                )
        else:
            for e in got_i:
                if e not in want:
                    self.v(f"{rel}: entry {short(e)} matches no manifest on disk", "world/chain/entries")

    def final(self):
        """at the end of a scenario (possibly in another time zone than the writes): all readers still agree"""
        for d in all_manifest_dirs(self.tmp):
            for n in sorted(os.listdir(d)):
                if n.endswith(".mhl"):
                    mf = os.path.join(d, n)
                    try:
                        iv = indep_view(mf)[0]
                        tv = tool_read(mf)[0]
                    except Exception as ex:
                        self.v(f"{os.path.relpath(mf, self.tmp)}: unreadable at the end of the scenario: {ex!r}", "world/final/unreadable")
                        continue
                    report(self.run, self.cid, iv, tv, "independent-reader extracts", "tool-reader returns", "world-final", os.path.relpath(mf, self.tmp), {"steps": self.log[-6:]})
        return {"case": self.cid, "steps": len(self.log), "manifests": len(self.known), "violations": len(self.run.violations) - self.nviol}


def spell(w, how):
    if how == "abs":
        return w.root, None
    if how == "slash":
        return w.root + os.sep, None
    if how == "rel":
        return os.path.basename(w.root), w.tmp
    if how == "dot":
        return ".", w.root
    if how == "dotdot":
        sub = os.path.join(w.tmp, "elsewhere")
        os.makedirs(sub, exist_ok=True)
        return os.path.join("..", os.path.basename(w.root)), sub
    raise ValueError(how)


def name_ok(t):
    return "/" not in t and t not in (".", "..", "") and len(t.encode("utf8")) <= 200 and "\x00" not in t


def creator_for(i):
    t = TEXTS[i % len(TEXTS)]
    u = TEXTS[(i * 7 + 3) % len(TEXTS)]
    variants = [
        {},
        {"author_name": t, "author_email": u, "author_phone": t, "author_role": u, "location": t, "comment": u},
        {"author_email": t},
        {"author_role": u, "comment": t},
        {"author_name": u, "location": ""},
        {"comment": "", "author_name": "-", "author_phone": u},
        {"location": u},
    ]
    return variants[i % len(variants)]


SPECIAL_TREE = {}
for _i, _t in enumerate(t for t in TEXTS if name_ok(t)):
    SPECIAL_TREE[f"{_t}"] = f"file {_i}"
    if _i % 3 == 0:
        SPECIAL_TREE[f"D {_t}/{_t}.bin"] = f"nested {_i}"
SPECIAL_TREE["empty dir \u00e9/"] = ""
SPECIAL_TREE["zero&.bin"] = b""


def world_cases(run, rnd):
    thorough = run.tier == "thorough"
    fsets = S.format_sets(run.tier)

    # W1 every pooled tree x nested placement x format set x root spelling: create, create again, verify
    trees = dict(S.TREES)
    nested = dict(S.NESTED)
    trees["special"] = SPECIAL_TREE
    sdirs = sorted({k.split("/")[0] for k in SPECIAL_TREE if "/" in k and not k.endswith("/")})
    nested["special"] = [[], [sdirs[0]], [sdirs[1], sdirs[-1]]]
    # names that begin / end with a blank, also as roots of nested histories (reference paths begin with the folder name)
    trees["blanks"] = {" Dailies/a.mov": "a", " Dailies/ in/b.mov": "b", "Sound /c.wav": "c", " lead.txt": "l", "trail.txt ": "t", "plain/p.bin": "p"}
    nested["blanks"] = [[], [" Dailies"], ["Sound ", " Dailies"], [" Dailies/ in", "plain"]]
    trees["links"] = {"real/a.bin": "aaaa", "real/b c.bin": "b", "l&nk.bin": ("link", "real/a.bin"), "d/up.bin": ("link", "../real/b c.bin")}
    nested["links"] = [[], ["real"]]
    idx = 0
    for tree in trees:
        for ni, nest in enumerate(nested[tree]):
            for fi, fmts in enumerate(fsets if (thorough or tree in ("names", "special")) else fsets[:2]):
                for how in ("abs", "slash", "rel", "dot", "dotdot") if (fi == 0 or thorough) else ("abs",):
                    idx += 1
                    cid = f"world/tree/{tree}/{ni}/{'+'.join(fmts)}/{how}"

                    def case(tree=tree, nest=nest, fmts=fmts, how=how, cid=cid, idx=idx):
                        rootname = ["t", "r&d <1>", "sp ace", "\u00e9\u2028x", "e\u0301"][idx % 5]
                        w = World(run, cid, trees[tree], name=rootname)
                        for j, nr in enumerate(nest):
                            w.create(target=os.path.join(w.root, nr), fmts=fmts, creator=creator_for(idx + j + 1), tag=f"create nested {nr!r}")
                        arg, cwd = spell(w, how)
                        w.create(fmts=fmts, creator=creator_for(idx), arg=arg, cwd=cwd)
                        w.create(fmts=fmts[:1], creator=creator_for(idx + 3), arg=arg, cwd=cwd)
                        w.verify_ok()
                        return w.final()

                    yield cid, ("tree", tree, ni, tuple(fmts), how), case

    # W2 long histories: >= 11 generations with changing formats, -n, -sf, failed generation, patterns, flatten
    for gi, ngen in enumerate([12] + ([25, 40] if thorough else [])):
        for variant in ("plain", "nested"):
            cid = f"world/generations/{ngen}/{variant}"

            def case(ngen=ngen, variant=variant, cid=cid, gi=gi):
                tree = dict(S.TREES["deep"])
                tree.update({"a&b <c>.txt": "amp", "\u00e9/e\u0301.bin": "nfc-nfd", "big.bin": b"\x01" * ((1 << 20) + 1) if gi == 0 and variant == "plain" else b"\x01" * 70000})
                w = World(run, cid, tree, name="hist \u00fc&")
                r = random.Random(f"{run.seed}/{cid}")
                if variant == "nested":
                    w.create(target=os.path.join(w.root, "A"), fmts=["md5"])
                    w.create(target=os.path.join(w.root, "A", "deep"), fmts=["c4"])
                specfile = os.path.join(w.tmp, "patterns \u00e9.txt")
                with open(specfile, "w", encoding="utf8") as f:
                    f.write("*.tmp\n\n!keep me.tmp\nsub dir/\n/B/ignored*\n")
                lines = ["*.tmp", "!keep me.tmp", "sub dir/", "/B/ignored*"]
                cur = "a&b <c>.txt"
                for g in range(ngen):
                    fm = [["md5"], ["md5", "c4"], ["xxh64"], ["sha1", "xxh3", "xxh128"], ["c4", "md5", "md5"], FORMATS][g % 6]
                    kind = g % 12
                    cr = creator_for(g + gi)
                    if kind == 3:
                        w.create(fmts=fm, extra=["-n"], creator=cr, dirhash=False)
                    elif kind == 4:
                        if variant == "plain":
                            w.create(fmts=fm, extra=["-sf", os.path.join(w.root, "A", "a.txt"), "-sf", os.path.join(w.root, "c.txt"), "-sf", os.path.join(w.root, "c.txt")], creator=cr, dirhash=False)
                        else:  # relative spellings, cwd is not the root
                            rn = os.path.basename(w.root)
                            w.create(fmts=fm, extra=["-sf", os.path.join(rn, "A", "a.txt"), "-sf", os.path.join(rn, "A", "deep", "..", "deep", "x.bin"), "-sf", os.path.join(".", rn, "c.txt")], creator=cr, dirhash=False, arg=rn, cwd=w.tmp)
                    elif kind == 5:
                        # same size, same mtime, other content: a failed generation
                        p = os.path.join(w.root, "B", "b.txt")
                        st = os.stat(p)
                        with open(p, "wb") as f:
                            f.write(b"X")
                        os.utime(p, ns=(st.st_atime_ns, st.st_mtime_ns))
                        w.create(fmts=fm, creator=cr, expect=(11,))
                        with open(p, "wb") as f:
                            f.write(b"b")
                        os.utime(p, ns=(st.st_atime_ns, st.st_mtime_ns))
                    elif kind == 6:
                        w.create(fmts=fm, creator=cr, patterns=["*.log", "*.log", "x/y.bin", "tmp dir/", "caf\u00e9*", "<a&b>"])
                    elif kind == 7:
                        W.build(w.root, {f"new \u2028file {g}.bin": f"g{g}", "sub dir/hidden.bin": "h", "keep me.tmp": "k", "other.tmp": "o", "B/ignored 1": "i"})
                        w.create(fmts=fm, creator=cr, spec_file=(specfile, lines, os.path.basename(specfile)), cwd=w.tmp, arg=os.path.basename(w.root))
                    elif kind == 8:
                        w.create(fmts=fm, creator=cr, patterns=["!*.log", "!c.txt"])
                    elif g == 1:
                        # (-dr is only used while every generation lists every entry: it aborts on folders otherwise)
                        os.rename(os.path.join(w.root, cur), os.path.join(w.root, f"ren {g} >&<.txt"))
                        w.create(fmts=fm, creator=cr, extra=["-dr"])
                        iv = indep_view(W.manifests(w.root)[-1])[0]
                        r9 = iv["records"].get(f"ren {g} >&<.txt")
                        if r9 is None or r9["prev"] != cur:
                            w.v(f"create -dr after renaming {cur!r}: previousPath of the new name is {r9['prev'] if r9 else '<no record>'!r}", "world/records.prev")
                        cur = f"ren {g} >&<.txt"
                    else:
                        w.create(fmts=fm, creator=cr)
                if variant == "plain":
                    w.flatten(os.path.join(w.tmp, "out &1"), creator={"author_name": "fl\u00e4t <&>", "comment": " c "})
                    w.flatten("out2", cwd=w.tmp, arg=os.path.basename(w.root))
                return w.final()

            yield cid, ("generations", ngen, variant), case

    # W3 renames detected with -dr: previous paths
    pairs = [("a&b.txt", "c<d>.txt"), ("sp ace.bin", " lead.bin"), ("\u00e9.bin", "e\u0301.bin"), ("e\u0301 2.bin", "\u00e9 2.bin"), ("x\u2028y", "x\u2029y"), ("q'uote", 'q"uote'), ("plain.bin", "&amp;.bin")]
    if thorough:
        names = [t for t in TEXTS if name_ok(t)]
        pairs += [(names[i], names[(i * 5 + 1) % len(names)] + ".r") for i in range(len(names))]
    for pi, (old, new) in enumerate(pairs):
        for deep in (False, True):
            cid = f"world/rename/{pi}/{'deep' if deep else 'top'}"

            def case(old=old, new=new, deep=deep, cid=cid, pi=pi):
                pre = "dir &/sub \u00e9/" if deep else ""
                w = World(run, cid, {pre + old: f"payload {pi}", "stay.bin": "s", "other/x.bin": "x"})
                fm = [["md5"], ["c4"], ["xxh64", "sha1"]][pi % 3]
                w.create(fmts=fm)
                os.rename(os.path.join(w.root, pre + old), os.path.join(w.root, pre + new))
                w.create(fmts=fm, extra=["-dr"], creator=creator_for(pi))
                mf = W.manifests(w.root)[-1]
                iv = indep_view(mf)[0]
                r = iv["records"].get(pre + new)
                if r is None or r["prev"] != pre + old:
                    w.v(f"after renaming {pre + old!r} to {pre + new!r} and create -dr the record of the new name carries previousPath {r['prev'] if r else '<no record>'!r}", "world/records.prev")
                w.create(fmts=fm)
                w.verify_ok()
                return w.final()

            yield cid, ("rename", pi, deep), case
    # renamed folder that holds a nested history
    cid = "world/rename/nested-folder"

    def case_rn(cid=cid):
        w = World(run, cid, {"Clips &/x.mov": "x", "Clips &/sub/y.mov": "y", "Clips_proxy/p.mov": "p", "Clips &.txt": "t"})
        w.create(target=os.path.join(w.root, "Clips &"), fmts=["md5"])
        w.create(fmts=["md5"])
        w.rename("Clips &", "Clips <2>")
        w.create(fmts=["md5"], extra=["-dr"], expect=(0, 10, 30))
        return w.final()

    yield cid, ("rename", "nested-folder"), case_rn

    # W4 creator options: the whole text pool through the command line
    for i, t in enumerate(TEXTS):
        if not thorough and i % 2 and i > 12:
            continue
        cid = f"world/creator/{i}"

        def case(i=i, t=t, cid=cid):
            w = World(run, cid, {"a.txt": "a", "d/b.txt": "b"})
            full = {"author_name": t, "author_email": t, "author_phone": t, "author_role": t, "location": t, "comment": t}
            w.create(target=os.path.join(w.root, "d"), fmts=["md5"], creator=full)
            w.create(fmts=["md5"], creator=full)
            keys = list(full)
            sub = {k: full[k] for j, k in enumerate(keys) if (i >> (j % 4)) & 1 or j == i % 6}
            w.create(fmts=["c4"], creator=sub)
            w.flatten(os.path.join(w.tmp, "o"), creator=full)
            return w.final()

        yield cid, ("creator", i), case

    # W5 time zones: file mtimes around the switches, generations written in different zones, flatten in a third
    for zi, tz in enumerate(TZS):
        cid = f"world/tz/{zi}"

        def case(zi=zi, tz=tz, cid=cid):
            try:
                set_tz(tz)
                tree = {f"f{k}.bin": f"{k}" for k in range(len(INSTANTS))}
                tree.update({"sub/g.bin": "g"})
                w = World(run, cid, tree)
                for k, ts in enumerate(INSTANTS):
                    os.utime(os.path.join(w.root, f"f{k}.bin"), (ts, ts + 0.75))
                os.utime(os.path.join(w.root, "sub"), (INSTANTS[5], INSTANTS[5]))
                w.create(fmts=["md5"], creator={"comment": tz})
                set_tz(TZS[(zi + 1) % len(TZS)])
                w.create(fmts=["md5", "c4"])
                set_tz(TZS[(zi + 2) % len(TZS)])
                w.flatten(os.path.join(w.tmp, "out"))
                w.verify_ok()
                set_tz(TZS[(zi + 3) % len(TZS)])
                return w.final()
            finally:
                set_tz(None)

        yield cid, ("tz", tz), case

    # W6 ignore patterns in every form, given by -i and by -ii (relative spelling, other cwd), repeated options
    pats = [["*.txt"], ["sub dir/"], ["a/b.bin", "/c.txt"], ["caf\u00e9*", "e\u0301*"], ["a&b*", "<x>", "]]>"], [" spaced", "trail "], ["#c", "\\#d"], ["x", "x", "!x"], ["**/deep/*.bin", "!keep.bin"]]
    for pi, ps in enumerate(pats):
        for via in ("i", "ii"):
            cid = f"world/ignore/{pi}/{via}"

            def case(ps=ps, via=via, cid=cid, pi=pi):
                w = World(run, cid, {"a/b.bin": "1", "c.txt": "2", "sub dir/k.bin": "3", "caf\u00e9.bin": "4", "a&b.bin": "5", "x": "6", "deep/keep.bin": "7", "deep/z.bin": "8", "<x>": "9"})
                if pi % 2:
                    w.create(target=os.path.join(w.root, "a"), fmts=["md5"])
                if via == "i":
                    w.create(fmts=["md5", "md5"], patterns=ps)
                else:
                    sf = os.path.join(w.tmp, "spec dir", "ignore & spec.txt")
                    os.makedirs(os.path.dirname(sf))
                    with open(sf, "w", encoding="utf8") as f:
                        f.write("\n".join(ps) + "\n")
                    uniq = list(dict.fromkeys(ps))
                    w.create(fmts=["md5"], spec_file=(sf, uniq, os.path.join("..", "spec dir", "ignore & spec.txt")), cwd=w.root, arg=".")
                w.create(fmts=["c4"], patterns=["!c.txt", "later/"])
                w.create(fmts=["md5"])
                return w.final()

            yield cid, ("ignore", pi, via), case

    # W7 sizes at the block boundaries and empty things
    cid = "world/sizes"

    def case_sz(cid=cid):
        M = 1 << 20
        w = World(run, cid, {"z0.bin": b"", "m-1.bin": b"a" * (M - 1), "m.bin": b"b" * M, "m+1.bin": b"c" * (M + 1), "E/": "", "E2/E3/": ""})
        w.create(fmts=["md5", "xxh64"])
        w.create(fmts=["c4"])
        w.verify_ok()
        e = World(run, cid, {})
        e.create(fmts=["md5"])
        e.create(fmts=["md5"])
        e.final()
        return w.final()

    yield cid, ("sizes",), case_sz

    # W8 killed runs: whatever reached its final name must read back; the next create must write readable files
    ks = list(range(1, 60)) if thorough else [1, 2, 3, 5, 8, 13]
    for k in ks:
        cid = f"world/crash/{k}"

        def case(k=k, cid=cid):
            w = World(run, cid, {"a&b.txt": "1", "n/\u00e9.bin": "22", "n/deep/x.bin": "3"})
            w.create(target=os.path.join(w.root, "n"), fmts=["md5"])
            w.create(fmts=["md5"])
            env = dict(os.environ)
            env["PYTHONPATH"] = os.pathsep.join([os.environ.get("VERIF_REPO", "/repo"), os.path.dirname(os.path.dirname(os.path.abspath(__file__)))])
            p = subprocess.run([sys.executable, "-c", CRASH_CHILD, str(k), w.root], env=env, capture_output=True, text=True, timeout=120)
            w.log.append(f"create killed at write event {k}: exit {p.returncode}")
            ctx = {"t0": time.time() - 60, "t1": time.time(), "fmts": ["md5", "c4"], "creator": {"comment": "killed <&>"}, "patterns": [], "process": "in-place", "no_dirhash": False, "dirhash": True, "target": w.root, "strict_chain": False}
            w.audit(None, ctx)
            # next commands, among them another create
            w.create(fmts=["md5"], expect=None, strict_chain=False, tag="create after the kill")
            info = w.final()
            info["killed_exit"] = p.returncode
            return info

        yield cid, ("crash", k if k < 40 else 40), case


CRASH_CHILD = r"""
import os, sys
k = int(sys.argv[1]); root = sys.argv[2]
import builtins
count = [0]
def tick():
    count[0] += 1
    if count[0] >= k:
        os._exit(99)
class Proxy:
    def __init__(self, f): self._f = f
    def write(self, b):
        count[0] += 1
        if count[0] >= k:
            self._f.write(b[: len(b) // 2]); self._f.flush(); os._exit(99)
        return self._f.write(b)
    def __getattr__(self, n): return getattr(self._f, n)
def wrapped_open(path, mode="r", *a, **kw):
    f = builtins.open(path, mode, *a, **kw)
    if "w" in mode or "a" in mode:
        tick()
        return Proxy(f)
    return f
from ascmhl import hashlist_xml_parser as HP, chain_xml_parser as CP, commands
HP.open = wrapped_open; CP.open = wrapped_open
_replace = os.replace
def replace(a, b):
    tick(); r = _replace(a, b); tick(); return r
os.replace = replace
from click.testing import CliRunner
r = CliRunner().invoke(commands.create, [root, "-h", "md5", "-h", "c4", "--comment=killed <&>"])
sys.exit(r.exit_code)
"""


def main():
    run = Run(
        "C10",
        rule="case = one written object (model layer: spec -> model object -> real writer -> tool's reader + independent ElementTree "
        "reader, expectation computed from the spec) or one command sequence on a small world (world layer: the object handed to the "
        "writer is photographed at the call boundary and compared with both re-read forms, and names / sizes / digests / directory "
        "hashes / creator options / patterns / references / chain entries are compared with the disk); non-trivial = distinct "
        "(dimension, value) of the enumeration; every field of every written manifest and chain file is compared",
        bound="text pool of 42 strings without control characters (blanks, NFC/NFD, XML-special, ]]>, entity look-alikes, U+2028/2029, "
        "BOM, bidi, astral, 240 chars) in every text position; all 63 format subsets x action rotations; sizes 0..10^30; 16 instants x 6 "
        "POSIX TZ strings incl. repeated hours + 6 explicit offsets; 0..3 authors x field masks; 0..20 patterns; 0..3 references; chain "
        "of 1..13 entries; 0..300 records; 200 random mixtures (quick) | larger in every dimension (thorough); worlds: 12 trees (<= 60 "
        "entries) x nested placements (<= 3 levels) x format sets x 5 root spellings, 12-generation histories (25/40 thorough) with -n, "
        "-sf, failed, -i/-ii/negation, -dr, flatten; 6 time zones; create killed at write event k (6 values quick, 59 thorough)",
    )
    rnd = random.Random(run.seed)
    tz0 = os.environ.get("TZ")
    for gen in (model_cases, world_cases):
        for cid, key, thunk in gen(run, rnd):
            if not run.want(cid):
                continue
            before = len(run.violations)
            tc = time.time()
            try:
                info = thunk()
            except Exception as ex:  # a crash of the driver's own plumbing must not pass silently
                import traceback

                info = None
                run.violation(cid, f"driver could not complete the case: {ex!r} {traceback.format_exc()[-600:]}", "driver/exception")
            if os.environ.get("C10_TIMES") and time.time() - tc > 0.5:
                print(f"{time.time() - tc:6.2f}s {cid}", file=sys.stderr)
            run.case(cid, key, sample=info if isinstance(info, dict) else {"case": cid, "violations": len(run.violations) - before})
    if tz0 is None:
        os.environ.pop("TZ", None)
    else:
        os.environ["TZ"] = tz0
    run.finish()


if __name__ == "__main__":
    main()
