"""C04 bounded part: sequences of generations over files whose content is kept / altered / restored, with every
non-empty format subset per generation, in root and nested histories, folder mode and -sf mode.

Oracle (from the statement only): after every `create` run the new generation of the history that owns a file is read
with xml.etree, the earlier generations of the same history are read from disk in generation order, and

* every recorded digest must be the digest of the bytes that were on disk during the run (hashlib / xxhash),
* in the first generation of the history that records the path every digest is 'original', later none is,
* later a digest in an already recorded format is 'verified' iff it equals the EARLIEST recorded digest of that
  format for that path, 'failed' otherwise; a failed check is present in the new generation,
* a digest in a format that is new for the path appears only next to a verified digest of an already recorded
  format, is marked 'verified', and does not appear at all when a check of that run failed,
* at least one already recorded format is checked in every later generation that records the path, every requested
  already recorded format is checked, and on unaltered content every requested format is recorded,
* the exit code is 0 when no file in scope differs from its first record (and nothing aborts), 11 otherwise.
"""
import itertools
import os
import random
import re
import shutil
import tempfile
import time

from . import scen as S
from . import world as W
from .common import Run

ALLF = list(W.FORMATS)  # md5 sha1 xxh128 xxh3 xxh64 c4
DEFAULT_FORMAT = "xxh128"  # what `create` uses without -h (only used to know the *requested* set)
M = 1 << 20


# ------------------------------------------------------------------------------------------------ world model
class File:
    """one file of a world: `pattern[k]` is the content variant during step k ('-' = does not exist yet)"""

    def __init__(self, rel, pattern, stealth=False, kind="plain"):
        self.rel = rel
        self.name0 = rel  # the content is derived from the first name, so a rename step keeps the bytes
        self.pattern = pattern
        self.stealth = stealth  # edits keep size and mtime
        self.kind = kind  # plain | empty | big<N> | link

    def content(self, v):
        if self.kind == "empty":
            return b"" if v == "A" else v.encode()
        if self.kind.startswith("big"):
            n = int(self.kind[3:])
            body = (self.name0.encode("utf8") + b"|") * (n // (len(self.name0.encode("utf8")) + 1) + 1)
            return body[: n - 1] + v.encode()
        return (self.name0 + "|" + v).encode("utf8")


def apply_edits(root, files, k):
    """bring every file to the content of step k (sizes stay equal; stealth files also keep their mtime)"""
    for f in files:
        v = f.pattern[k] if k < len(f.pattern) else f.pattern[-1]
        if v == "-":
            continue
        p = os.path.join(root, f.rel)
        want = f.content(v)
        if os.path.lexists(p):
            with open(p, "rb") as fh:
                if fh.read() == want:
                    continue
            st = os.stat(p)
            with open(p, "wb") as fh:
                fh.write(want)
            if f.stealth:
                os.utime(p, ns=(st.st_atime_ns, st.st_mtime_ns))
        else:
            os.makedirs(os.path.dirname(p), exist_ok=True)
            if f.kind == "link":
                tgt = os.path.join(os.path.dirname(root), "outside_" + os.path.basename(f.rel))
                with open(tgt, "wb") as fh:
                    fh.write(want)
                os.symlink(tgt, p)
            else:
                with open(p, "wb") as fh:
                    fh.write(want)


def present(root, files, k):
    return [f for f in files if (f.pattern[k] if k < len(f.pattern) else f.pattern[-1]) != "-"]


# ------------------------------------------------------------------------------------------------ independent readers
def gen_number(path):
    m = re.match(r"^(\d{4,})_", os.path.basename(path))
    return int(m.group(1)) if m else 10**9


def ordered_manifests(hroot):
    return sorted(W.manifests(hroot), key=lambda p: (gen_number(p), p))


def file_record(manifest, rel_posix):
    recs = [r for r in manifest["records"] if not r["is_dir"] and r["path"] == rel_posix]
    return recs


def earliest_digests(prior, rel_posix):
    """(was the path recorded at all, {format: earliest recorded digest}) over the parsed manifests `prior` in order"""
    seen, first = False, {}
    for m in prior:
        for r in file_record(m, rel_posix):
            seen = True
            for e in r["entries"]:
                first.setdefault(e["format"], e["digest"])
    return seen, first


# ------------------------------------------------------------------------------------------------ one generation
MODES = ["abs", "slash", "rel", "dot", "n", "sfall", "sfhalf", "sfdir", "dup", "default"]
DFS_MODES = [m for m in MODES if m != "default"]  # 'default' replaces the requested formats, so it is kept out of the exhaustive part


def command_for(root, mode, fmts, files_now, target=""):
    """returns (args, cwd, requested formats, scope = root-relative paths the run must record, run root (abs))"""
    troot = os.path.join(root, target) if target else root
    parent, base = os.path.dirname(troot), os.path.basename(troot)
    below = [f.rel for f in files_now if not target or f.rel.startswith(target + os.sep)]
    h = S.hargs(fmts)
    req = list(fmts)
    if mode == "abs":
        return [troot] + h, None, req, below, troot
    if mode == "slash":
        return [troot + os.sep] + h, None, req, below, troot
    if mode == "rel":
        return [base] + h, parent, req, below, troot
    if mode == "dot":
        return ["."] + h, troot, req, below, troot
    if mode == "n":
        return [troot, "-n"] + h, None, req, below, troot
    if mode == "dup":
        return [troot] + h + h + ["-v"], None, req, below, troot
    if mode == "default":
        return [troot], None, [DEFAULT_FORMAT], below, troot
    if mode == "sfall":
        a = [troot] + h
        for r in below:
            a += ["-sf", os.path.join(root, r)]
        return a, None, req, below, troot
    if mode == "sfhalf":
        # every other file, spelled relative to a cwd that is not the root; the first one twice
        sel = sorted(below)[::2]
        a = [troot] + h
        for r in sel[:1] + sel:
            a += ["-sf", os.path.relpath(os.path.join(root, r), parent)]
        return a, parent, req, sel, troot
    if mode == "sfdir":
        # top-level folders as -sf folders, one file below a folder in addition, top-level files not at all
        tops = sorted({os.path.relpath(os.path.join(root, r), troot).split(os.sep)[0] for r in below if os.sep in os.path.relpath(os.path.join(root, r), troot)})
        if not tops:
            return command_for(root, "sfall", fmts, files_now, target)
        sel = [r for r in below if os.sep in os.path.relpath(os.path.join(root, r), troot)]
        a = [troot] + h
        for t in tops:
            a += ["-sf", os.path.join(troot, t)]
        a += ["-sf", os.path.join(root, sel[0])]
        return a, None, req, sel, troot
    raise ValueError(mode)


def step(run, cid, root, files, k, fmts, mode, target="", patterns=None, check=True, extra=(), tz=None):
    """edit the tree for step k, run one create, compare the new generation(s) with the statement"""
    apply_edits(root, files, k)
    now = present(root, files, k)
    os.makedirs(os.path.join(root, target), exist_ok=True)
    args, cwd, req, scope, troot = command_for(root, mode, fmts, now, target)
    args = args + list(extra)
    pats = list(W.DEFAULT_IGNORE) + list(patterns or [])
    if patterns:
        spec = W.spec_of(pats)
        scope = [r for r in scope if not W.ignored(os.path.relpath(os.path.join(root, r), troot), spec)]
    hroots = [""] + W.nested_roots(troot)  # relative to the run root
    before = {h: ordered_manifests(os.path.join(troot, h) if h else troot) for h in hroots}
    old_tz = os.environ.get("TZ")
    if tz is not None:
        os.environ["TZ"] = tz
        time.tzset()
    try:
        code, out, exc = W.run("create", args, cwd=cwd)
    finally:
        if tz is not None:
            if old_tz is None:
                os.environ.pop("TZ", None)
            else:
                os.environ["TZ"] = old_tz
            time.tzset()
    if not check:
        return code
    inp = {"args": [a.replace(run.tmp, "$TMP") for a in args], "step": k, "formats": fmts, "mode": mode, "target": target}
    if exc is not None:
        run.violation(cid, f"create aborts with {exc!r} (exit {code}) at generation step {k} with formats {fmts}: {out[-200:]}", "abort", inp=inp)
        return code
    expected_fail = []
    parsed = {}
    for h in hroots:
        hp = os.path.join(troot, h) if h else troot
        parsed[h] = [(p, W.read_manifest(p)) for p in ordered_manifests(hp)]
    for rel in scope:
        ap = os.path.join(root, rel)
        trel = os.path.relpath(ap, troot)
        h = W.owner_of(trel, hroots[1:])
        hp = os.path.join(troot, h) if h else troot
        hrel = (os.path.relpath(ap, hp)).replace(os.sep, "/")
        with open(ap, "rb") as fh:
            data = fh.read()
        prior = [m for p, m in parsed[h] if p in before[h]]
        new = [m for p, m in parsed[h] if p not in before[h]]
        seen, first = earliest_digests(prior, hrel)
        altered = sorted(f for f, d in first.items() if W.DIGEST[f](data) != d)
        if altered:
            expected_fail.append(rel)
        where = f"{rel!r} (history '{h or '.'}', step {k}, requested {req})"
        if len(new) != 1:
            run.violation(cid, f"{where}: {len(new)} new generations in the owning history, expected 1 (exit {code})", "no-generation", inp=inp)
            continue
        recs = file_record(new[0], hrel)
        gname = os.path.basename(new[0]["file"])
        if len(recs) == 0:
            what = "the failed check is not recorded" if altered else "the file is not recorded"
            run.violation(cid, f"{where}: no record for {hrel!r} in {gname}: {what} (exit {code})", "failed-not-recorded" if altered else "not-recorded", inp=inp)
            continue
        if len(recs) > 1:
            run.violation(cid, f"{where}: {len(recs)} separate records for {hrel!r} in {gname}, expected one", "split-record", inp=inp)
            continue
        ent = recs[0]["entries"]
        have = [e["format"] for e in ent]
        for e in ent:
            f, d, a = e["format"], e["digest"], e["action"]
            true = W.DIGEST[f](data)
            if d != true:
                run.violation(cid, f"{where}: {gname} records {f} {d}, the file has {true}", "digest", inp=inp)
            if not seen:
                if a != "original":
                    run.violation(cid, f"{where}: first generation that records the path marks {f} '{a}', expected 'original'", "first-not-original", inp=inp)
                continue
            if a == "original":
                run.violation(cid, f"{where}: {gname} marks {f} 'original' although the path was recorded in an earlier generation", "original-not-first", inp=inp)
                continue
            if f in first:
                wanta = "verified" if d == first[f] else "failed"
                if a != wanta:
                    run.violation(
                        cid,
                        f"{where}: {gname} marks {f} {d} '{a}', the earliest recorded {f} digest is {first[f]}, expected '{wanta}'",
                        "judged-" + ("verified-not-first" if a == "verified" else "failed-but-equal" if a == "failed" else "action"),
                        inp=inp,
                    )
            else:
                ok_ref = [x for x in ent if x["format"] in first and x["digest"] == first[x["format"]] and x["action"] == "verified"]
                bad_ref = [x for x in ent if x["format"] in first and (x["digest"] != first[x["format"]] or x["action"] == "failed")]
                if bad_ref or altered:
                    run.violation(cid, f"{where}: {gname} adds new format {f} ('{a}') although the check of {[x['format'] for x in bad_ref] or altered} failed", "new-format-after-failed", inp=inp)
                elif not ok_ref:
                    run.violation(cid, f"{where}: {gname} adds new format {f} ('{a}') without a verified already recorded format (recorded so far: {sorted(first)})", "new-format-without-reference", inp=inp)
                elif a != "verified":
                    run.violation(cid, f"{where}: {gname} marks new format {f} '{a}', expected 'verified'", "new-format-action", inp=inp)
        if not seen:
            miss = [f for f in req if f not in have]
            if miss:
                run.violation(cid, f"{where}: first record lacks requested formats {miss} (has {have})", "missing-format", inp=inp)
            continue
        if not [f for f in have if f in first]:
            run.violation(cid, f"{where}: {gname} checks none of the already recorded formats {sorted(first)} (has {have})", "no-reference-check", inp=inp)
        miss = [f for f in req if f in first and f not in have]
        if miss:
            run.violation(cid, f"{where}: requested and already recorded formats {miss} are not judged in {gname} (has {have})", "missing-format", inp=inp)
        if not altered:
            miss = [f for f in req if f not in have]
            if miss:
                run.violation(cid, f"{where}: content equals the first record but requested formats {miss} are not recorded (has {have})", "missing-format", inp=inp)
    want_code = 11 if expected_fail else 0
    if code != want_code:
        run.violation(
            cid,
            f"create exits {code}, expected {want_code} at step {k} (formats {fmts}, mode {mode}); files differing from their first record: {expected_fail[:4]}; output: {out[-200:]}",
            "exit-on-unaltered" if want_code == 0 else "exit-on-failed",
            inp=inp,
        )
    return code


# ------------------------------------------------------------------------------------------------ enumeration helpers
def subsets_of(pool):
    return [list(c) for r in range(1, len(pool) + 1) for c in itertools.combinations(pool, r)]


def tag(fmts):
    return "+".join(fmts)


def dfs_files(kind, depth):
    if kind == "kept":
        pats = ["A" * depth] + ["-" * j + "A" * (depth - j) for j in range(1, depth)]
    else:
        pats = {
            2: ["AA", "AB", "-A"],
            3: ["AAA", "ABB", "AAB", "ABA", "ABC", "-AA", "-AB"],
            4: ["AAAA", "ABBB", "AABB", "AAAB", "ABAA", "ABAB", "ABCA", "AABA", "-AAA", "-ABA", "--AB", "-ABB"],
        }[depth]
    out = []
    for i, p in enumerate(pats):
        d = "d/" if i % 3 == 1 else ("d/e/" if i % 3 == 2 else "")
        out.append(File(f"{d}f_{p.replace('-', '_')}.bin", p, stealth=(i % 2 == 1)))
    return out


def copy_world(src, dst):
    shutil.copytree(src, dst, symlinks=True)


def dfs(run, name, kind, subsets, depth, mode_of, wanted_prefix):
    """all sequences of `subsets` of length 1..depth; every node (= sequence) is one case judged on its last step;
    the world of a node is a copy of its parent's world, so the shared prefix is not replayed"""
    files = dfs_files(kind, depth)
    counter = [0]

    def go(parent_dir, seq):
        k = len(seq)
        for si, fm in enumerate(subsets):
            s2 = seq + [si]
            cid = f"{name}/{kind}/" + ">".join(tag(subsets[i]) for i in s2)
            if not wanted_prefix(cid):
                continue
            counter[0] += 1
            wdir = os.path.join(run.tmp, re.sub(r"[^A-Za-z0-9]+", "_", f"{name}_{kind}_{counter[0]}"))
            if parent_dir is None:
                os.makedirs(os.path.join(wdir, "t"))
            else:
                copy_world(parent_dir, wdir)
            mode = mode_of(s2)
            if run.want(cid):
                run.case(cid, (name, kind, tuple(tuple(subsets[i]) for i in s2), mode), sample={"case": cid, "mode": mode})
            step(run, cid, os.path.join(wdir, "t"), files, k, fm, mode, check=run.want(cid))
            if k + 1 < depth:
                go(wdir, s2)
            shutil.rmtree(wdir, ignore_errors=True)

    go(None, [])


def patterns_for(n, rnd, j):
    """content pattern of length n for the j-th file of a scenario"""
    c = j % 8
    a = 1 + rnd.randrange(max(1, n - 1))  # step of the first alteration (>= 1, so step 0 is always the original)
    b = min(n, a + 1 + rnd.randrange(max(1, n - a)))
    if c == 0:
        return "A" * n
    if c == 1:  # altered and kept altered
        return "A" * a + "B" * (n - a)
    if c == 2:  # altered, restored
        return "A" * a + "B" * (b - a) + "A" * (n - b)
    if c == 3:  # born late, kept
        return "-" * a + "A" * (n - a)
    if c == 4:  # altered, altered again
        return "A" * a + "B" * (b - a) + "C" * (n - b)
    if c == 5:  # born late, altered later
        return ("-" * a + "A" * (b - a) + "B" * (n - b)) if b < n else ("-" * (a - 1) + "A" + "B" * (n - a))
    if c == 6:  # altered only during the last step
        return "A" * (n - 1) + "B"
    return "A" + "B" * (n - 2) + "A"  # altered right after the first record, restored for the last step


class Scenario:
    def __init__(self, name, files, steps, patterns_at=None):
        self.name, self.files, self.steps = name, files, steps
        self.patterns_at = patterns_at or {}


def play(run, sc):
    """steps: list of dicts(fmts, mode, target, extra, tz, add_patterns); each step is one case"""
    cids = [f"{sc.name}/s{k}" for k in range(len(sc.steps))]
    if run.only is not None and run.only not in cids:
        return
    last = max(k for k, c in enumerate(cids) if run.want(c))
    wdir = os.path.join(run.tmp, "sc_" + re.sub(r"[^A-Za-z0-9]+", "_", sc.name))
    root = os.path.join(wdir, "t")
    os.makedirs(root)
    pats = []
    for k, st in enumerate(sc.steps[: last + 1]):
        cid = cids[k]
        pats = pats + list(st.get("add_patterns", []))
        for old_rel, new_rel in st.get("rename", ()):
            # a rename / move between two runs (content and mtime kept); the step's command carries -dr
            os.makedirs(os.path.dirname(os.path.join(root, new_rel)), exist_ok=True)
            os.rename(os.path.join(root, old_rel), os.path.join(root, new_rel))
            for f in sc.files:
                if f.rel == old_rel:
                    f.rel = new_rel
        if run.want(cid):
            run.case(cid, (sc.name, k), sample={"case": cid, "formats": st["fmts"], "mode": st["mode"], "target": st.get("target", "")})
        step(run, cid, root, sc.files, k, st["fmts"], st["mode"], target=st.get("target", ""), patterns=pats, check=run.want(cid), extra=st.get("extra", ()), tz=st.get("tz"))
    shutil.rmtree(wdir, ignore_errors=True)


TZS = ["UTC", "Pacific/Kiritimati", "Etc/GMT+12", "EST5EDT,M3.2.0,M11.1.0", "CET-1CEST,M3.5.0,M10.5.0/3", "Asia/Kathmandu"]


def scenarios(run, seed, thorough):
    """every scenario draws from a generator seeded with (seed, its own name), so a case id determines its world whatever the tier"""
    out = []
    fsets = subsets_of(ALLF)
    P = f"s{seed}/"

    def rsets(rnd, n, pool=None):
        return [rnd.choice(pool or fsets) for _ in range(n)]

    # ---- nested histories (created as steps of their own, in different orders, also after the outer history)
    nested_layouts = [
        ("deep", ["A/deep", "A", ""], None),
        ("deep", ["A", "A/deep", "", "z"], None),
        ("deep", ["", "A", ""], None),  # nested history created after the outer one recorded its files
        ("levels", ["L1/L2/L3", "L1/L2", "L1", ""], None),
        ("levels", ["", "L1/L2", "L1", "L1/L2/L3"], None),
        ("prefix", ["Clips", ""], None),
        ("prefix", ["Clips/sub", "Clips", ""], None),
        ("names", ["sp ace", S.NFD, ""], None),
        ("case", ["Reel_A", ""], None),
    ]
    reps = 3 if thorough else 1
    for li, (tree, creation, _) in enumerate(nested_layouts):
        for rep in range(reps):
            name = f"{P}nested/{tree}/{li}/{rep}"
            rnd = random.Random(name)
            n = len(creation) + (4 if rep == 0 else 5)
            rels = sorted(r for r in S.TREES[tree] if not r.endswith("/"))
            files = [File(r, patterns_for(n, rnd, j + li + rep), stealth=(j % 2 == 0)) for j, r in enumerate(rels)]
            # files exist from the step in which the history that owns them is created at the latest: simplest is to
            # let late-born files be born late everywhere (their first record is then in a later generation)
            targets = list(creation)
            later = ["", "", creation[0], "", creation[-2] if len(creation) > 1 else ""]
            while len(targets) < n:
                targets.append(later[(len(targets) + rep) % len(later)])
            seq = rsets(rnd, n)
            steps = []
            for k in range(n):
                t = targets[k]
                if k < len(creation):
                    mode = "abs"
                else:
                    mode = ["abs", "sfall", "rel", "sfhalf", "dot", "n", "sfdir", "slash"][(k + li + rep) % 8]
                steps.append({"fmts": seq[k], "mode": mode, "target": t})
            out.append(Scenario(name, files, steps))
    # ---- renames between generations, sealed with -dr, followed by plain generations with the renamed file kept / altered:
    # the record under the new path starts a path of its own (first generation that records it: 'original'), every later
    # generation judges it against that first record, and an alteration after the rename is a failed check (exit 11)
    for rep in range(4 if thorough else 2):
        n = 5
        name = f"{P}rename/{rep}"
        rnd = random.Random(name)
        files = [
            File("a.bin", "AAAAA"),
            File("d/moved.bin", "AAAAB" if rep % 2 == 0 else "AAABA", stealth=(rep >= 2)),
            File("d/renamed_kept.bin", "AAAAA"),
            File("e/late.bin", "-AAAB"),
        ]
        seq = rsets(rnd, n) if rep else [["md5"], ["md5"], ["md5", "sha1"], ["sha1"], ["md5"]]
        steps = [{"fmts": seq[k], "mode": "abs"} for k in range(n)]
        steps[1]["rename"] = [("d/moved.bin", "d2/moved_away.bin"), ("d/renamed_kept.bin", "d/renamed_kept_v2.bin")]
        steps[1]["extra"] = ("-dr",)
        # the rename generation must check the format of the old record for the match to be by recorded digest
        steps[1]["fmts"] = sorted(set(seq[0]) | set(seq[1]), key=ALLF.index)
        if rep % 2 == 1:
            steps[2]["rename"] = [("e/late.bin", "e/late_renamed.bin")]
            steps[2]["extra"] = ("-dr",)
            steps[2]["fmts"] = sorted(set(steps[1]["fmts"]) | set(seq[2]), key=ALLF.index)
        out.append(Scenario(name, files, steps))
    # ---- unusual names, empty file, files around 1 MiB, a symbolic link
    for rep in range(3 if thorough else 1):
        n = 5
        name = f"{P}names/{rep}"
        rnd = random.Random(name)
        rels = sorted(S.TREES["names"])
        files = [File(r, patterns_for(n, rnd, j + rep), stealth=(j % 2 == 1)) for j, r in enumerate(rels)]
        files.append(File("z/empty.bin", "AABAB", kind="empty"))
        files.append(File("z/empty_kept.bin", "AAAAA", kind="empty"))
        files.append(File("big/below.bin", "AABBA", stealth=True, kind=f"big{M - 1}"))
        files.append(File("big/at.bin", "ABABA", stealth=True, kind=f"big{M}"))
        files.append(File("big/above.bin", "-AABB", stealth=True, kind=f"big{M + 1}"))
        files.append(File("links/l.bin", "AABAA", kind="link"))
        files.append(File("Clips.txt", "AAABB"))
        files.append(File("Clips_proxy/y.mov", "ABBBB"))
        files.append(File("Clips/x.mov", "AABAA"))
        seq = rsets(rnd, n)
        modes = ["abs", "sfall", "n", "sfhalf", "dot"]
        out.append(Scenario(name, files, [{"fmts": seq[k], "mode": modes[(k + rep) % 5] if k else "abs"} for k in range(n)]))
    # ---- long histories (>= 11 generations), failed / -n / -sf generations inside, changing time zones
    for rep in range(4 if thorough else 2):
        n = 13 if rep % 2 == 0 else 12
        name = f"{P}long/{rep}"
        rnd = random.Random(name)
        files = [
            File("kept.bin", "A" * n),
            File("late2_alter10.bin", "-" + "A" * 9 + "B" * (n - 10), stealth=True),  # first record in generation 2, altered from generation 11 on
            File("alter10.bin", "A" * 10 + "B" * (n - 10)),
            File("alter2_restore11.bin", "A" + "B" * 10 + "A" * (n - 11), stealth=True),
            File("d/blip5.bin", "AAAAABAAAAAAAA"[:n]),
            File("d/late9.bin", "-" * 9 + "A" * (n - 9)),
            File("d/late9_alter11.bin", "-" * 9 + "AA" + "B" * (n - 11)),
            File("d/abc.bin", "AAABBBBCCCCCAA"[:n]),
        ]
        pool = subsets_of(["md5", "sha1", "xxh64", "c4"] if rep % 2 == 0 else ["xxh3", "xxh128", "md5"])
        seq = rsets(rnd, n, pool)
        # generation 2 records every format of the pool; generation 10 checks only one format, generations 11.. check another one
        # on altered content: only a reference taken from generation <= 10 judges them correctly
        seq[1] = pool[-1]
        if rep % 2 == 0:
            seq[9:] = [["md5"], ["sha1"], ["sha1", "c4"], ["c4", "md5"]][: n - 9]
        else:
            seq[9:] = [["md5"], ["xxh3"], ["xxh3", "xxh128"], ["xxh128"]][: n - 9]
        modes = ["abs", "abs", "sfall", "n", "abs", "sfhalf", "abs", "sfdir", "dot", "abs", "abs", "sfall", "abs"]
        steps = [{"fmts": seq[k], "mode": modes[(k + rep) % len(modes)] if k else "abs", "tz": TZS[(k + rep) % len(TZS)]} for k in range(n)]
        out.append(Scenario(name, files, steps))
    # ---- ignore patterns: a file that becomes visible (negation, -ii) is first recorded in a later generation
    ii = os.path.join(run.tmp, "ignore_spec.txt")
    with open(ii, "w") as fh:
        fh.write("!d/\n")
    n = 5
    files = [
        File("a.txt", "AAABB"),
        File("b.txt", "AABBA"),  # ignored in generation 1, visible from generation 2 on
        File("d/c.txt", "AAAAB"),  # ignored until generation 3
        File("d/sub/e.txt", "AAAAA"),
        File("keep.bin", "AAAAA"),
    ]
    seq = rsets(random.Random(P + "ignore/0"), n)
    out.append(
        Scenario(
            P + "ignore/0",
            files,
            [
                {"fmts": seq[0], "mode": "abs", "extra": ["-i", "b.txt", "-i", "d/"], "add_patterns": ["b.txt", "d/"]},
                {"fmts": seq[1], "mode": "abs", "extra": ["-i", "!b.txt"], "add_patterns": ["!b.txt"]},
                {"fmts": seq[2], "mode": "rel", "extra": ["-ii", ii], "add_patterns": ["!d/"]},
                {"fmts": seq[3], "mode": "abs"},
                {"fmts": seq[4], "mode": "n"},
            ],
        )
    )
    # ---- the same history-relative path in the outer and in nested histories (clip.txt, A001/clip.txt, A001/sub/clip.txt):
    # a file that is new in one history while its namesake in another history is already recorded, and the other way round
    for rep, creation in enumerate([["A001", ""], ["A001/sub", "A001", ""], ["", "A001"]]):
        n = len(creation) + 4
        name = f"{P}samename/{rep}"
        rnd = random.Random(name)
        late = len(creation)  # born in the first step after all histories exist
        files = [
            File("clip.txt", ("A" * (late + 1) + "BAB" + "A" * n)[:n], stealth=True),  # recorded early, altered when its namesake is born
            File("A001/clip.txt", ("-" * (late + 1) + "A" * n)[:n]),
            File("A001/other.txt", "A" * n),
            File("A001/sub/clip.txt", ("A" * (late + 2) + "B" * n)[:n], stealth=True),
            File("A001/sub/keep.txt", "A" * n),
            File("sub/clip.txt", ("-" * (late + 2) + "A" * n)[:n]),
            File("zz/clip.txt", ("A" * (late + 1) + "B" + "A" * n)[:n]),
        ]
        seq = rsets(rnd, n)
        steps = [{"fmts": seq[k], "mode": "abs", "target": creation[k] if k < len(creation) else ""} for k in range(n)]
        out.append(Scenario(name, files, steps))
    # ---- the suite's own sequences and the sequence that used to abort, on kept and altered content
    fixed = [
        [["xxh64"], ["md5"]],
        [["xxh64"], ["xxh64", "md5"]],
        [["c4"], ["md5", "sha1"]],
        [["xxh64"], ["md5"], ["xxh64"]],
        [["md5"], ["sha1"], ["sha1", "xxh64"]],
        [["md5"], ["sha1"], ["xxh64"], ["c4"], ["xxh3"], ["xxh128"], ["md5"]],
        [ALLF, ["c4"], ALLF],
        [["c4"], ALLF, ["md5"], ALLF],
    ]
    for i, seq in enumerate(fixed):
        n = len(seq)
        for kind in ("kept", "mixed"):
            if kind == "kept":
                files = [File("a.bin", "A" * n), File("d/late.bin", "-" + "A" * (n - 1))]
            else:
                files = [File("a.bin", "A" * n), File("b.bin", "A" + "B" * (n - 1), stealth=True), File("d/c.bin", "A" * (n - 1) + "B"), File("d/r.bin", ("AB" + "A" * n)[:n])]
            for mode in ("abs", "sfall"):
                out.append(Scenario(f"{P}fixed/{i}/{kind}/{mode}", files, [{"fmts": s, "mode": mode} for s in seq]))
    # ---- seeded random sequences from the whole space (all 63 subsets), length 3..6
    for i in range(120 if thorough else 12):
        name = f"{P}random/{i}"
        rnd = random.Random(name)
        n = 3 + rnd.randrange(4)
        seq = rsets(rnd, n)
        kind = "kept" if i % 2 == 0 else "mixed"
        if kind == "kept":
            files = [File("a.bin", "A" * n), File("d/late.bin", "-" + "A" * (n - 1)), File("d/e/late2.bin", "--" + "A" * (n - 2))]
        else:
            files = [File(f"d{j % 2}/f{j}.bin", patterns_for(n, rnd, j), stealth=(j % 2 == 0)) for j in range(8)]
        modes = [rnd.choice(MODES) for _ in range(n)]
        modes[0] = rnd.choice(["abs", "sfall", "rel", "dup", "sfhalf"])
        steps = [{"fmts": seq[k], "mode": modes[k]} for k in range(n)]
        for st in steps:
            if st["mode"] == "default":
                st["fmts"] = [DEFAULT_FORMAT]
        out.append(Scenario(name, files, steps))
    return out


def main():
    # a memory file system (if there is one) keeps the many small worlds off the disk; everything still lives below run.tmp
    if not os.environ.get("TMPDIR") and os.path.isdir("/dev/shm") and os.access("/dev/shm", os.W_OK | os.X_OK):
        tempfile.tempdir = "/dev/shm"
    run = Run(
        "C04",
        rule="case = one generation step of a world (files with content patterns kept / altered / restored / altered twice / born late, "
        "format-subset sequence, command form per step); every node of the sequence tree is a case, judged on the records of its last "
        "generation against the earliest recorded digests read back from disk; non-trivial = distinct (family, content kind, format "
        "sequence, command form) or (scenario, step)",
        bound="quick: all sequences of length <= 3 over the 7 non-empty subsets of 3 formats (seed-rotated pool) x {all files kept, mixed "
        "alterations} and of length <= 2 over the 22 subsets of size 1, 2, 6 of all six formats, command form rotating over 9 forms (folder abs / slash / relative / '.', -n, repeated -h with -v, -sf all, "
        "-sf every other file relative to another cwd with a repeat, -sf folders); fixed + seeded random sequences over all 63 subsets "
        "(length <= 7, also without -h); nested histories <= 3 levels created before/after the outer one, runs at outer and nested roots; 12-13 generation "
        "histories with failed / -n / -sf generations and changing TZ; names with spaces / NFC / NFD / XML-special / U+2028, prefix "
        "siblings, empty files, files at 1 MiB -1/0/+1, symlink, size+mtime preserving edits; ignore negation and -ii. thorough: "
        "additionally length <= 3 over 15 subsets of 4 formats, length <= 4 over 3 formats, length <= 2 over all 63 subsets, pure folder "
        "and pure -sf variants, 120 random sequences",
    )
    # a case id starts with the seed it was generated under, and --case selects from the thorough enumeration, so that
    # `--case ID` alone replays a case found with any --seed / --tier
    seed = run.seed
    m = re.match(r"^s(\d+)/", run.only or "")
    if m:
        seed = int(m.group(1))
    P = f"s{seed}/"
    thorough = run.tier == "thorough" or run.only is not None
    pools3 = [["md5", "xxh64", "c4"], ["sha1", "xxh3", "xxh128"], ["c4", "md5", "sha1"], ["xxh128", "xxh64", "md5"]]
    pool = pools3[seed % len(pools3)]

    def wanted_prefix(cid):
        if run.only is None:
            return True
        return run.only == cid or run.only.startswith(cid + ">")

    def rot(offset):
        return lambda s2: DFS_MODES[(sum((i + 1) * (j + 2) for j, i in enumerate(s2)) + len(s2) * 3 + offset + seed) % len(DFS_MODES)]

    def fixed_mode(m):
        return lambda s2: m

    wide = [list(c) for r in (1, 2) for c in itertools.combinations(ALLF, r)] + [list(ALLF)]
    families = [("seq3", subsets_of(pool), 3, rot(0)), ("seq2w", wide, 2, rot(4))]
    if thorough:
        families += [
            ("seq3b", subsets_of(pools3[(seed + 1) % 4]), 3, rot(5)),
            ("seq3-folder", subsets_of(pool), 3, fixed_mode("abs")),
            ("seq3-sf", subsets_of(pool), 3, fixed_mode("sfall")),
            ("seq4", subsets_of(pool), 4, rot(3)),
            ("seq3x4", subsets_of(["md5", "sha1", "xxh64", "c4"]), 3, rot(1)),
            ("seq2all", subsets_of(ALLF), 2, rot(2)),
        ]
    for name, subs, depth, mode_of in families:
        for kind in ("kept", "mixed"):
            if run.only is not None and not run.only.startswith(f"{P}{name}/{kind}/"):
                continue
            dfs(run, P + name, kind, subs, depth, mode_of, wanted_prefix)
    for sc in scenarios(run, seed, thorough):
        play(run, sc)
    run.finish()


if __name__ == "__main__":
    main()
