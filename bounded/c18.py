"""C18 bounded part: `flatten` and `verify -pl` on small flat histories against the statement.

Oracle (never the implementation):
  * the source history is read with the independent reader (xml.etree) in the order of the chain file's sequence
    numbers; for every file path ever recorded and every format ever recorded for it the expected digest is the one
    of the earliest entry whose action is not 'failed';
  * for histories made by the real `create` the digests are additionally recomputed from the bytes the file had when
    it was first sealed (hashlib / xxhash / own base-58);
  * the flattened manifest is read with the independent reader: exactly one manifest, process 'flatten', no directory
    record, no path twice, no format twice, path set / format sets / digests as above; the source tree (incl. its
    ascmhl folder) is byte-, mtime- and mode-identical before and after;
  * `verify -pl` exits 0 on the tree whose recorded files all have their first-sealed bytes (when the history covers
    every visible file) and exits non-zero after every single alteration (content edit keeping size and mtime,
    truncation, deletion, added file, rename, swapped contents, file replaced by a directory or a symlink).
Histories that the real `create` cannot produce (a failed entry preceding the first good one of a format, 'verified'
entries with differing digests, generation numbers around 9999/10000) are written by an own manifest/chain writer, so
that "earliest" and "did not fail" are distinguishable from "any".
"""
import os
import random
import shutil
import subprocess
import sys
import time
from xml.sax.saxutils import escape

from . import scen as S
from . import world as W
from .common import REPO, Run

M = 1 << 20
ALL_FORMATS = list(W.FORMATS)

# ------------------------------------------------------------------------------------------------ trees
MY_TREES = {
    # same base names in different folders, identical contents under different paths, empty files, NFC and NFD twins
    "dups": {
        "A/clip.bin": "one",
        "B/clip.bin": "two",
        "clip.bin": "three",
        "A/same1.bin": "same",
        "B/same2.bin": "same",
        "e1.bin": b"",
        "sub/e2.bin": b"",
        "Caf\u00e9.txt": "nfc",
        "Cafe\u0301.txt": "nfd",
    },
    "sizes": {"below.bin": b"\xa5" * (M - 1), "at.bin": b"\x5a" * M, "above.bin": b"\x3c" * (M + 1), "small.txt": "s"},
    "links": {"a.txt": "a", "D/b.txt": "b", "la": ("link", "a.txt"), "D/up": ("link", "../a.txt")},
}


def tree_spec(name):
    return MY_TREES[name] if name in MY_TREES else S.TREES[name]


def tree_files(spec):
    return sorted(k for k, v in spec.items() if not k.endswith("/") and not (isinstance(v, tuple) and v[0] == "link"))


# ------------------------------------------------------------------------------------------------ worlds
class World:
    """a real tree below tmp/t plus the bytes every regular file had when it first appeared ('pristine')"""

    def __init__(self, tmp, spec):
        self.tmp = tmp
        self.root = os.path.join(tmp, "t")
        W.build(self.root, spec)
        self.pristine = {}
        self.kinds = {}  # rel -> 'f' | 'd' as first seen (to notice file/dir conflicts)
        for rel in tree_files(spec):
            self.note(rel)
        self.setup_problem = None
        self.log = []

    def p(self, rel):
        return os.path.join(self.root, rel)

    def note(self, rel):
        if rel not in self.pristine:
            with open(self.p(rel), "rb") as f:
                self.pristine[rel] = (f.read(), os.stat(self.p(rel)).st_mtime_ns)

    def write(self, rel, data, mtime_ns=None):
        if isinstance(data, str):
            data = data.encode("utf8")
        os.makedirs(os.path.dirname(self.p(rel)), exist_ok=True)
        with open(self.p(rel), "wb") as f:
            f.write(data)
        if mtime_ns is not None:
            os.utime(self.p(rel), ns=(mtime_ns, mtime_ns))

    def alter(self, rel):
        """different bytes, same size and same mtime (an empty file gets one byte, mtime kept)"""
        data, mt = self.pristine[rel]
        new = bytes([data[0] ^ 0xFF]) + data[1:] if data else b"!"
        self.write(rel, new, mt)

    def restore(self, rel):
        data, mt = self.pristine[rel]
        if os.path.isdir(self.p(rel)) and not os.path.islink(self.p(rel)):
            shutil.rmtree(self.p(rel))
        elif os.path.lexists(self.p(rel)):
            os.remove(self.p(rel))
        self.write(rel, data, mt)


def C(fmts, extra=(), sf=None):
    return ("create", list(fmts), list(extra), sf)


def do_steps(w, steps):
    """runs the script; ('create', fmts, extra, sf) | ('alter', rel) | ('restore', rel) | ('delete', rel) |
    ('add', rel, data) | ('rmdir', rel) | ('call', fn)"""
    for st in steps:
        k = st[0]
        if k == "create":
            args = [w.root] + S.hargs(st[1]) + st[2]
            for s in st[3] or []:
                args += ["-sf", w.p(s)]
            code, out, exc = W.run("create", args)
            w.log.append(("create", "+".join(st[1]), st[2], st[3], code))
            if exc is not None:
                w.setup_problem = f"create {args[1:]} raised {exc!r}"
                return False
        elif k == "alter":
            w.alter(st[1])
        elif k == "restore":
            w.restore(st[1])
        elif k == "delete":
            os.remove(w.p(st[1]))
        elif k == "rmdir":
            os.rmdir(w.p(st[1]))
        elif k == "add":
            w.write(st[1], st[2])
            w.note(st[1])
        elif k == "call":
            st[1](w)
        if k != "create":
            w.log.append(st[:2])
    return True


# ------------------------------------------------------------------------------------------------ scripts
def scripts_for(tree, spec):
    """name -> step list; F0/F1/FM are the first / last / a middle regular file of the tree"""
    fs = tree_files(spec)
    F0, F1, FM = fs[0], fs[-1], fs[len(fs) // 2]
    txt = [f for f in fs if f.endswith(".txt")]
    out = {
        "one": [C(["md5"])],
        "fmtchange": [C(["md5"]), C(["c4"]), C(["xxh64", "md5"]), C(["sha1", "xxh3", "xxh128"])],
        "failed-restored": [C(["md5"]), ("alter", F0), C(["md5", "c4"]), ("restore", F0), C(["c4"])],
        "failed-left": [C(["md5", "xxh64"]), ("alter", F1), C(["md5"]), C(["sha1"])],
        "failed-newfmt": [C(["xxh64"]), ("alter", FM), C(["c4"]), ("restore", FM), C(["c4", "sha1"]), ("alter", FM), C(["sha1"])],
        "sf-only": [C(["md5"], sf=[F0]), C(["c4"], sf=[F1])],
        "sf-mixed": [
            C(["md5"]),
            C(["c4"], sf=[F0, F0]),
            ("add", "added/new file.bin", "new"),
            C(["xxh64"], sf=["added/new file.bin"]),
            C(["sha1"], sf=[os.path.dirname(F1) or F1]),
        ],
        "sf-first-then-full": [C(["xxh3"], sf=[FM]), C(["md5"]), C(["xxh128", "xxh3"], sf=[F1, FM])],
        "nodirhash": [C(["md5"], ["-n"]), C(["c4"], ["-n"]), C(["c4", "xxh64"])],
        "deleted": [C(["md5"]), ("delete", F0), C(["md5", "c4"]), ("add", "late.bin", "late"), C(["c4"])],
        "ignore": [C(["md5"], ["-i", "*.txt"]), C(["c4"])],
        "ignore-late": [C(["md5"]), C(["md5"], ["-i", "*.txt"]), C(["c4"], ["-i", "!" + os.path.basename(txt[0] if txt else "c.txt"), "-i", "A/deep/"])],
        "ignore-slash": [C(["xxh64"], ["-i", "/" + F0, "-i", "B/"]), C(["md5"], ["-i", "sub/*.bin"])],
        "repeat": [C(["md5", "md5"]), C(["c4", "md5", "c4"], sf=[F0, F0])],
    }
    many = []
    rot = [["md5"], ["c4"], ["xxh64", "md5"], ["sha1"], ["xxh3", "xxh128"], ["md5", "c4"]]
    for i in range(12):
        if i == 4:
            many.append(("alter", FM))
        if i == 7:
            many.append(("restore", FM))
        many.append(C(rot[i % len(rot)], ["-n"] if i == 9 else [], [F0] if i == 10 else None))
    out["many"] = many

    def iifile(w):
        with open(os.path.join(w.tmp, "patterns.txt"), "w", encoding="utf8") as f:
            f.write("*.mov\nsp ace/\n/top.bin\n")

    out["ignore-file"] = [C(["md5"]), ("call", iifile), C(["c4"], ["-ii", "@patterns"])]
    if tree == "deep":
        out["dir-to-file"] = [C(["md5"]), ("rmdir", "E"), ("add", "E", "now a file"), C(["md5", "c4"])]
        out["file-to-dir"] = [C(["md5"]), ("delete", "c.txt"), ("add", "c.txt/inner.bin", "inner"), C(["md5"])]
    return out


def resolve_ii(w, steps):
    """'-ii @patterns' -> the pattern file (once absolute, the world decides)"""
    out = []
    for st in steps:
        if st[0] == "create" and "@patterns" in st[2]:
            st = ("create", st[1], [os.path.join(w.tmp, "patterns.txt") if a == "@patterns" else a for a in st[2]], st[3])
        out.append(st)
    return out


def random_script(rnd, spec, length):
    fs = tree_files(spec)
    recorded, altered, deleted, present = set(), set(), set(), set(fs)
    steps, n_add = [], 0
    while len(steps) < length:
        r = rnd.random()
        if not recorded or r < 0.45:
            fmts = rnd.sample(ALL_FORMATS, rnd.choice([1, 1, 2, 3]))
            extra = ["-n"] if rnd.random() < 0.2 else []
            sf = None
            if rnd.random() < 0.35:
                # -sf only on files that are untouched or already recorded (an altered file that was never sealed has no
                # first-sealed bytes to compare with)
                cand = sorted(present - {f for f in altered if f not in recorded})
                if cand:
                    sf = rnd.sample(cand, min(len(cand), rnd.choice([1, 2])))
            steps.append(C(fmts, extra, sf))
            if sf is None:
                recorded |= present
            else:
                recorded |= set(sf)
        elif r < 0.6:
            cand = sorted((recorded & present) - altered)
            if cand:
                f = rnd.choice(cand)
                altered.add(f)
                steps.append(("alter", f))
        elif r < 0.75:
            cand = sorted(altered | (deleted & recorded))
            if cand:
                f = rnd.choice(cand)
                altered.discard(f)
                deleted.discard(f)
                present.add(f)
                steps.append(("restore", f))
        elif r < 0.85:
            cand = sorted(recorded & present)
            if cand:
                f = rnd.choice(cand)
                present.discard(f)
                altered.discard(f)
                deleted.add(f)
                steps.append(("delete", f))
        else:
            n_add += 1
            f = rnd.choice(["", "A/", "new dir/"]) + f"add{n_add}.bin"
            present.add(f)
            steps.append(("add", f, f"added {n_add}"))
    if steps[-1][0] != "create":
        steps.append(C([rnd.choice(ALL_FORMATS)]))
    return steps


# ------------------------------------------------------------------------------------------------ oracle
def history_expectation(root):
    """from the source manifests (independent reader, chain order): {path: {format: digest|None}} (None: every entry of
    that format failed, the statement names no digest), the trace per (path, format), the last ignore patterns,
    whether the history has renames"""
    chain = sorted(W.read_chain(W.chain_path(root)), key=lambda e: int(e[0]))
    exp, trace, patterns, renames = {}, {}, None, False
    for seq, name, _ in chain:
        m = W.read_manifest(os.path.join(root, "ascmhl", name))
        patterns = m["ignore"]
        for r in m["records"]:
            if r["is_dir"]:
                continue
            if r["previous"]:
                renames = True
            d = exp.setdefault(r["path"], {})
            for e in r["entries"]:
                trace.setdefault((r["path"], e["format"]), []).append((int(seq), e["digest"], e["action"]))
                if e["action"] != "failed" and d.get(e["format"]) is None:
                    d[e["format"]] = e["digest"]
                else:
                    d.setdefault(e["format"], None)
    return exp, trace, patterns or [], renames, len(chain)


def mhl_files(folder):
    out = []
    for dp, _, fns in os.walk(folder):
        for n in fns:
            if n.endswith(".mhl"):
                out.append(os.path.join(dp, n))
    return sorted(out)


def check_manifest(run, cid, mpath, exp, trace, truth=None, wclass="flat"):
    """the flattened manifest against the expectation; returns number of violations added"""
    n0 = len(run.violations)
    m = W.read_manifest(mpath)
    if m["process"] != "flatten":
        run.violation(cid, f"process type of {os.path.basename(mpath)} is {m['process']!r}, expected 'flatten'", f"{wclass}/process-type")
    got = {}
    for r in m["records"]:
        if r["is_dir"]:
            run.violation(cid, f"flattened manifest holds a directory record for {r['path']!r}", f"{wclass}/directory-record")
            continue
        if r["path"] in got:
            run.violation(cid, f"path {r['path']!r} has two records in the flattened manifest", f"{wclass}/duplicate-record")
        got.setdefault(r["path"], []).extend(r["entries"])
    need = {p for p, d in exp.items() if any(v is not None for v in d.values())}
    missing = sorted(need - set(got))
    extra = sorted(set(got) - set(exp))
    if missing:
        run.violation(cid, f"recorded in the history but not in the flattened manifest: {missing[:6]}", f"{wclass}/missing-record", inp={"missing": missing[:20]})
    if extra:
        run.violation(cid, f"in the flattened manifest but never recorded as a file: {extra[:6]}", f"{wclass}/extra-record", inp={"extra": extra[:20]})
    for p in sorted(set(got) & set(exp)):
        byfmt = {}
        for e in got[p]:
            byfmt.setdefault(e["format"], []).append(e["digest"])
        for f, want in sorted(exp[p].items()):
            have = byfmt.get(f, [])
            if want is None:
                continue
            if not have:
                run.violation(cid, f"{p}: format {f} was recorded ({trace[(p, f)][:3]}) but is absent from the flattened record (has {sorted(byfmt)})", f"{wclass}/missing-format")
                continue
            if len(have) > 1:
                run.violation(cid, f"{p}: format {f} occurs {len(have)} times in the flattened record: {have}", f"{wclass}/duplicate-format")
            for h in have:
                if h != want:
                    tr = trace[(p, f)]
                    kind = "digest"
                    if any(d == h and a == "failed" for _, d, a in tr):
                        kind = "failed-digest"
                    elif any(d == h for _, d, _ in tr):
                        kind = "later-digest"
                    run.violation(
                        cid,
                        f"{p}: {f} digest in flattened manifest is {h}, earliest non-failed one in the history is {want} (history: {tr[:5]})",
                        f"{wclass}/{kind}",
                        inp={"path": p, "format": f},
                    )
                elif truth is not None and truth(p, f) is not None and truth(p, f) != h:
                    run.violation(cid, f"{p}: {f} digest {h} is not the digest {truth(p, f)} of the bytes first sealed", f"{wclass}/digest-vs-bytes")
        for f in sorted(set(byfmt) - set(exp[p])):
            run.violation(cid, f"{p}: format {f} in the flattened record was never recorded for this path (recorded: {sorted(exp[p])})", f"{wclass}/extra-format")
    return len(run.violations) - n0


ROOT_SPELLS = ("abs", "slash", "rel", "dot", "elsewhere", "newdest")


def run_flatten(run, cid, w, spell="abs", opts=(), dest_name="out", wclass="flat"):
    """drives flatten with the given spelling; checks exit code, single new manifest, untouched source; returns the
    manifest path or None"""
    dest = os.path.join(w.tmp, dest_name)
    if spell != "newdest":
        os.makedirs(dest, exist_ok=True)
    other = os.path.join(w.tmp, "elsewhere")
    os.makedirs(other, exist_ok=True)
    if spell in ("abs", "newdest"):
        args, cwd = [w.root, dest], None
    elif spell == "slash":
        args, cwd = [w.root + os.sep, dest + os.sep], None
    elif spell == "rel":
        args, cwd = ["t", dest_name], w.tmp
    elif spell == "dot":
        args, cwd = [".", os.path.join("..", dest_name)], w.root
    elif spell == "elsewhere":
        args, cwd = [os.path.join("..", "t"), os.path.join("..", dest_name)], other
    before_src = W.snapshot(w.root)
    before_dst = set(mhl_files(dest)) if os.path.isdir(dest) else set()
    before_tmp = set(os.listdir(w.tmp))
    code, out, exc = W.run("flatten", args + list(opts), cwd=cwd)
    after_src = W.snapshot(w.root)
    ch = W.diff_snap(before_src, after_src)
    if ch:
        run.violation(cid, f"flatten changed the source tree: {ch[:6]}", f"{wclass}/source-modified", inp={"args": args + list(opts)})
    if code != 0 or exc is not None:
        run.violation(cid, f"flatten {args + list(opts)} (cwd {cwd}) exits {code} ({exc!r}): {out[-300:]}", f"{wclass}/exit", inp={"args": args + list(opts)})
        return None
    stray = sorted(set(os.listdir(w.tmp)) - before_tmp - {dest_name})
    if stray:
        run.violation(cid, f"flatten wrote outside its destination: {stray}", f"{wclass}/stray-output")
    new = sorted(set(mhl_files(dest)) - before_dst) if os.path.isdir(dest) else []
    return new


def patterns_after(hist_patterns, opts, w):
    pats = list(hist_patterns)
    it = iter(opts)
    for o in it:
        if o == "-i":
            pats.append(next(it))
        elif o == "-ii":
            with open(next(it), encoding="utf8") as f:
                pats += [l.strip() for l in f if l.strip()]
    return pats


def vpl(w, mpath, spell="abs", extra=()):
    other = os.path.join(w.tmp, "elsewhere")
    os.makedirs(other, exist_ok=True)
    if spell in ("abs", "newdest"):
        args, cwd = [w.root, "-pl", mpath], None
    elif spell == "slash":
        args, cwd = [w.root + os.sep, "-pl", mpath], None
    elif spell == "rel":
        args, cwd = ["t", "-pl", os.path.relpath(mpath, w.tmp)], w.tmp
    elif spell == "dot":
        args, cwd = [".", "-pl", os.path.relpath(mpath, w.root)], w.root
    else:
        args, cwd = [os.path.join("..", "t"), "-pl", os.path.relpath(mpath, other)], other
    code, out, exc = W.run("verify", args + list(extra), cwd=cwd)
    return code, out, exc, args


def conflicts(paths):
    ps = set(paths)
    for p in ps:
        parts = p.split("/")
        for k in range(1, len(parts)):
            if "/".join(parts[:k]) in ps:
                return True
    return False


def check_pl(run, cid, w, mpath, exp, patterns, spell, rnd, limit, kinds=("edit", "delete", "add"), wclass="pl"):
    """verify -pl on the unchanged tree (exit 0) and after single alterations (exit != 0)"""
    if conflicts(exp):
        return  # a path recorded both as file and as folder: no tree satisfies the whole packing list
    spec = W.spec_of(patterns)
    relevant = sorted(p for p in exp if p in w.pristine and not W.ignored(p.replace("/", os.sep), spec))
    changed = []
    for p in relevant:
        fp = w.p(p)
        if not os.path.isfile(fp) or open(fp, "rb").read() != w.pristine[p][0]:
            changed.append(p)
    vis = {p.replace(os.sep, "/") for p, k in W.visible_tree(w.root, patterns).items() if k == "f"}
    covered = vis <= set(exp)
    if changed:
        # the tree still carries the alteration / deletion the script made: this is an altered tree
        code, out, exc, args = vpl(w, mpath, spell)
        if code == 0:
            run.violation(cid, f"verify -pl exits 0 although {changed[:4]} differ from the bytes first sealed", f"{wclass}/altered-accepted/script", inp={"changed": changed})
        for p in changed:
            w.restore(p)
        vis = {p.replace(os.sep, "/") for p, k in W.visible_tree(w.root, patterns).items() if k == "f"}
        covered = vis <= set(exp)
    # "the unchanged tree" = every byte as first sealed: an altered file that the patterns hide can still be the target of a
    # visible symbolic link (tree `links`), so hidden altered files are restored as well before the unchanged tree is verified
    for p in sorted(w.pristine):
        fp = w.p(p)
        if p not in changed and os.path.isfile(fp) and open(fp, "rb").read() != w.pristine[p][0]:
            w.restore(p)
    code, out, exc, args = vpl(w, mpath, spell)
    if covered and (code != 0 or exc is not None):
        run.violation(cid, f"verify {args[:1]} -pl on the unchanged tree exits {code} ({exc!r}): {out[-400:]}", f"{wclass}/unchanged-rejected", inp={"args": args})
    if not relevant:
        return
    targets = relevant if limit is None or len(relevant) <= limit else rnd.sample(relevant, limit)
    for kind in kinds:
        per_file = ("edit", "delete") if limit is not None else ("edit", "delete", "truncate", "append", "rename", "swap")
        for p in targets if kind in per_file else targets[:1]:
            fp = w.p(p)
            data, mt = w.pristine[p]
            undo = lambda: w.restore(p)
            if kind == "edit":
                w.alter(p)
            elif kind == "truncate":
                if not data:
                    continue
                w.write(p, data[:-1], mt)
            elif kind == "append":
                w.write(p, data + b"\n", mt)
            elif kind == "delete":
                os.remove(fp)
            elif kind == "rename":
                os.rename(fp, fp + ".moved")
                undo = lambda: os.rename(fp + ".moved", fp)
            elif kind == "to-emptydir":
                os.remove(fp)
                os.mkdir(fp)
            elif kind == "to-symlink":
                other = os.path.join(w.tmp, "foreign.bin")
                with open(other, "wb") as f:
                    f.write(b"foreign " + data)
                os.remove(fp)
                os.symlink(other, fp)
            elif kind in ("add", "add-sub", "add-newdir"):
                d = {"add": "", "add-sub": os.path.dirname(p), "add-newdir": "brand new"}[kind]
                np = os.path.join(d, "zz unrecorded.bin")
                if W.ignored(np, spec) or os.path.lexists(w.p(np)):
                    continue
                made_dir = not os.path.isdir(w.p(d)) if d else False
                w.write(np, "unrecorded")

                def undo(np=np, d=d, made_dir=made_dir):
                    os.remove(w.p(np))
                    if made_dir:
                        os.rmdir(w.p(d))

            elif kind == "swap":
                cand = [q for q in relevant if q != p and w.pristine[q][0] != data]
                if not cand:
                    continue
                q = cand[0]
                w.write(p, w.pristine[q][0], mt)
                w.write(q, data, w.pristine[q][1])

                def undo(q=q):
                    w.restore(p)
                    w.restore(q)

            code, out, exc, args = vpl(w, mpath, spell)
            undo()
            if code == 0:
                run.violation(
                    cid,
                    f"verify -pl exits 0 on an altered tree ({kind} of {p!r})",
                    f"{wclass}/altered-accepted/{kind}",
                    inp={"kind": kind, "path": p},
                )


def full_check(run, cid, w, spell, opts, rnd, limit, truth=True, kinds=("edit", "delete", "add"), dest_name="out"):
    exp, trace, hpat, renames, ngen = history_expectation(w.root)
    if renames:
        return None
    if "@fp" in opts:
        fp = os.path.join(w.tmp, "flat_patterns.txt")
        with open(fp, "w", encoding="utf8") as f:
            f.write("*.bin\nA/deep/\n")
        opts = [fp if o == "@fp" else o for o in opts]
    new = run_flatten(run, cid, w, spell, opts, dest_name)
    if new is None:
        return None
    if not exp:
        # no file path was ever recorded: the statement's manifest would be empty; the tool may write none
        if len(new) > 1:
            run.violation(cid, f"flatten wrote {len(new)} manifests", "flat/manifest-count")
        for mp in new:
            check_manifest(run, cid, mp, exp, trace)
        return new
    if len(new) != 1:
        run.violation(cid, f"flatten wrote {len(new)} new manifests below the destination, expected exactly one: {[os.path.basename(x) for x in new]}", "flat/manifest-count")
        if not new:
            return new
    mp = new[0]
    tr = None
    if truth:
        tr = lambda p, f: W.DIGEST[f](w.pristine[p][0]) if p in w.pristine else None
        ghost = sorted(p for p in exp if p not in w.pristine and not os.path.islink(w.p(p)))
        if ghost:
            run.violation(cid, f"history records paths that never existed as files: {ghost[:5]}", "setup/ghost-path")
    check_manifest(run, cid, mp, exp, trace, truth=tr)
    check_pl(run, cid, w, mp, exp, patterns_after(hpat, opts, w), spell, rnd, limit, kinds)
    return new


# ------------------------------------------------------------------------------------------------ synthetic histories
def bogus(fmt, tag):
    return W.DIGEST[fmt](("bogus " + tag).encode())


def write_history(root, gens, numbers=None):
    """own writer: gens = [{'files': {path: [(fmt, digest, action), ...]}, 'dirs': {path: [(fmt, content, structure)]},
    'dup': [path...] }]; writes manifests + chain below root/ascmhl"""
    folder = os.path.basename(root)
    d = os.path.join(root, "ascmhl")
    os.makedirs(d, exist_ok=True)
    chain = []
    for i, g in enumerate(gens):
        n = numbers[i] if numbers else i + 1
        j = len(gens) - 1 - i  # creation dates run backwards (a clock that was set wrongly): only the numbers give the order
        day = f"2020-{1 + j // 28:02d}-{1 + j % 28:02d}"
        name = f"{n:04d}_{folder}_{day}_000000Z.mhl"
        x = ['<?xml version="1.0" encoding="UTF-8"?>', '<hashlist version="2.0" xmlns="urn:ASC:MHL:v2.0">']
        x += ["  <creatorinfo>", f"    <creationdate>{day}T00:00:00+00:00</creationdate>", "    <hostname>synthetic</hostname>"]
        x += ['    <tool version="0.0">other-tool</tool>', "  </creatorinfo>", "  <processinfo>", "    <process>in-place</process>", "    <ignore>"]
        x += [f"      <pattern>{escape(p)}</pattern>" for p in g.get("ignore", W.DEFAULT_IGNORE)]
        x += ["    </ignore>", "  </processinfo>", "  <hashes>"]
        for p, ents in g.get("dirs", {}).items():
            x += ["    <directoryhash>", f'      <path lastmodificationdate="{day}T00:00:00+00:00">{escape(p)}</path>', "      <content>"]
            x += [f'        <{f} hashdate="{day}T00:00:01+00:00">{c}</{f}>' for f, c, s in ents]
            x += ["      </content>", "      <structure>"]
            x += [f'        <{f} hashdate="{day}T00:00:01+00:00">{s}</{f}>' for f, c, s in ents]
            x += ["      </structure>", "    </directoryhash>"]
        for p, ents in g["files"].items():
            for _ in range(2 if p in g.get("dup", []) else 1):
                x += ["    <hash>", f'      <path size="{g.get("sizes", {}).get(p, 1)}" lastmodificationdate="{day}T00:00:00+00:00">{escape(p)}</path>']
                x += [f'      <{f} action="{a}" hashdate="{day}T00:00:01+00:00">{dg}</{f}>' for f, dg, a in ents]
                x += ["    </hash>"]
        x += ["  </hashes>", "</hashlist>", ""]
        data = "\n".join(x).encode("utf8")
        with open(os.path.join(d, name), "wb") as f:
            f.write(data)
        chain.append((n, name, W.c4_of_bytes(data)))
    x = ['<?xml version="1.0" encoding="UTF-8"?>', '<ascmhldirectory xmlns="urn:ASC:MHL:DIRECTORY:v2.0">']
    for n, name, c4 in chain:
        x += [f'  <hashlist sequencenr="{n}">', f"    <path>{escape(name)}</path>", f"    <c4>{c4}</c4>", "  </hashlist>"]
    x += ["</ascmhldirectory>", ""]
    with open(os.path.join(d, "ascmhl_chain.xml"), "wb") as f:
        f.write("\n".join(x).encode("utf8"))


SYN_TREE = {"p.bin": "payload", "q/r.txt": "other", "q/a&b <c>.bin": "special", "E": "file named like a folder"}


def synthetic_cases(tier):
    """name -> (generation list builder taking T(path, fmt) -> true digest, numbers)"""

    def base(T, fmts=("md5",), action="original"):
        return {p: [(f, T(p, f), action) for f in fmts] for p in SYN_TREE}

    def failed_first(T):
        g1 = {"files": base(T)}
        g2 = {"files": {"p.bin": [("md5", bogus("md5", "f2"), "failed"), ("c4", bogus("c4", "f2"), "failed")]}}
        g3 = {"files": {"p.bin": [("md5", T("p.bin", "md5"), "verified"), ("c4", T("p.bin", "c4"), "verified")]}}
        g4 = {"files": {"p.bin": [("c4", bogus("c4", "f4"), "failed"), ("sha1", bogus("sha1", "f4"), "failed")], "q/r.txt": [("sha1", bogus("sha1", "r4"), "failed")]}}
        g5 = {"files": {"p.bin": [("sha1", T("p.bin", "sha1"), "verified")], "q/r.txt": [("md5", T("q/r.txt", "md5"), "verified"), ("sha1", T("q/r.txt", "sha1"), "verified")]}}
        return [g1, g2, g3, g4, g5], None

    def verified_differ(T):
        g1 = {"files": base(T, ("md5", "xxh64"))}
        g2 = {"files": {p: [("md5", bogus("md5", p + "2"), "verified"), ("c4", T(p, "c4"), "verified")] for p in SYN_TREE}}
        g3 = {"files": {p: [("md5", bogus("md5", p + "3"), "verified"), ("c4", bogus("c4", p + "3"), "verified"), ("xxh64", bogus("xxh64", p), "verified")] for p in SYN_TREE}}
        return [g1, g2, g3], None

    def twelve(T):
        gens = [{"files": base(T)}]
        for i in range(2, 13):
            fl = {}
            for p in SYN_TREE:
                e = [("md5", bogus("md5", f"{p}{i}"), "verified")]
                if i in (2, 3):
                    e.append(("xxh64", bogus("xxh64", f"{p}{i}"), "failed"))
                if i == 10:
                    e.append(("c4", T(p, "c4"), "verified"))
                if i == 11:
                    e += [("c4", bogus("c4", f"{p}{i}"), "verified"), ("xxh64", T(p, "xxh64"), "verified")]
                if i == 12:
                    e += [("c4", bogus("c4", f"{p}{i}"), "failed"), ("xxh64", bogus("xxh64", f"{p}{i}"), "verified")]
                fl[p] = e
            gens.append({"files": fl})
        return gens, None

    def bignumbers(T):
        g1 = {"files": base(T)}
        g2 = {"files": {p: [("sha1", T(p, "sha1"), "verified")] for p in SYN_TREE}}
        g3 = {"files": {p: [("sha1", bogus("sha1", p), "verified"), ("md5", bogus("md5", p), "verified")] for p in SYN_TREE}}
        g4 = {"files": {p: [("xxh3", T(p, "xxh3"), "verified"), ("md5", bogus("md5", p + "4"), "failed")] for p in SYN_TREE}}
        return [g1, g2, g3, g4], [9998, 9999, 10000, 10001]

    def dirs_and_dups(T):
        dh = lambda tag: [("md5", bogus("md5", tag), bogus("md5", tag + "s"))]
        g1 = {"files": {p: v for p, v in base(T).items() if p != "E"}, "dirs": {"q": dh("q"), "E": dh("E")}}
        g2 = {"files": {"E": [("md5", T("E", "md5"), "original")], "p.bin": [("md5", T("p.bin", "md5"), "verified"), ("md5", T("p.bin", "md5"), "verified")]}, "dirs": {"q": dh("q2")}}
        g3 = {"files": {"q/r.txt": [("c4", T("q/r.txt", "c4"), "verified")], "E": [("md5", T("E", "md5"), "verified")]}, "dup": ["q/r.txt"], "dirs": {"q": []}}
        return [g1, g2, g3], None

    def late_and_early(T):
        g1 = {"files": {"p.bin": [("md5", T("p.bin", "md5"), "original")]}}
        g2 = {"files": {"q/r.txt": [("xxh128", T("q/r.txt", "xxh128"), "original")]}}
        g3 = {"files": {"q/a&b <c>.bin": [("c4", T("q/a&b <c>.bin", "c4"), "original"), ("xxh3", T("q/a&b <c>.bin", "xxh3"), "original")], "E": [("sha1", T("E", "sha1"), "original")]}}
        return [g1, g2, g3], None

    return {
        "failed-first": failed_first,
        "verified-differ": verified_differ,
        "twelve": twelve,
        "bignumbers": bignumbers,
        "dirs-and-dups": dirs_and_dups,
        "late-and-early": late_and_early,
    }


# ------------------------------------------------------------------------------------------------ crash runs
CRASH_CHILD = r"""
import os, sys
repo, base, k = sys.argv[1], sys.argv[2], int(sys.argv[3])
sys.path.insert(0, repo)
from ascmhl import commands
n = [0]
def hook(ev, a):
    if ev == "open":
        path, mode, flags = a[0], a[1], a[2] or 0
        w = (isinstance(mode, str) and any(c in mode for c in "wax+")) or (flags & (os.O_WRONLY | os.O_RDWR | os.O_CREAT))
        if not w:
            return
    elif ev in ("os.mkdir", "os.rename", "os.remove", "os.rmdir", "os.utime", "os.chmod", "os.truncate"):
        path = a[0]
    else:
        return
    try:
        path = os.fsdecode(path)
    except Exception:
        return
    if not os.path.abspath(path).startswith(base):
        return
    n[0] += 1
    if n[0] == k:
        os._exit(77)
sys.addaudithook(hook)
try:
    commands.flatten.main(args=sys.argv[4:], standalone_mode=True)
except SystemExit as e:
    print("EVENTS", n[0])
    sys.stdout.flush()
    os._exit(int(e.code or 0))
"""


def crash_flatten(w, k, dest):
    child = os.path.join(w.tmp, "crash_child.py")
    if not os.path.exists(child):
        with open(child, "w") as f:
            f.write(CRASH_CHILD)
    env = dict(os.environ, PYTHONDONTWRITEBYTECODE="1")
    r = subprocess.run([sys.executable, child, REPO, w.tmp, str(k), w.root, dest], capture_output=True, text=True, env=env, cwd=w.tmp)
    return r.returncode, r.stdout + r.stderr


# ------------------------------------------------------------------------------------------------ main
TZS = [
    ("utc", "UTC0", []),
    # Central Europe: mtimes just before / at the spring switch and in both passes through the repeated autumn hour
    ("cet", "CET-1CEST,M3.5.0,M10.5.0/3", [1616893199, 1616893200, 1635640200, 1635643800]),
    ("est", "EST5EDT,M3.2.0,M11.1.0", [1615705199, 1615705200, 1636263000, 1636266600]),
    ("lordhowe", "<+1030>-10:30<+11>-11,M10.1.0,M4.1.0", [1633188599, 1633188600, 1617462000, 1617463800]),
]


def set_tz(tz):
    if tz is None:
        os.environ.pop("TZ", None)
    else:
        os.environ["TZ"] = tz
    time.tzset()


def main():
    run = Run(
        "C18",
        rule="case = (tree, history script | seeded random script | hand-written history, root/destination/-pl spelling, flatten "
        "options, time zone); every case flattens a flat history and compares every record of the packing list with the history "
        "read independently (chain order, earliest non-failed digest per path and format), snapshots the source, and runs "
        "verify -pl on the unchanged tree and after single alterations; non-trivial = distinct case whose history records at "
        "least one file",
        bound="13 trees (<= 9 files, depth <= 4; spaces, NFC/NFD twins, XML-special, U+2028, prefix siblings, case pairs, ascmhl "
        "look-alikes, equal base names, equal contents, empty files, file symlinks, files at 1 MiB -1/0/+1), 18 scripted histories "
        "of 1..12 generations (changing format sets, failed generations restored / left failing, -sf only / mixed / repeated, -n, "
        "deleted and late-added files, -i / -ii / negated / slashed patterns, folder<->file replacement), seeded random scripts "
        "(quick 12 x <= 7 steps, thorough 200 x <= 16 steps), 6 hand-written histories (failed entry before the first good one, "
        "differing 'verified' digests, 12 generations, generation numbers 9998..10001, directory and duplicate records), 6 path "
        "spellings, 7 flatten option sets, 4 time zones with DST-edge mtimes, kill of flatten at every file-system write",
    )
    rnd = random.Random(run.seed)
    thorough = run.tier == "thorough"
    old_tz = os.environ.get("TZ")
    counter = [0]

    def new_tmp():
        counter[0] += 1
        d = os.path.join(run.tmp, f"w{counter[0]}")
        os.makedirs(d)
        return d

    trees = [t for t in S.TREES if t not in ("emptyfolder", "onlydirs")] + list(MY_TREES)
    opt_sets = [
        ("plain", []),
        ("v", ["-v"]),
        ("n", ["-n"]),
        ("i", ["-i", "*.nothing", "-i", "no such dir/"]),
        ("creator", ["--author_name", "A <&> \"B\"", "--author_email", "a@b", "--comment", "x y", "--location", "läb"]),
        # patterns given to flatten itself: the statement still wants every recorded path in the packing list
        ("itxt", ["-i", "*.txt", "-i", "*.txt"]),
        ("iifile", ["-ii", "@fp"]),
    ]

    # ---- (1) scripted histories made by the real create
    for ti, tree in enumerate(trees):
        spec = tree_spec(tree)
        scripts = scripts_for(tree, spec)
        for si, (sname, steps) in enumerate(scripts.items()):
            if not thorough:
                # quick: every script on 'deep', a third of the scripts (rotating) on each other tree
                if tree == "sizes" and sname not in ("fmtchange", "failed-left"):
                    continue
                if tree not in ("deep", "sizes") and (ti + si) % 3 != 0:
                    continue
            spells = ROOT_SPELLS if (thorough or sname == "fmtchange" and tree in ("deep", "names")) else (ROOT_SPELLS[(ti + si) % len(ROOT_SPELLS)],)
            for spell in spells:
                osets = opt_sets if (thorough and spell == "abs") or (sname == "one" and tree == "deep") else [opt_sets[(ti + si) % 2]]
                for oname, opts in osets:
                    cid = f"hist/{tree}/{sname}/{spell}/{oname}"
                    if not run.want(cid):
                        continue
                    w = World(new_tmp(), spec)
                    ok = do_steps(w, resolve_ii(w, steps))
                    run.case(cid, (tree, sname, spell, oname) if ok else None, sample={"case": cid, "log": [str(x) for x in w.log[:6]]})
                    if not ok:
                        print(f"setup skipped {cid}: {w.setup_problem}", file=sys.stderr)
                        continue
                    full_check(run, cid, w, spell, opts, rnd, None if thorough else 1)

    # ---- (2) vacuous histories: nothing ever recorded as a file
    for tree in ("emptyfolder", "onlydirs"):
        for sname, steps in (("one", [C(["md5"])]), ("three", [C(["md5"]), C(["c4"], ["-n"]), C(["xxh64"])])):
            cid = f"vacuous/{tree}/{sname}"
            if not run.want(cid):
                continue
            w = World(new_tmp(), S.TREES[tree])
            ok = do_steps(w, steps)
            run.case(cid, None, sample=None)
            if ok:
                full_check(run, cid, w, "abs", [], rnd, 1)

    # ---- (3) every kind of alteration against one packing list, all spellings of verify -pl
    all_kinds = ("edit", "truncate", "append", "delete", "rename", "swap", "add", "add-sub", "add-newdir", "to-symlink", "to-emptydir")
    for tree in ("deep", "dups", "names") if not thorough else trees:
        for spell in ("abs", "rel", "dot", "elsewhere") if tree == "deep" or thorough else ("abs",):
            cid = f"alter/{tree}/{spell}"
            if not run.want(cid):
                continue
            w = World(new_tmp(), tree_spec(tree))
            ok = do_steps(w, [C(["md5", "c4"]), C(["xxh64"])])
            run.case(cid, ("alter", tree, spell) if ok else None)
            if ok:
                full_check(run, cid, w, spell, [], rnd, None if (thorough or (spell == "abs" and tree == "deep")) else 1, kinds=all_kinds)

    # ---- (4) seeded random scripts
    nrand, maxlen = (200, 16) if thorough else (12, 7)
    for i in range(nrand):
        tree = ("deep", "dups", "prefix", "names")[i % 4]
        steps = random_script(rnd, tree_spec(tree), rnd.randint(2, maxlen))
        cid = f"random/{run.seed}/{i}/{tree}"
        if not run.want(cid):
            continue
        w = World(new_tmp(), tree_spec(tree))
        ok = do_steps(w, steps)
        key = tuple((s[0], tuple(s[1]) if isinstance(s[1], list) else s[1], tuple(s[3] or ()) if s[0] == "create" else None) for s in steps)
        run.case(cid, ("random", tree, key) if ok else None, sample={"case": cid, "steps": [str(s)[:60] for s in steps[:8]]} if i < 2 else None)
        if not ok:
            print(f"setup skipped {cid}: {w.setup_problem}", file=sys.stderr)
            continue
        full_check(run, cid, w, ROOT_SPELLS[i % len(ROOT_SPELLS)], [], rnd, None if thorough else 1)

    # ---- (5) hand-written histories
    for sname, builder in synthetic_cases(run.tier).items():
        for spell in ROOT_SPELLS if thorough else ("abs", "dot"):
            cid = f"synthetic/{sname}/{spell}"
            if not run.want(cid):
                continue
            w = World(new_tmp(), SYN_TREE)
            T = lambda p, f: W.DIGEST[f](w.pristine[p][0])
            gens, numbers = builder(T)
            for g in gens:
                g["sizes"] = {p: len(w.pristine[p][0]) for p in SYN_TREE}
            write_history(w.root, gens, numbers)
            run.case(cid, ("synthetic", sname, spell), sample={"case": cid, "generations": len(gens)})
            code, out, exc = W.run("verify", [w.root])
            if exc is not None or code in (30, 31, 32, 33):
                print(f"setup skipped {cid}: hand-written history not loadable: {code} {out[-200:]} {exc!r}", file=sys.stderr)
                run.violation(cid, f"hand-written history is not loadable by verify: exit {code} {exc!r} {out[-200:]}", "setup/synthetic-unloadable")
                continue
            full_check(run, cid, w, spell, [], rnd, None if thorough else 1, truth=False, kinds=("edit", "delete", "add", "swap"))

    # ---- (6) time zones (DST given as POSIX TZ strings), mtimes at both sides of the switches and in the repeated hour
    try:
        for zname, tz, stamps in TZS if thorough else TZS[1:3]:
            for tree, sname in (("deep", "failed-restored"), ("dups", "fmtchange")) if thorough else (("deep", "failed-restored"),):
                cid = f"tz/{zname}/{tree}/{sname}"
                if not run.want(cid):
                    continue
                set_tz(tz)
                spec = tree_spec(tree)
                w = World(new_tmp(), spec)
                for f, ts in zip(tree_files(spec), stamps):
                    os.utime(w.p(f), (ts, ts))
                    w.pristine[f] = (w.pristine[f][0], ts * 10**9)
                ok = do_steps(w, scripts_for(tree, spec)[sname])
                run.case(cid, ("tz", zname, tree, sname) if ok else None)
                if ok:
                    full_check(run, cid, w, "abs", [], rnd, 2)
                    # the packing list must mean the same in another zone
                    set_tz("UTC0")
                    mp = mhl_files(os.path.join(w.tmp, "out"))
                    if mp:
                        code, out, exc, args = vpl(w, mp[0], "abs")
                        if code != 0:
                            run.violation(cid, f"verify -pl in UTC of a packing list flattened under TZ={tz} exits {code}: {out[-200:]}", "pl/unchanged-rejected/tz")
    finally:
        set_tz(old_tz)

    # ---- (7) flatten twice into the same destination, then a further generation and a third flatten
    for tree in ("deep", "dups") if thorough else ("deep",):
        cid = f"again/{tree}"
        if not run.want(cid):
            continue
        w = World(new_tmp(), tree_spec(tree))
        fs = tree_files(tree_spec(tree))
        ok = do_steps(w, [C(["md5"]), ("alter", fs[0]), C(["md5", "xxh64"])])
        run.case(cid, ("again", tree) if ok else None)
        if ok:
            full_check(run, cid + "#1", w, "abs", [], rnd, 1, dest_name="out1")
            do_steps(w, [("restore", fs[0]), C(["c4"]), ("add", "later.bin", "later"), C(["sha1"], sf=["later.bin"])])
            full_check(run, cid, w, "rel", [], rnd, 2, dest_name="out2")
            # the earlier packing list is still a valid summary of the earlier history: later.bin is new to it
            code, out, exc, args = vpl(w, mhl_files(os.path.join(w.tmp, "out1"))[0], "abs")
            if code == 0:
                run.violation(cid, "verify -pl with the older packing list exits 0 although later.bin was added afterwards", "pl/altered-accepted/add")

    # ---- (8) flatten killed at the k-th file-system write: source untouched, later create + flatten still right
    for tree, sname in (("deep", "failed-restored"), ("names", "fmtchange")) if thorough else (("deep", "failed-restored"),):
        spec = tree_spec(tree)
        if run.only and not run.only.startswith(f"crash/{tree}/{sname}/"):
            continue
        k, done = 0, False
        while not done and k < 40:
            k += 1
            cid = f"crash/{tree}/{sname}/{k}"
            w = World(new_tmp(), spec)
            ok = do_steps(w, scripts_for(tree, spec)[sname])
            if not ok:
                break
            before = W.snapshot(w.root)
            dest = os.path.join(w.tmp, "out")
            os.makedirs(dest)
            rc, text = crash_flatten(w, k, dest)
            if rc != 77:
                done = True
            if not run.want(cid):
                continue
            run.case(cid, ("crash", tree, sname, k), sample={"case": cid, "child_exit": rc})
            ch = W.diff_snap(before, W.snapshot(w.root))
            if ch:
                run.violation(cid, f"flatten killed at write event {k} left the source changed: {ch[:5]}", "crash/source-modified", inp={"k": k})
            if rc not in (0, 77):
                run.violation(cid, f"flatten child exits {rc}: {text[-300:]}", "crash/child-exit", inp={"k": k})
                continue
            # the same destination again (with whatever the killed run left there): every complete manifest is right
            exp, trace, hpat, _, _ = history_expectation(w.root)
            code, out, exc = W.run("flatten", [w.root, dest])
            if code != 0 or exc is not None:
                run.violation(cid, f"flatten into the destination of a killed flatten (event {k}) exits {code} ({exc!r}): {out[-300:]}", "crash/reflatten-exit", inp={"k": k})
            got = mhl_files(dest)
            if not got:
                run.violation(cid, f"no packing list below the destination after re-running flatten (killed at event {k})", "crash/no-manifest", inp={"k": k})
            for mp in got:
                check_manifest(run, cid, mp, exp, trace, wclass="crash")
            # the history goes on and flattens correctly into a fresh destination
            do_steps(w, [C(["sha1"])])
            full_check(run, cid, w, "abs", [], rnd, 1, dest_name="out_after")

    run.finish()


if __name__ == "__main__":
    main()
