"""C02 bounded part: the command loops of create (folder mode and -sf) against the statement, on all small worlds.
Oracle: the tree on disk filtered by the effective ignore patterns, routed to the deepest enclosing history."""
import os

from . import scen as S
from . import world as W
from .common import Run


def parent_history(c, roots):
    best = ""
    for r in roots:
        if r != c and (c.startswith(r + os.sep)) and len(r) > len(best):
            best = r
    return best


def expected_records(root, patterns, roots):
    vis = W.visible_tree(root, patterns)
    exp = {h: {} for h in [""] + roots}
    for e, kind in vis.items():
        if e in roots:
            ph = parent_history(e, roots)
            exp[ph][os.path.relpath(e, ph) if ph else e] = "d"
            continue
        h = W.owner_of(e, roots)
        exp[h][os.path.relpath(e, h) if h else e] = kind
    return exp


def check_generation(run, cid, root, new, patterns, fmts, roots, only=None, wclass="folder"):
    """`new`: {history: [new manifest files]}; only: restrict expected file records to this set of root-relative paths"""
    exp = expected_records(root, patterns, roots)
    for h in [""] + roots:
        hp = os.path.join(root, h) if h else root
        want = exp[h]
        if only is not None:
            want = {p: k for p, k in want.items() if k == "f" and (os.path.join(h, p) if h else p) in only}
        if len(new.get(h, [])) == 0:
            if want and only is None:
                run.violation(cid, f"history '{h or '.'}' got no new generation but has {len(want)} entries", f"{wclass}/no-generation")
            elif want:
                run.violation(cid, f"history '{h or '.'}' got no new generation for -sf files {sorted(want)}", f"{wclass}/no-generation")
            continue
        if len(new[h]) != 1:
            run.violation(cid, f"history '{h or '.'}' got {len(new[h])} new manifests", f"{wclass}/generation-count")
            continue
        m = W.read_manifest(new[h][0])
        got = {}
        for r in m["records"]:
            p = r["path"]
            if p in got:
                run.violation(cid, f"path {p!r} recorded twice in {os.path.basename(new[h][0])}", f"{wclass}/duplicate-record")
            got[p] = r
            if os.path.isabs(p) or p.startswith("..") or "/../" in p or "\\" in p:
                run.violation(cid, f"record path {p!r} is not a root-relative POSIX path", f"{wclass}/path-form", inp={"history": h})
        wantp = {p.replace(os.sep, "/"): k for p, k in want.items()}
        missing = sorted(set(wantp) - set(got))
        extra = sorted(set(got) - set(wantp))
        if missing:
            run.violation(cid, f"history '{h or '.'}': not recorded: {missing[:5]}", f"{wclass}/missing-record", inp={"history": h})
        if extra:
            run.violation(cid, f"history '{h or '.'}': recorded but not expected: {extra[:5]}", f"{wclass}/extra-record", inp={"history": h})
        for p, k in wantp.items():
            r = got.get(p)
            if r is None:
                continue
            fp = os.path.join(hp, p)
            if (k == "d") != r["is_dir"]:
                run.violation(cid, f"{p}: directory flag wrong", f"{wclass}/kind")
                continue
            if k == "f":
                if r["size"] != str(os.path.getsize(fp)):
                    run.violation(cid, f"{p}: size attribute {r['size']!r}, file has {os.path.getsize(fp)} bytes", f"{wclass}/size")
                have = {e["format"]: e["digest"] for e in r["entries"]}
                for f in fmts:
                    if have.get(f) != W.file_digest(fp, f):
                        run.violation(cid, f"{p}: {f} digest {have.get(f)} != {W.file_digest(fp, f)}", f"{wclass}/digest")


def main():
    run = Run(
        "C02",
        rule="world = (tree, nested-history placement, format set, option variant, root spelling); non-trivial = distinct world whose "
        "tree has at least one entry; every record of every new manifest is compared with the tree on disk",
        bound="10 trees (<= 7 entries, depth <= 4, names with spaces / non-ASCII NFC+NFD / XML-special / prefix siblings / case pairs / "
        "ascmhl look-alikes), <= 3 nested histories, 5 format sets (quick) or all 1-2 subsets + all six (thorough), "
        "root spelled plain / trailing slash / relative / '.', -n, -i, -sf file / folder / nested file / duplicates",
    )
    variants = [("plain", []), ("no-dirhash", ["-n"]), ("ignore", ["-i", "*.txt"])]
    fsets = S.format_sets(run.tier)
    for tree in S.TREES:
        for ni, nested in enumerate(S.NESTED[tree]):
            for fi, fmts in enumerate(fsets if (run.tier == "thorough" or tree in ("deep", "names")) else fsets[:2]):
                for vname, vargs in variants if fi == 0 else variants[:1]:
                    for spell in ("abs", "slash", "rel", "dot") if (fi == 0 and vname == "plain") else ("abs",):
                        cid = f"folder/{tree}/{ni}/{'+'.join(fmts)}/{vname}/{spell}"
                        if not run.want(cid):
                            continue
                        tmp = os.path.join(run.tmp, f"w{run.evaluations}")
                        root = os.path.join(tmp, "t")
                        W.build(root, S.TREES[tree])
                        ok = True
                        for nr in nested:
                            code, out, exc = W.run("create", [os.path.join(root, nr)] + S.hargs(fmts))
                            ok = ok and code == 0
                        before = S.manifests_by_history(root)
                        arg, cwd = root, None
                        if spell == "slash":
                            arg = root + os.sep
                        elif spell == "rel":
                            arg, cwd = "t", tmp
                        elif spell == "dot":
                            arg, cwd = ".", root
                        code, out, exc = W.run("create", [arg] + S.hargs(fmts) + vargs, cwd=cwd)
                        run.case(cid, (tree, ni, tuple(fmts), vname, spell) if S.TREES[tree] else None, sample={"case": cid, "exit": code})
                        if code != 0 or exc is not None:
                            run.violation(cid, f"create exits {code} ({exc!r}) on a fresh tree: {out[-300:]}", "folder/exit")
                            continue
                        patterns = list(W.DEFAULT_IGNORE) + (["*.txt"] if vname == "ignore" else [])
                        roots = W.nested_roots(root)
                        # a nested root that is itself ignored is not in scope
                        roots = [r for r in roots if not W.ignored(r, W.spec_of(patterns))]
                        check_generation(run, cid, root, S.new_manifests(root, before), patterns, fmts, roots)
    # ---- single file mode
    # folders of identical layout, each a history of its own, below an enclosing history: files of DIFFERENT histories
    # share their history-relative path (A001: Clips/clip.mov, A002: Clips/clip.mov, outer: Clips/clip.mov)
    TREES = dict(S.TREES)
    TREES["reels"] = {"A001/Clips/clip.mov": "reel one clip", "A001/Sidecar.txt": "reel one sidecar", "A002/Clips/clip.mov": "reel two clip",
                      "A002/Sidecar.txt": "reel two sidecar", "Clips/clip.mov": "outer clip", "Sidecar.txt": "outer sidecar"}
    for tree, nested, sel in [
        ("reels", ["A001", "A002"], ["A001", "A002"]),
        ("reels", ["A001", "A002"], ["A002/Sidecar.txt", "Sidecar.txt", "A001/Sidecar.txt"]),
        ("reels", ["A001"], ["Clips", "A001/Clips"]),
        ("reels", ["A002"], ["A002/Clips/clip.mov", "Clips/clip.mov", "A001/Clips/clip.mov"]),
        ("deep", [], ["A/a.txt"]),
        ("deep", [], ["A"]),
        ("deep", ["A"], ["A/deep/x.bin"]),
        ("deep", ["A", "A/deep"], ["A/deep/x.bin", "c.txt"]),
        ("deep", [], ["A/a.txt", "A/a.txt"]),
        ("deep", [], ["A", "A/a.txt"]),
        ("deep", [], ["z/empty.bin"]),
        ("names", [], ["sp ace/fi le.txt", "\u00dcbung"]),
        ("prefix", ["Clips"], ["Clips_proxy/y.mov"]),
        ("prefix", ["Clips"], ["Clips.txt", "Clips/x.mov"]),
        # a folder first, then selections whose names merely extend the folder's name (no separator boundary)
        ("prefix", [], ["Clips", "Clips_proxy", "Clips.txt"]),
        ("prefix", [], ["Clips", "Clips_proxy/y.mov"]),
        ("prefix", ["Clips"], ["Clips", "Clips.txt", "Clips_proxy"]),
        ("deep", [], ["A", "c.txt", "z"]),
        ("levels", ["L1/L2/L3", "L1/L2", "L1"], ["L1/L2/L3/clip.bin"]),
        ("lookalike", [], ["sub"]),
    ]:
        for prior in (False, True):
            cid = f"sf/{tree}/{'+'.join(nested)}/{'+'.join(sel)}/{'prior' if prior else 'fresh'}"
            if not run.want(cid):
                continue
            tmp = os.path.join(run.tmp, f"w{run.evaluations}")
            root = os.path.join(tmp, "t")
            W.build(root, TREES[tree])
            fmts = ["md5", "c4"]
            for nr in nested:
                W.run("create", [os.path.join(root, nr)] + S.hargs(fmts))
            if prior:
                W.run("create", [root] + S.hargs(fmts))
            before = S.manifests_by_history(root)
            args = [root] + S.hargs(fmts)
            for s in sel:
                args += ["-sf", os.path.join(root, s)]
            code, out, exc = W.run("create", args)
            run.case(cid, (tree, tuple(nested), tuple(sel), prior), sample={"case": cid, "exit": code})
            if code != 0 or exc is not None:
                run.violation(cid, f"create -sf exits {code} ({exc!r}): {out[-300:]}", "sf/exit")
                continue
            patterns = list(W.DEFAULT_IGNORE)
            vis = W.visible_tree(root, patterns)
            only = set()
            for s in sel:
                if vis.get(s) == "f" or os.path.isfile(os.path.join(root, s)):
                    only.add(s)
                else:
                    only.update(e for e, k in vis.items() if k == "f" and e.startswith(s + os.sep))
            roots = W.nested_roots(root)
            new = S.new_manifests(root, before)
            # expected: exactly the named files, nothing else (reference-only generations carry no records)
            exp_owner = {}
            for e in only:
                exp_owner.setdefault(W.owner_of(e, roots), set()).add(e)
            for h in [""] + roots:
                recs = []
                for mf in new.get(h, []):
                    recs += [r["path"] for r in W.read_manifest(mf)["records"]]
                want = sorted((os.path.relpath(e, h) if h else e).replace(os.sep, "/") for e in exp_owner.get(h, ()))
                if sorted(recs) != want:
                    run.violation(cid, f"-sf {sel}: history '{h or '.'}' records {sorted(recs)}, expected {want}", "sf/records", inp={"sel": sel})
            check_generation(run, cid, root, {h: v for h, v in new.items() if h in exp_owner}, patterns, fmts, roots, only=only, wclass="sf")
    run.finish()


if __name__ == "__main__":
    main()
