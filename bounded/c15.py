"""C15 bounded part: the real `create` is run in a forked child process on a copy of a small world and killed (os._exit or
SIGKILL, nothing is flushed) at every file-system effect it makes below the root - before each mkdir / open-for-write /
write / flush / close / rename / remove, with the write in progress applied not at all (buffer lost or buffer drained),
partially (several cut points) or fully - and, as nets for effects the Python-level hooks cannot see, (a) before executed
source lines of the package and (b) with no instrumentation at all, by strace delivering SIGKILL on entry to the k-th
openat / write / rename / mkdir / unlink ... system call that touches the tree (skipped if strace cannot attach).  Afterwards an independent oracle derived from the
statement is applied to the directory the dead process left behind: every previously committed manifest is byte-identical, the chain file parses (xml.etree) and still lists
every previously committed generation with its digest, nothing listed is missing or half present, nothing outside the
ascmhl folders changed, and the next commands (verify, info, diff, create, verify) behave like they do on an
uninterrupted control copy (old state or completed state) instead of aborting.  For a root with no prior generation the
clauses about committed manifests are vacuous; the next commands are checked there too (old state = "no history", exit 30)."""
import json
import os
import random
import re
import shutil
import signal
import subprocess
import sys
import time
import traceback
import xml.etree.ElementTree as ET

from . import scen as S
from . import world as W
from .common import Run

SENT = 199  # exit status of a child that ended itself at the crash point with os._exit
HARNESS = 198  # exit status of a child in which the harness itself failed
ABORT_CODES = {30: "no-history", 31: "modified-manifest", 32: "no-chain", 33: "missing-manifest"}
MUT = {
    "os.mkdir": 1,
    "os.rmdir": 1,
    "os.remove": 1,
    "os.truncate": 1,
    "os.chmod": 1,
    "os.chown": 1,
    "os.utime": 1,
    "os.rename": 2,
    "os.link": 2,
    "os.symlink": 2,
}
WFLAGS = os.O_WRONLY | os.O_RDWR | os.O_CREAT | os.O_TRUNC | os.O_APPEND


# ------------------------------------------------------------------------------------------------ the killed process
def _child(plan, argv, cwd, tz, root, trace_path):
    """runs in the forked child: installs the crash instrumentation, runs the real create, never returns"""
    import builtins
    import io

    dn = os.open(os.devnull, os.O_RDWR)
    for fd in (0, 1, 2):
        os.dup2(dn, fd)
    if tz:
        os.environ["TZ"] = tz
        time.tzset()
    os.chdir(cwd)
    rootp = root + os.sep
    kind = plan["kind"]
    st = {"n": 0, "lines": 0, "off": False, "ev": [], "reads": 0}

    def die():
        if plan.get("sig") == "kill":
            os.kill(os.getpid(), signal.SIGKILL)
            time.sleep(5)
        os._exit(SENT)

    def under(p):
        try:
            p = os.path.abspath(os.fsdecode(p))
        except (TypeError, ValueError):
            return None
        if p == root:
            return "."
        return p[len(rootp) :] if p.startswith(rootp) else None

    def event(ek, rel, extra=None):
        i = st["n"]
        st["n"] += 1
        if kind == "count":
            st["ev"].append([ek, rel, extra, st["lines"]])
        return kind == "fs" and i == plan["k"]

    def cut_of(data):
        n = len(data)
        c = plan.get("cut", "half")
        if c == "one":
            return min(1, n)
        if c == "last":
            return max(n - 1, 0)
        if c == "mb" and isinstance(data, (bytes, bytearray)):
            for i in range(1, n):
                if data[i] & 0xC0 == 0x80:
                    return i
        return n // 2

    def hook(ev, a):
        if st["off"]:
            return
        if ev == "open":
            p, mode, flags = a[0], a[1], a[2]
            if isinstance(p, int):
                return
            rel = under(p)
            if rel is None:
                return
            if isinstance(flags, int):
                wr = bool(flags & WFLAGS)
            else:
                wr = any(c in (mode or "") for c in "wax+")
            if not wr:
                st["reads"] += 1
                if kind == "early" and st["reads"] == plan["k"]:
                    die()
                return
            if event("open", rel, mode if isinstance(mode, str) else flags):
                die()
        elif ev in MUT:
            n = MUT[ev]
            rels = [under(x) for x in a[:n]]
            if all(r is None for r in rels):
                return
            if event(ev.split(".", 1)[1], rels[-1] if rels[-1] is not None else rels[0], rels[0] if n == 2 else None):
                die()

    class Proxy:
        """file object opened for writing below the root: every write / flush / close is a crash point"""

        def __init__(self, f, rel):
            self.__dict__["_f"] = f
            self.__dict__["_rel"] = rel

        def write(self, data):
            f = self._f
            if event("write", self._rel, len(data)):
                m = plan["mode"]
                if m == "lost":
                    die()
                if m == "flushed":
                    f.flush()
                    die()
                if m == "partial":
                    f.write(data[: cut_of(data)])
                    f.flush()
                    die()
                f.write(data)
                f.flush()
                die()
            return f.write(data)

        def writelines(self, lines):
            for line in lines:
                self.write(line)

        def flush(self):
            if event("flush", self._rel):
                die()
            return self._f.flush()

        def close(self):
            if not self._f.closed and event("close", self._rel):
                die()
            return self._f.close()

        def __enter__(self):
            return self

        def __exit__(self, *a):
            self.close()

        def __iter__(self):
            return iter(self._f)

        def __getattr__(self, n):
            return getattr(self._f, n)

        def __setattr__(self, n, v):
            setattr(self._f, n, v)

    real_open = builtins.open

    def wopen(file, mode="r", *a, **k):
        f = real_open(file, mode, *a, **k)
        if isinstance(mode, str) and any(c in mode for c in "wax+") and not st["off"]:
            if isinstance(file, int):
                return f if file <= 2 else Proxy(f, "<fd>")
            rel = under(file)
            if rel is not None:
                return Proxy(f, rel)
        return f

    real_write = os.write

    def wwrite(fd, data):
        if fd > 2 and not st["off"]:
            if event("oswrite", "<fd>", len(data)):
                m = plan["mode"]
                if m in ("lost", "flushed"):
                    die()
                if m == "partial":
                    real_write(fd, data[: cut_of(data)])
                    die()
                real_write(fd, data)
                die()
        return real_write(fd, data)

    from ascmhl import commands

    pkg = os.path.dirname(os.path.abspath(commands.__file__)) + os.sep

    def ltrace(frame, ev, arg):
        if ev == "line":
            st["lines"] += 1
            if kind == "line" and st["lines"] == plan["k"]:
                die()
        return ltrace

    def gtrace(frame, ev, arg):
        if frame.f_code.co_filename.startswith(pkg):
            return ltrace
        return None

    if kind != "none":  # "none": the untouched command, crash points are set from outside (strace)
        builtins.open = io.open = wopen
        os.write = wwrite
        sys.addaudithook(hook)
    if kind in ("count", "line"):
        sys.settrace(gtrace)
    code = 0
    try:
        commands.create.main(args=[str(x) for x in argv], prog_name="ascmhl", standalone_mode=True)
    except SystemExit as e:
        code = e.code if isinstance(e.code, int) else (0 if e.code is None else 1)
    except BaseException:
        code = 1
    sys.settrace(None)
    st["off"] = True
    if kind == "count":
        with real_open(trace_path, "w") as fh:
            json.dump({"events": st["ev"], "lines": st["lines"], "reads": st["reads"], "code": code}, fh)
    os._exit(code if code not in (SENT, HARNESS) else 1)


def spawn(plan, argv, cwd, tz, root, trace_path):
    """fork, run the real create in the child with the given crash plan. returns ('killed'|'completed', exit code)"""
    sys.stdout.flush()
    sys.stderr.flush()
    pid = os.fork()
    if pid == 0:
        try:
            _child(plan, argv, cwd, tz, root, trace_path)
        except BaseException:
            try:
                fd = os.open(trace_path + ".err", os.O_WRONLY | os.O_CREAT | os.O_TRUNC)
                os.write(fd, traceback.format_exc().encode())
            except BaseException:
                pass
        finally:
            os._exit(HARNESS)
    _, status = os.waitpid(pid, 0)
    if os.WIFSIGNALED(status):
        if os.WTERMSIG(status) == signal.SIGKILL:
            return "killed", None
        raise RuntimeError(f"child ended by signal {os.WTERMSIG(status)}")
    code = os.WEXITSTATUS(status)
    if code == SENT:
        return "killed", None
    if code == HARNESS:
        err = ""
        if os.path.exists(trace_path + ".err"):
            err = open(trace_path + ".err").read()
        raise RuntimeError("crash harness failed in the child process:\n" + err)
    return "completed", code


# ------------------------------------------------------------------------------------------------ kill at system calls
# second, hook-independent family of crash points: the untouched command runs in a forked child, strace attaches to it and
# delivers SIGKILL on entry to the k-th invocation of one system call (the call is not executed).  This also reaches writes
# made below the Python level (e.g. lxml / libxml2 writing to a file name).
SYSCALLS = (
    "openat open creat write pwrite64 writev pwritev rename renameat renameat2 mkdir mkdirat unlink unlinkat rmdir truncate "
    "ftruncate link linkat symlink symlinkat copy_file_range sendfile"
).split()
FD_CALLS = {"write", "pwrite64", "writev", "pwritev", "ftruncate", "copy_file_range", "sendfile"}
STRACE = shutil.which("strace")


def spawn_sys(sysname, k, argv, cwd, tz, root, log):
    """returns ('killed'|'completed'|'unavailable', exit code)"""
    sys.stdout.flush()
    sys.stderr.flush()
    r, w = os.pipe()
    pid = os.fork()
    if pid == 0:
        try:
            os.close(w)
            os.read(r, 1)
            os.close(r)
            _child({"kind": "none"}, argv, cwd, tz, root, log + ".trace")
        finally:
            os._exit(HARNESS)
    os.close(r)
    cmd = [STRACE, "-p", str(pid), "-y", "-s", "0", "-o", log]
    if sysname is None:
        cmd += ["-e", "trace=" + ",".join("?" + c for c in SYSCALLS)]
    else:
        cmd += ["-e", f"trace={sysname}", "-e", f"inject={sysname}:signal=KILL:when={k}"]
    p = subprocess.Popen(cmd, stdin=subprocess.DEVNULL, stdout=subprocess.DEVNULL, stderr=subprocess.PIPE)
    t0 = time.time()
    attached = False
    while time.time() - t0 < 20:
        try:
            with open(f"/proc/{pid}/status") as fh:
                st = fh.read()
        except OSError:
            break
        if "TracerPid:\t0\n" not in st:
            attached = True
            break
        if p.poll() is not None:
            break
        time.sleep(0.001)
    if not attached:
        os.kill(pid, signal.SIGKILL)
        os.waitpid(pid, 0)
        p.kill()
        p.wait()
        os.close(w)
        return "unavailable", None
    os.write(w, b"x")
    os.close(w)
    _, status = os.waitpid(pid, 0)
    try:
        p.wait(timeout=20)
    except subprocess.TimeoutExpired:
        p.kill()
        p.wait()
    if os.WIFSIGNALED(status):
        if os.WTERMSIG(status) == signal.SIGKILL:
            return "killed", None
        raise RuntimeError(f"child ended by signal {os.WTERMSIG(status)}")
    code = os.WEXITSTATUS(status)
    if code == HARNESS:
        raise RuntimeError("crash harness failed in the strace'd child process")
    return "completed", code


def sys_points(log, root, cwd):
    """[(syscall, n-th invocation of it, text)] for the calls of the trace that change something below root"""
    rp = root + os.sep

    def under(p):
        p = os.path.normpath(p)
        return p == root or p.startswith(rp)

    out, counts = [], {}
    with open(log, errors="replace") as fh:
        for line in fh:
            m = re.match(r"(?:\d+\s+)?(\w+)\((.*)$", line)
            if not m:
                continue
            name, rest = m.group(1), m.group(2)
            counts[name] = counts.get(name, 0) + 1
            if name in FD_CALLS:
                hit = any(under(x) for x in re.findall(r"\d+<([^>]*)>", rest.split(") = ")[0]))
            else:
                args = rest.rsplit(") = ", 1)[0]
                dirs = [a or b for a, b in re.findall(r"AT_FDCWD<([^>]*)>|\b\d+<([^>]*)>", args)]
                base = dirs[0] if dirs else cwd
                paths = re.findall(r'"((?:[^"\\]|\\.)*)"', args)
                hit = any(under(x if x.startswith("/") else os.path.join(base, x)) for x in paths)
                if name in ("openat", "open"):
                    hit = hit and re.search(r"O_(WRONLY|RDWR|CREAT|TRUNC|APPEND)", args) is not None
            if hit:
                out.append((name, counts[name], line.strip()[:200].replace(root, "<root>")))
    return out


# ------------------------------------------------------------------------------------------------ worlds
M = 1 << 20
EXTRA_TREES = {
    "links": {"a.txt": "a", "empty.bin": b"", "E/": "", "sub/b.txt": "b", "ln.txt": ("link", "a.txt"), },
    "big": {"below.bin": b"\x01" * (M - 1), "at.bin": b"\x02" * M, "above.bin": b"\x03" * (M + 1), "z.txt": "z"},
    "prefixnames": {
        "Clips/x.mov": "x",
        "Clips/sub/z.mov": "z",
        "Clips_proxy/y.mov": "y",
        "Clips.txt": "t",
        "Clips/é &<>' .mov": "n",
        S.NFD + "/é.txt": "3",
    },
}


# manifest larger than the 8 KiB user-space buffer of the writer: a kill leaves a real prefix of the temporary file
EXTRA_TREES["wide"] = {f"reel_{i % 3}/clip_{i:02d}_take_with_a_rather_long_name.bin": bytes([i]) * (i + 1) for i in range(40)}


def tree_of(name):
    return S.TREES[name] if name in S.TREES else EXTRA_TREES[name]


def C(rel="", *args):
    return ("create", rel, list(args))


# every world: tree, steps that build the prior history (create at a relative root with options / edit keeping
# mtime and size / write a new file), the format set of the interrupted and the following create, tier
WORLDS = [
    dict(id="flat-g0", tree="flat", steps=[], fmts=["md5"]),
    dict(id="flat-g1", tree="flat", steps=[C("", "-h", "md5")], fmts=["md5"], two=True),
    dict(id="flat-g2mix", tree="flat", steps=[C("", "-h", "md5"), C("", "-h", "c4", "-n")], fmts=["xxh64", "md5"], two=True),
    dict(id="flat-g11", tree="flat", steps=[C("", "-h", ("md5", "xxh64", "c4")[i % 3]) for i in range(11)], fmts=["md5"]),
    dict(id="deep-A", tree="deep", steps=[C("A", "-h", "md5"), C("", "-h", "md5")], fmts=["md5"]),
    dict(id="deep-latechild", tree="deep", steps=[C("", "-h", "md5"), C("A/deep", "-h", "c4"), C("B", "-h", "md5")], fmts=["md5", "c4"]),
    dict(
        id="levels-3",
        tree="levels",
        steps=[C("L1/L2/L3", "-h", "md5"), C("L1/L2", "-h", "md5"), C("L1", "-h", "md5"), C("", "-h", "md5")],
        fmts=["md5"],
    ),
    dict(id="levels-3-outer0", tree="levels", steps=[C("L1/L2/L3", "-h", "md5"), C("L1/L2", "-h", "xxh64"), C("L1", "-h", "md5")], fmts=["md5"]),
    # the interrupted create runs at a nested root; the next commands run at the outer root, which loads that history as a child
    dict(id="deep-at-A", tree="deep", steps=[C("A", "-h", "md5"), C("", "-h", "md5")], fmts=["md5"], at="A"),
    dict(
        id="levels-at-L2",
        tree="levels",
        steps=[C("L1/L2/L3", "-h", "md5"), C("L1/L2", "-h", "md5"), C("L1", "-h", "md5"), C("", "-h", "md5")],
        fmts=["md5"],
        at="L1/L2",
    ),
    dict(id="prefix-Clips", tree="prefixnames", steps=[C("Clips", "-h", "md5"), C("", "-h", "md5"), C("", "-h", "md5")], fmts=["md5"]),
    dict(id="names-nested", tree="names", steps=[C("sp ace", "-h", "md5"), C(S.NFD, "-h", "c4"), C("", "-h", "md5", "-h", "c4")], fmts=["md5", "c4"]),
    dict(id="empty-g1", tree="emptyfolder", steps=[C("", "-h", "md5")], fmts=["md5"]),
    dict(id="onlydirs-E", tree="onlydirs", steps=[C("E", "-h", "md5"), C("", "-h", "md5")], fmts=["md5"]),
    dict(
        id="failed",
        tree="flat",
        steps=[C("", "-h", "md5"), ("edit", "a.txt", "x"), ("create", "", ["-h", "md5"], 11), ("write", "new.txt", "n")],
        fmts=["md5"],
    ),
    dict(id="sf", tree="deep", steps=[C("", "-h", "md5"), ("create-sf", "", ["-h", "md5"], ["A/a.txt"])], fmts=["md5"], sf=True),
    dict(
        id="ignore",
        tree="deep",
        steps=[C("", "-h", "md5", "-i", "*.bin"), C("", "-h", "md5", "-i", "!x.bin", "-i", "A/deep/"), ("write", "A/new.bin", "n")],
        fmts=["md5"],
        ign=True,
    ),
    dict(id="wide", tree="wide", steps=[C("", "-h", "md5", "-h", "c4")], fmts=["md5", "c4"]),
    dict(id="links", tree="links", steps=[C("", "-h", "xxh64")], fmts=["xxh64"]),
    dict(id="big", tree="big", steps=[C("", "-h", "xxh64")], fmts=["xxh64"], tier="thorough"),
    dict(id="deep-AB-g3", tree="deep", steps=[C("A/deep"), C("A"), C("B"), C(""), C("", "-n"), C("", "-h", "sha1")], fmts=["xxh64"], tier="thorough"),
]

META = ["--author_name", "Jürgen <&> \"O'Neil\"", "--comment", "a<b & c é ]]>", "--location", "Set 5"]
DST = "EST5EDT,M3.2.0,M11.1.0"
# how the interrupted create is invoked: (name, root spelling, extra options, TZ)
VARIANTS = [
    ("abs", "abs", [], None),
    ("slash", "slash", [], None),
    ("rel", "rel", [], None),
    ("dot", "dot", [], None),
    ("meta-v", "abs", ["-v"] + META, None),
    ("dup-n", "rel", ["-n", "DUP"], None),
    ("tz-dst", "abs", [], DST),
    ("tz-east", "dot", [], "<+1345>-13:45"),
]


class Base:
    pass


def read_bytes(p):
    with open(p, "rb") as f:
        return f.read()


def history_info(root):
    out = {}
    for h in S.all_histories(root):
        hp = os.path.join(root, h) if h else root
        mf = {os.path.basename(p): read_bytes(p) for p in W.manifests(hp)}
        ch = W.read_chain(W.chain_path(hp)) if os.path.exists(W.chain_path(hp)) else []
        out[h] = {"manifests": mf, "chain": ch}
    return out


def build_base(run, spec, n):
    b = Base()
    b.spec = spec
    b.dir = os.path.join(run.tmp, f"b{n}")
    b.root = os.path.join(b.dir, "t")
    W.build(b.root, tree_of(spec["tree"]))
    with open(os.path.join(b.dir, "ign.txt"), "w") as f:
        f.write("/B/b.txt\nz/\n")
    b.setup_error = None
    for step in spec["steps"]:
        if step[0] in ("create", "create-sf"):
            want = step[3] if step[0] == "create" and len(step) > 3 else 0
            args = [os.path.join(b.root, step[1])] + list(step[2])
            if step[0] == "create-sf":
                for s in step[3]:
                    args += ["-sf", os.path.join(b.root, s)]
            code, out, exc = W.run("create", args)
            if code != want or exc is not None:
                b.setup_error = f"prior `create {' '.join(step[2])}` at '{step[1] or '.'}' exits {code} ({exc!r}), expected {want}: {out[-300:]}"
                return b
        elif step[0] == "edit":
            p = os.path.join(b.root, step[1])
            st = os.stat(p)
            with open(p, "wb") as f:
                f.write(step[2].encode())
            os.utime(p, ns=(st.st_atime_ns, st.st_mtime_ns))
        elif step[0] == "write":
            W.build(b.root, {step[1]: step[2]})
    b.hists = history_info(b.root)
    b.outside = W.listing(b.root, skip_ascmhl=True)
    if b.hists[""]["manifests"]:
        b.strict = [""]
    else:
        cand = [h for h in b.hists if h and b.hists[h]["manifests"]]
        b.strict = [h for h in cand if not any(h.startswith(o + os.sep) for o in cand)]
    # the root the interrupted create works on, when it has no committed generation yet ("0 prior generations"): nothing
    # committed can be damaged there, but the next command must still load normally (old state = no history, or the
    # completed first generation) - it is checked like the strict roots
    target = b.spec.get("at") or ""
    b.fresh = [target] if not b.hists.get(target, {}).get("manifests") else []
    b.next_roots = b.strict + [r for r in b.fresh if r not in b.strict]
    return b


def argv_for(copy_dir, b, variant, fmts):
    vn, spell, extra, tz = variant
    at = b.spec.get("at")
    root = os.path.join(copy_dir, "t", at) if at else os.path.join(copy_dir, "t")
    arg, cwd = root, copy_dir
    if spell == "slash":
        arg = root + os.sep
    elif spell == "rel":
        arg = os.path.join("t", at) if at else "t"
    elif spell == "dot":
        arg, cwd = ".", root
    hs = S.hargs(fmts)
    ex = []
    for x in extra:
        if x == "DUP":
            hs = hs + hs
        else:
            ex.append(x)
    args = [arg] + hs + ex
    if b.spec.get("sf"):
        # relative -sf paths with a cwd different from the root, one named twice, one folder
        if spell == "dot":
            args += ["-sf", "c.txt", "-sf", "A", "-sf", "c.txt"]
        elif spell in ("rel",):
            args += ["-sf", "t/c.txt", "-sf", "t/A", "-sf", "t/c.txt"]
        else:
            args += ["-sf", os.path.join(root, "c.txt"), "-sf", os.path.join(root, "A"), "-sf", os.path.join(root, "c.txt")]
    if b.spec.get("ign"):
        ign = os.path.join(copy_dir, "ign.txt") if spell != "rel" else "ign.txt"
        args += ["-ii", ign, "-i", "!b.txt"]
    return args, cwd, tz


def next_commands(R, fmts):
    return [("verify", [R]), ("info", [R]), ("diff", [R]), ("create", [R] + S.hargs(fmts)), ("verify", [R])]


def run_sequence(copy_dir, b, fmts):
    """the following commands on every strict root; returns {root: [(name, exit code, exception repr, tail)]}"""
    res = {}
    for r in b.next_roots:
        R = os.path.join(copy_dir, "t", r) if r else os.path.join(copy_dir, "t")
        seq = []
        for name, args in next_commands(R, fmts):
            code, out, exc = W.run(name, args)
            seq.append((name, code, None if exc is None else f"{type(exc).__name__}: {exc}"[:200], out[-250:]))
        res[r] = seq
    return res


# ------------------------------------------------------------------------------------------------ oracle
def check_state(run, cid, b, root, stage, inp):
    """(a) committed manifests byte-identical, (b) chain parses and still lists every committed generation with its
    digest, (c) nothing listed is missing / differs and no generation manifest is half present, (d) nothing outside
    the ascmhl folders is damaged.  returns the number of violations added"""
    n0 = len(run.violations)
    now = W.listing(root, skip_ascmhl=True)
    for rel, v in b.outside.items():
        if rel not in now:
            run.violation(cid, f"{stage}: '{rel}' outside the ascmhl folders is gone", "outside/removed", inp=inp)
        elif now[rel] != v:
            run.violation(cid, f"{stage}: '{rel}' outside the ascmhl folders changed ({v[0]} {len(v[1]) if len(v) > 1 and v[0] == 'f' else ''} -> {now[rel][0]})", "outside/changed", inp=inp)
    for h, info in b.hists.items():
        if not info["manifests"]:
            continue  # no prior generation: lenient
        hp = os.path.join(root, h) if h else root
        ad = os.path.join(hp, "ascmhl")
        hn = h or "."
        for name, data in info["manifests"].items():
            p = os.path.join(ad, name)
            if not os.path.isfile(p):
                run.violation(cid, f"{stage}: committed manifest {hn}/ascmhl/{name} is gone", "manifest/missing", inp=inp)
            else:
                got = read_bytes(p)
                if got != data:
                    run.violation(cid, f"{stage}: committed manifest {hn}/ascmhl/{name} is not byte-identical ({len(data)} -> {len(got)} bytes)", "manifest/changed", inp=inp)
        cp = W.chain_path(hp)
        if not os.path.isfile(cp):
            run.violation(cid, f"{stage}: chain file of history '{hn}' ({len(info['chain'])} committed generations) is gone", "chain/missing", inp=inp)
            continue
        try:
            ch = W.read_chain(cp)
        except ET.ParseError as e:
            run.violation(cid, f"{stage}: chain file of history '{hn}' does not parse ({e}); it has {os.path.getsize(cp)} bytes, {len(info['chain'])} generations were committed", "chain/unparseable", inp=inp)
            continue
        for ent in info["chain"]:
            if ent not in ch:
                run.violation(cid, f"{stage}: chain of '{hn}' no longer lists committed generation {ent[0]} {ent[1]} with digest {ent[2]}; it lists {[(e[0], e[1]) for e in ch]}", "chain/lost-entry", inp=inp)
        for seq, path, c4 in ch:
            p = os.path.join(ad, path or "?")
            if not os.path.isfile(p):
                run.violation(cid, f"{stage}: chain of '{hn}' lists generation {seq} {path} but that manifest does not exist", "chain/dangling", inp=inp)
            elif W.c4_of_bytes(read_bytes(p)) != c4:
                run.violation(cid, f"{stage}: chain of '{hn}' lists generation {seq} {path} with digest {c4}, the file has {W.c4_of_bytes(read_bytes(p))}", "chain/digest", inp=inp)
        for name in sorted(os.listdir(ad)):
            if not name.endswith(".mhl") or name.startswith("._") or name in info["manifests"]:
                continue
            p = os.path.join(ad, name)
            try:
                t = ET.parse(p).getroot()
                ok = t.tag == W.NS + "hashlist" and t.find(W.NS + "creatorinfo") is not None and t.find(W.NS + "processinfo") is not None
                err = "creatorinfo / processinfo missing"
            except ET.ParseError as e:
                ok, err = False, str(e)
            if not ok:
                run.violation(cid, f"{stage}: new manifest {hn}/ascmhl/{name} is half present ({os.path.getsize(p)} bytes: {err})", "manifest/half-written", inp=inp)
    return len(run.violations) - n0


def chain_len(root, r):
    try:
        return len(W.read_chain(W.chain_path(os.path.join(root, r) if r else root)))
    except (ET.ParseError, OSError):
        return -1


def check_next(run, cid, b, copy_dir, fmts, allowed, inp):
    """the next commands on the directory the dead process left behind"""
    root = os.path.join(copy_dir, "t")
    before = {r: chain_len(root, r) for r in b.next_roots}
    got = run_sequence(copy_dir, b, fmts)
    for r, seq in got.items():
        bad = []
        for i, (name, code, exc, tail) in enumerate(seq):
            ok = {a[r][i][1] for a in allowed}
            if exc is not None or code not in ok:
                bad.append((i, name, code, exc, sorted(ok), tail))
        if bad:
            i, name, code, exc, ok, tail = bad[0]
            cls = ABORT_CODES.get(code, "exception" if exc else f"exit{code}")
            run.violation(
                cid,
                f"after the interrupted create, `{name}` (step {i + 1} of verify/info/diff/create/verify) on history '{r or '.'}' exits {code}"
                f"{' with ' + exc if exc else ''}; the uninterrupted controls exit {ok}. all deviating steps: {[(x[1], x[2]) for x in bad]}. output: {tail!r}",
                f"next/{name}/{cls}" + ("/fresh-root" if r in b.fresh else ""),
                inp=inp,
            )
            continue
        ccode = seq[3][1]
        after = chain_len(root, r)
        if ccode in (0, 11) and not (after > before[r] and (before[r] >= 0 or r in b.fresh)):
            run.violation(cid, f"the following create on '{r or '.'}' exits {ccode} but the chain lists {after} generations (before: {before[r]})", "next/create/not-recorded", inp=inp)
    check_state(run, cid, b, root, "after the following create", inp)
    return got


def state_key(root, exact):
    """the left-behind state: exact (every byte of every file of every ascmhl folder), or up to the content of files that
    are not named like a manifest or chain file (of those only: well-formed or not, empty or not)"""
    import hashlib

    h = hashlib.sha1()
    for rel, v in sorted(W.listing(root).items()):
        if "ascmhl" + os.sep not in rel and not rel.startswith("ascmhl"):
            continue
        h.update(rel.encode("utf8", "surrogateescape") + b"\0" + v[0].encode())
        if v[0] == "f":
            if exact or rel.endswith(".mhl") or rel.endswith("ascmhl_chain.xml"):
                h.update(b"%d:" % len(v[1]) + v[1])
            else:
                try:
                    ET.fromstring(v[1])
                    wf = b"wf"
                except ET.ParseError:
                    wf = b"nwf"
                h.update(wf + (b"0" if not v[1] else b"1"))
    return h.hexdigest()


# ------------------------------------------------------------------------------------------------ driver
ALL_MODES = ["lost", "flushed", "partial:one", "partial:half", "partial:last", "partial:mb", "full"]


def write_modes(tier, k, ks, rnd, chosen):
    """crash variants of the k-th effect, a write; ks = indices of all writes to the same file; chosen = the middle
    write of that file that is cut in the quick tier"""
    first, last = k == ks[0], k == ks[-1]
    if tier == "thorough":
        if first or last:
            return ALL_MODES
        return ["partial:half", "full", rnd.choice(["lost", "flushed", "partial:one", "partial:last", "partial:mb"])]
    if first:
        return ["lost", "partial:half"]
    if last:
        return ["lost", "partial:mb", "full"]
    return ["partial:half"] if k == chosen else []


class Rec:
    """what a worker process records for one (world, variant) task; merged into the Run by the parent"""

    def __init__(self, run, idx):
        self.tier, self.seed, self.only = run.tier, run.seed, run.only
        self.tmp = os.path.join(run.tmp, f"w{idx}")
        os.makedirs(self.tmp)
        self.cases, self.violations = [], []

    def want(self, cid):
        return self.only is None or self.only == cid

    def case(self, cid, key=None, sample=None):
        self.cases.append([cid, key, sample])

    def violation(self, cid, what, witness_class, contract=None, inp=None):
        self.violations.append([cid, what, witness_class, contract, inp])


def do_task(run, wi, spec, variant):
    thorough = run.tier == "thorough"
    wid, vn = spec["id"], variant[0]
    pre = f"{wid}/{vn}/"
    rnd = random.Random(f"{run.seed}/{pre}")
    copies = os.path.join(run.tmp, "c")
    os.makedirs(copies)
    serial = [0]

    def fresh(b):
        serial[0] += 1
        d = os.path.join(copies, f"k{serial[0]}")
        shutil.copytree(b.dir, d, symlinks=True)
        return d

    b = build_base(run, spec, wi)
    if b.setup_error:
        cid = pre + "setup"
        run.case(cid, None)
        run.violation(cid, b.setup_error, "setup/exit")
        return
    fmts = spec["fmts"]
    strict = bool(b.next_roots)
    # control 1: the following commands on the untouched old state
    d = fresh(b)
    absent = run_sequence(d, b, fmts)
    shutil.rmtree(d, ignore_errors=True)
    # count pass = the uninterrupted run: trace of effects; the completed state is control 2
    d = fresh(b)
    root = os.path.join(d, "t")
    argv, cwd, tz = argv_for(d, b, variant, fmts)
    tp = os.path.join(copies, "trace.json")
    how, ccode = spawn({"kind": "count"}, argv, cwd, tz, root, tp)
    with open(tp) as fh:
        tr = json.load(fh)
    events = tr["events"]
    inp0 = {"world": wid, "argv": [a.replace(d, "<copy>") for a in argv], "cwd": cwd.replace(d, "<copy>"), "TZ": tz, "strict_roots": b.strict}
    cid = pre + "complete"
    if run.want(cid):
        run.case(cid, None, sample={"case": cid, "exit": ccode, "effects": len(events), "lines": tr["lines"]})
        if how != "completed" or ccode not in (0, 11):
            run.violation(cid, f"the uninterrupted create {inp0['argv']} exits {ccode} ({how})", "setup/interrupted-create-exit", inp=inp0)
        check_state(run, cid, b, root, "after the completed create", inp0)
    present = run_sequence(d, b, fmts)
    if run.want(cid):
        check_state(run, cid, b, root, "after the completed and the following create", inp0)
        for r, seq in present.items():
            for i, (name, code, exc, tail) in enumerate(seq):
                if exc is not None or code in ABORT_CODES:
                    run.violation(cid, f"after a completed create, `{name}` on '{r or '.'}' exits {code} {exc}: {tail!r}", f"control/{name}", inp=inp0)
    shutil.rmtree(d, ignore_errors=True)
    allowed = [absent, present]
    # ---- crash plans
    plans = [("early", {"kind": "early", "k": 1}, ["ropen", None])]
    if tr["reads"] > 1:
        plans.append(("early-last", {"kind": "early", "k": tr["reads"]}, ["ropen", None]))
    wr_idx = {}
    for k, ev in enumerate(events):
        if ev[0] in ("write", "oswrite"):
            wr_idx.setdefault(ev[1], []).append(k)
    chosen = {rel: rnd.choice(ks[1:-1]) for rel, ks in sorted(wr_idx.items()) if len(ks) > 2}
    for k, ev in enumerate(events):
        sig = "kill" if k % 3 == 2 else "exit"
        if ev[0] in ("write", "oswrite"):
            for m in write_modes(run.tier, k, wr_idx[ev[1]], rnd, chosen.get(ev[1])):
                mode, _, cut = m.partition(":")
                plans.append((f"fs{k:03d}-{m.replace(':', '-')}", {"kind": "fs", "k": k, "mode": mode, "cut": cut or "half", "sig": sig}, ev))
        else:
            plans.append((f"fs{k:03d}-pre", {"kind": "fs", "k": k, "mode": "pre", "sig": sig}, ev))
    if events and (thorough or wi % 4 == 1):
        lo = max(events[0][3] - 1, 1)
        pts = list(range(lo, tr["lines"] + 1))
        cap = 60 if thorough else 12
        if len(pts) > cap:
            must = sorted({e[3] + 1 for e in events if lo <= e[3] + 1 <= tr["lines"]})
            must = must if len(must) <= cap // 2 else rnd.sample(must, cap // 2)
            rest = [p for p in pts if p not in set(must)]
            pts = sorted(set(must) | set(rnd.sample(rest, cap - len(must))))
        for p in pts:
            plans.append((f"line{p:05d}", {"kind": "line", "k": p, "sig": "kill" if p % 2 else "exit"}, ["line", None]))
    if STRACE and not os.environ.get("C15_NO_STRACE"):
        d = fresh(b)
        argv, cwd, tz = argv_for(d, b, variant, fmts)
        log = os.path.join(copies, "strace.log")
        how, _ = spawn_sys(None, 0, argv, cwd, tz, os.path.join(d, "t"), log)
        pts = sys_points(log, os.path.join(d, "t"), cwd) if how == "completed" else []
        shutil.rmtree(d, ignore_errors=True)
        cid = pre + "sys-trace"
        if run.want(cid):
            run.case(cid, None, sample={"case": cid, "strace": how, "points": len(pts)})
        for sname, idx, text in pts:
            plans.append((f"sys-{sname}{idx:03d}", {"kind": "sys", "call": sname, "k": idx}, ["syscall", text]))
    if os.environ.get("C15_DEBUG"):
        print(pre, len(events), "effects", tr["lines"], "lines", len(plans), "plans", file=sys.stderr)
    seen = set()
    for name, plan, ev in plans:
        cid = pre + name
        if not run.want(cid):
            continue
        d = fresh(b)
        root = os.path.join(d, "t")
        argv, cwd, tz = argv_for(d, b, variant, fmts)
        if plan["kind"] == "sys":
            how, code = spawn_sys(plan["call"], plan["k"], argv, cwd, tz, root, os.path.join(copies, "strace.log"))
            if how == "unavailable":
                shutil.rmtree(d, ignore_errors=True)
                continue
        else:
            how, code = spawn(plan, argv, cwd, tz, root, os.path.join(copies, "t"))
        inp = dict(inp0, crash=plan, effect=ev[:3], child=how)
        run.case(cid, [wid, vn, name] if (how == "killed" and strict) else None, sample={"case": cid, "effect": ev[:2], "child": how})
        stage = f"after the kill at {name} ({ev[0]} {ev[1]})" if how == "killed" else "after the completed create"
        nv = check_state(run, cid, b, root, stage, inp)
        if strict:
            # the following commands are run once per left-behind state of this world and variant: per exactly equal
            # state (thorough; loses nothing, the commands are deterministic), per state up to the bytes of files
            # that are not named like a manifest or chain file (quick)
            key = state_key(root, exact=thorough)
            if run.only or key not in seen or nv:
                seen.add(key)
                check_next(run, cid, b, d, fmts, allowed, inp)
        shutil.rmtree(d, ignore_errors=True)
    shutil.rmtree(b.dir, ignore_errors=True)


def run_tasks(run, tasks, jobs):
    """each task in a forked worker (which forks the processes to be killed), big ones first; results merged in task order"""
    pending = sorted(enumerate(tasks), key=lambda it: -len(it[1][1]["steps"]))
    running = {}
    failed = []
    while pending or running:
        while pending and len(running) < jobs:
            idx, t = pending.pop(0)
            out = os.path.join(run.tmp, f"r{idx}.json")
            sys.stdout.flush()
            sys.stderr.flush()
            pid = os.fork()
            if pid == 0:
                code = 0
                try:
                    rec = Rec(run, idx)
                    do_task(rec, *t)
                    with open(out, "w") as fh:
                        json.dump({"cases": rec.cases, "violations": rec.violations}, fh)
                    shutil.rmtree(rec.tmp, ignore_errors=True)
                except BaseException:
                    code = 1
                    with open(out + ".err", "w") as fh:
                        fh.write(traceback.format_exc())
                finally:
                    os._exit(code)
            running[pid] = idx
        pid, status = os.wait()
        idx = running.pop(pid)
        if status != 0:
            failed.append(idx)
    for idx, t in enumerate(tasks):
        out = os.path.join(run.tmp, f"r{idx}.json")
        if idx in failed or not os.path.exists(out):
            err = open(out + ".err").read() if os.path.exists(out + ".err") else "worker died"
            shutil.rmtree(run.tmp, ignore_errors=True)
            raise RuntimeError(f"C15 worker for {t[1]['id']}/{t[2][0]} failed:\n{err}")
        with open(out) as fh:
            res = json.load(fh)
        for cid, key, sample in res["cases"]:
            run.case(cid, tuple(key) if key else None, sample=sample)
        for cid, what, wclass, contract, inp in res["violations"]:
            run.violation(cid, what, wclass, contract=contract, inp=inp)


def main():
    run = Run(
        "C15",
        rule="case = (world, invocation variant of the interrupted create, crash point); crash point = k-th file-system effect below the "
        "root (mkdir / open-for-write / write / flush / close / rename / remove; a write applied not at all with the buffer lost or "
        "drained, cut at 1 / half / inside a multi-byte character / last byte, or fully), or the first / last read, or the k-th "
        "executed source line of the package from the first effect on, or entry to the k-th mutating system call of the uninstrumented "
        "command (strace inject), or no crash; non-trivial = the child process really died at "
        "that point (os._exit or SIGKILL) in a world with at least one history that has >= 1 committed generation",
        bound="19 worlds (quick) / 21 (thorough): 0, 1, 2, 3, 6, 11 prior generations, flat and nested up to 3 levels (child committed before "
        "parent, parent with 0 prior generations, child younger than the parent's first generation, create interrupted at a nested root and continued at the outer root), prefix-sibling / space / NFC / NFD / "
        "XML-special / U+2028 names, empty tree, empty dirs, symlink, a 40-file tree whose manifest exceeds the 8 KiB write buffer, 1 MiB +-1 files, mixed format sets, -n, -sf, failed (exit 11) and "
        "ignore-pattern generations; 8 invocation variants (root absolute / trailing slash / relative / '.', repeated -h, -n, -v with "
        "XML-special author and comment, POSIX DST time zone, +13:45 zone): 1-2 per world (quick), all for worlds <= 2 histories and 4 for "
        "the others (thorough); every effect of the trace (quick: first, last and one middle write per file; thorough: every write "
        "in >= 3 ways, first and last in 7); <= 12 (quick, 4 worlds) / <= 60 (thorough) source-line crash points per world and variant; every mutating system call below the root",
    )
    thorough = run.tier == "thorough"
    worlds = [w for w in WORLDS if thorough or w.get("tier") != "thorough"]
    tasks = []
    nv = len(VARIANTS)
    for wi, spec in enumerate(worlds):
        wid = spec["id"]
        if os.environ.get("C15_WORLDS") and wid not in os.environ["C15_WORLDS"].split(","):
            continue
        if thorough:
            nh = len({s[1] for s in spec["steps"] if s[0].startswith("create")})
            variants = VARIANTS if (nh <= 1 and wid != "wide") else [VARIANTS[(wi + j * 2) % nv] for j in range(4)]
        else:
            variants = [VARIANTS[wi % nv]] + ([VARIANTS[(wi + 3) % nv]] if spec.get("two") else [])
        for variant in variants:
            if run.only and not run.only.startswith(f"{wid}/{variant[0]}/"):
                continue
            tasks.append((wi, spec, variant))
    jobs = int(os.environ.get("C15_JOBS", "0") or 0) or max(2, min(8, (os.cpu_count() or 4) // 2))
    run_tasks(run, tasks, jobs)
    run.finish()


if __name__ == "__main__":
    main()
