"""C19 bounded part: `info FOLDER` and `info -sf FILE` against the manifests on disk, on many small histories.

Oracle (from the statement only): the generations of a history are the manifest files in its ascmhl folder (number = the
leading digits of the file name, cross-checked with the chain file), their creation dates are the <creationdate> texts;
the digests recorded for a file are the format elements of the <hash> records whose <path> is the file's path relative to
its nearest enclosing history (= the deepest directory holding an ascmhl folder that contains the file).  Manifests are
read with xml.etree (world.read_manifest), never with the tool's reader.  Only the listing lines of the output are
interpreted: `Generation N (DATE)` lines, grouped by the `Child History at PATH:` headings, and for -sf the
`Generation N (DATE) FORMAT: DIGEST (ACTION)` lines."""
import collections
import datetime
import os
import re
import shutil
import subprocess
import sys
import time

from . import scen as S
from . import world as W
from .common import REPO, Run

GEN_RE = re.compile(r"^\s*Generation (\d+) \((.*?)\)(.*)$")
TAIL_RE = re.compile(r"^ ([A-Za-z0-9]+): (\S+) \(([^()]*)\)\s*$")
CHILD_RE = re.compile(r"^Child History at (.*):$")
HEAD = "Info with history at path: "
M = 1 << 20
NFC = "Café"

# trees of this driver in addition to the shared pool
EXTRA_TREES = {
    "big": {"m/below.bin": b"b" * (M - 1), "m/at.bin": b"a" * M, "m/above.bin": b"c" * (M + 1), "m/empty.bin": b"", "e/": ""},
    "links": {"real/a.txt": "a", "real/b.txt": "b", "lnk.txt": ("link", "real/a.txt"), "real/in.lnk": ("link", "b.txt")},
    "twins": {NFC + "/x.txt": "nfc", S.NFD + "/x.txt": "nfd", "N\u2028L/y&<.txt": "y", "sp ace/in ner/z.txt": "z", "q'\"/w.txt": "w"},
    "ignnest": {"keep/k.txt": "k", "skip/inner/s.txt": "s", "skip/t.txt": "t", "skip.txt": "x"},
}
EXTRA_NESTED = {
    "big": [[], ["m"]],
    "links": [[], ["real"]],
    "twins": [[NFC, S.NFD], ["N\u2028L", "sp ace/in ner", "sp ace", "q'\""]],
    "ignnest": [["skip/inner"]],
}
TREES = dict(S.TREES, **EXTRA_TREES)
NESTED = dict(S.NESTED, **EXTRA_NESTED)


# ------------------------------------------------------------------------------------------------ simulated clock
class Clock:
    """every generation gets its own creation instant (freezegun), so that a date taken from the wrong generation or the
    wrong history shows; the steps cross both daylight saving switches of 2021 and the repeated hour"""

    STEPS = [3671, 86400 + 59, 1800, 7 * 86400 + 1, 224 * 86400 + 21600, 1800, 1800, 3600, 40 * 86400 + 7]

    def __init__(self):
        self.now = datetime.datetime(2021, 3, 27, 22, 10, 0)
        self.i = 0
        self.freezer = None
        self.frozen = None
        try:
            from freezegun import freeze_time

            self.freezer = freeze_time(self.now)
            self.frozen = self.freezer.start()
        except Exception:  # no simulated clock: fall back to the real one (dates then differ only across seconds)
            self.freezer = None

    def reset(self):
        self.now = datetime.datetime(2021, 3, 27, 22, 10, 0)
        self.i = 0

    def tick(self):
        self.now += datetime.timedelta(seconds=self.STEPS[self.i % len(self.STEPS)])
        self.i += 1
        if self.frozen is not None:
            self.frozen.move_to(self.now)

    def stop(self):
        if self.freezer is not None:
            self.freezer.stop()
            self.freezer = None
            self.frozen = None


ORIG_TZ = os.environ.get("TZ")


def set_tz(tz):
    if tz is None:
        os.environ.pop("TZ", None)
    else:
        os.environ["TZ"] = tz
    time.tzset()


# ------------------------------------------------------------------------------------------------ independent oracle
_GENS = {}


def history_gens(hroot):
    """[(number, creationdate text, manifest)] ascending, and whether the chain file agrees with the folder content
    (cached per world: the cache is emptied whenever a world is built or changed)"""
    if hroot not in _GENS:
        _GENS[hroot] = _history_gens(hroot)
    return _GENS[hroot]


def _history_gens(hroot):
    gens = []
    for mf in W.manifests(hroot):
        base = os.path.basename(mf)
        if base.startswith("._"):
            continue
        m = re.match(r"^(\d{4,})(?:_.*)?\.mhl$", base)
        if not m:
            continue
        man = W.read_manifest(mf)
        gens.append((int(m.group(1)), man["creator"]["creationdate"], man))
    gens.sort(key=lambda g: g[0])
    consistent = True
    cp = W.chain_path(hroot)
    if os.path.isfile(cp):
        try:
            ch = W.read_chain(cp)
            consistent = sorted(int(s) for s, _, _ in ch) == [g[0] for g in gens] and sorted(p for _, p, _ in ch) == sorted(
                os.path.basename(g[2]["file"]) for g in gens
            )
        except Exception:
            consistent = False
    else:
        consistent = not gens and not os.path.isdir(os.path.join(hroot, "ascmhl"))
    return gens, consistent


def chain_numbers(hroot):
    try:
        return {int(s) for s, _, _ in W.read_chain(W.chain_path(hroot))}
    except Exception:
        return set()


def expected_lines(hroot, rel):
    """multiset of (generation, format, digest, action) recorded for the path `rel` (POSIX, relative to hroot);
    second value: the lines recorded under an earlier name of the file (tolerated, not required); third: renamed?"""
    want, earlier = collections.Counter(), collections.Counter()
    gens, _ = history_gens(hroot)
    old = {r["previous"] for _, _, m in gens for r in m["records"] if r["path"] == rel and r["previous"]}
    for n, _, m in gens:
        for r in m["records"]:
            if r["is_dir"]:
                continue
            if r["path"] == rel:
                for e in r["entries"]:
                    want[(n, e["format"], e["digest"], str(e["action"]))] += 1
            elif r["path"] in old:
                for e in r["entries"]:
                    earlier[(n, e["format"], e["digest"], str(e["action"]))] += 1
    return want, earlier, bool(old)


def same_date(printed, written):
    if printed == written:
        return True
    try:
        a, b = datetime.datetime.fromisoformat(printed), datetime.datetime.fromisoformat(written)
        return a.tzinfo is not None and b.tzinfo is not None and a == b
    except Exception:
        return False


def same_path(a, b):
    try:
        return os.path.realpath(a) == os.path.realpath(b)
    except Exception:
        return False


# ------------------------------------------------------------------------------------------------ output readers
def parse_folder(out):
    head, sections = None, [[None, []]]
    for line in out.split("\n"):
        if line.startswith(HEAD) and head is None:
            head = line[len(HEAD) :]
            continue
        c = CHILD_RE.match(line)
        if c:
            sections.append([c.group(1), []])
            continue
        g = GEN_RE.match(line)
        if g:
            sections[-1][1].append((int(g.group(1)), g.group(2)))
    return head, sections


def parse_sf(out):
    head, lines, bad = None, collections.Counter(), []
    for line in out.split("\n"):
        if line.startswith(HEAD):
            if head is None:
                head = line[len(HEAD) :]
            continue
        g = GEN_RE.match(line)
        if g:
            t = TAIL_RE.match(g.group(3))
            if t:
                lines[(int(g.group(1)), t.group(1), t.group(2), t.group(3))] += 1
            else:
                bad.append(line)
    return head, lines, bad


# ------------------------------------------------------------------------------------------------ checks
def check_folder(run, cid, key, hroot, args, cwd, sample=None):
    """info on a folder that holds a history: its generations and those of every nested history"""
    code, out, exc = W.run("info", args, cwd=cwd)
    nested = W.nested_roots(hroot)
    exp = {"": history_gens(hroot)}
    for nr in nested:
        exp[nr] = history_gens(os.path.join(hroot, nr))
    consistent = all(c for _, c in exp.values())
    run.case(cid, key if consistent else None, sample=sample or {"case": cid, "exit": code, "histories": 1 + len(nested)})
    inp = {"args": args, "cwd": cwd}
    if exc is not None:
        run.violation(cid, f"info {args} raises {exc!r}", "folder/exception", inp=inp)
        return
    if not consistent:
        # interrupted writes: the chain and the folder disagree about what exists; only the common part is demanded
        _, sections = parse_folder(out)
        if code == 0:
            for sp, lines in sections:
                hr = hroot if sp is None else sp
                rel = next((r for r in exp if same_path(os.path.join(hroot, r) if r else hroot, hr)), None)
                if rel is None:
                    continue
                hp = os.path.join(hroot, rel) if rel else hroot
                files, chain = {g[0] for g in exp[rel][0]}, chain_numbers(hp)
                got = {n for n, _ in lines}
                if not (files & chain) <= got or not got <= (files | chain):
                    run.violation(cid, f"history {rel or '.'}: lists {sorted(got)}, manifests {sorted(files)}, chain {sorted(chain)}", "folder/interrupted", inp=inp)
        return
    if code != 0:
        run.violation(cid, f"info {args} exits {code} on an existing history: {out[-300:]!r}", "folder/exit", inp=inp)
        return
    _, sections = parse_folder(out)
    seen = {}
    for sp, lines in sections:
        if sp is None:
            rel = ""
        else:
            rel = next((r for r in nested if same_path(os.path.join(hroot, r), sp)), None)
            if rel is None:
                run.violation(cid, f"lists a child history at {sp!r}; nested histories on disk: {nested}", "folder/extra-child", inp=inp)
                continue
        if rel in seen:
            run.violation(cid, f"history {rel or '.'} is listed twice", "folder/duplicate-child", inp=inp)
            continue
        seen[rel] = lines
    for rel in exp:
        if rel not in seen:
            run.violation(cid, f"nested history {rel!r} ({len(exp[rel][0])} generations) is not listed", "folder/missing-child", inp=inp)
            continue
        want = exp[rel][0]
        got_n, want_n = [n for n, _ in seen[rel]], [g[0] for g in want]
        if sorted(got_n) != want_n:
            miss = sorted(set(want_n) - set(got_n))
            extra = sorted(n for n in got_n if n not in want_n) + sorted({n for n in got_n if got_n.count(n) > 1})
            wc = "folder/missing-generation" if miss else "folder/extra-generation"
            run.violation(cid, f"history {rel or '.'}: lists generations {got_n}, manifests on disk are {want_n} (missing {miss}, extra {extra})", wc, inp=inp)
            continue
        if got_n != want_n:
            run.violation(cid, f"history {rel or '.'}: generations listed as {got_n}, not ascending", "folder/order", inp=inp)
        dates = {g[0]: g[1] for g in want}
        for n, d in seen[rel]:
            if not same_date(d, dates[n]):
                run.violation(cid, f"history {rel or '.'} generation {n}: date shown {d!r}, manifest says {dates[n]!r}", "folder/date", inp=inp)


def check_nohistory(run, cid, key, args, cwd, wclass):
    code, out, exc = W.run("info", args, cwd=cwd)
    run.case(cid, key, sample={"case": cid, "exit": code})
    inp = {"args": args, "cwd": cwd}
    if exc is not None:
        run.violation(cid, f"info {args} raises {exc!r} where there is no history", wclass + "/exception", inp=inp)
    elif code != 30:
        run.violation(cid, f"info {args} exits {code}, expected 30 (no history): {out[-300:]!r}", wclass + "/exit", inp=inp)
    elif any(GEN_RE.match(l) for l in out.split("\n")):
        run.violation(cid, f"info {args} lists generations although there is no history: {out[-300:]!r}", wclass + "/lines", inp=inp)


def has_enclosing_history(path):
    d = os.path.dirname(os.path.abspath(path))
    while True:
        if os.path.exists(os.path.join(d, "ascmhl")):
            return True
        p = os.path.dirname(d)
        if p == d:
            return False
        d = p


def check_sf(run, cid, key, root, files, args, cwd, times=(1,), wc="sf"):
    """files: world-root relative paths named by the -sf options (all in one history); times: accepted multiplicities of
    the expected lines (naming the same file twice may print its lines once or twice)"""
    roots = W.nested_roots(root)
    h = W.owner_of(files[0], roots)
    hroot = os.path.join(root, h) if h else root
    gens, consistent = history_gens(hroot)
    want, earlier, renamed = collections.Counter(), collections.Counter(), False
    for f in files if len(times) == 1 else files[:1]:
        rel = (os.path.relpath(f, h) if h else f).replace(os.sep, "/")
        w, e, r = expected_lines(hroot, rel)
        want += w
        earlier += e
        renamed = renamed or r
    code, out, exc = W.run("info", args, cwd=cwd)
    run.case(cid, (key + (len(want) > 0,)) if consistent and gens else None, sample={"case": cid, "exit": code, "lines": sum(want.values())})
    inp = {"args": args, "cwd": cwd, "history": h or "."}
    if exc is not None:
        run.violation(cid, f"info {args} raises {exc!r}", wc + "/exception", inp=inp)
        return
    if not gens:
        return
    if not consistent:
        return
    head, got, bad = parse_sf(out)
    if code != 0 and want:
        run.violation(cid, f"info {args} exits {code} for a recorded file: {out[-300:]!r}", wc + "/exit", inp=inp)
        return
    if bad:
        run.violation(cid, f"digest line not of the form 'Generation N (date) format: digest (action)': {bad[0]!r}", wc + "/line-form", inp=inp)
    if head is not None and code == 0 and not same_path(head, hroot):
        run.violation(cid, f"reports from the history at {head!r}, the nearest enclosing history of {files[0]!r} is {hroot!r}", wc + "/history", inp=inp)
    ok = False
    if renamed and ("-v" in args or "--verbose" in args):
        # the verbose report of a renamed file embeds a report on its earlier name, which repeats lines: sets, not counts
        ok = set(want) <= set(got) and set(got) <= set(want) | set(earlier)
    for k in times:
        wk = collections.Counter({x: c * k for x, c in want.items()})
        extra = got - wk
        if not (wk - got) and not (extra - collections.Counter({x: c * k for x, c in earlier.items()})):
            ok = True
    if not ok:
        k = times[0]
        wk = collections.Counter({x: c * k for x, c in want.items()})
        miss, extra = sorted((wk - got).elements()), sorted((got - wk).elements())
        wcl = wc + ("/missing-line" if miss and not extra else ("/extra-line" if extra and not miss else "/wrong-line"))
        run.violation(
            cid,
            f"{files}: {sum(got.values())} digest lines, {sum(wk.values())} digests recorded in history {h or '.'}; "
            f"recorded but not shown: {miss[:4]}; shown but not recorded: {extra[:4]}",
            wcl,
            inp=inp,
        )


# ------------------------------------------------------------------------------------------------ history scripts
def C(target, fmts, extra=()):
    return ("C", target, list(fmts), list(extra))


def scripts(spec, nested, tier, fsets, rich=True):
    """named step lists; steps: C(target history, formats, extra args) | ("SF", files, formats) | ("W", path, content) |
    ("MV", a, b) | ("RM", path) | ("TZ", zone) | ("IGN", lines)"""
    files = sorted(k for k, v in spec.items() if not k.endswith("/") and not isinstance(v, tuple))
    f0 = files[0] if files else None
    fl = files[-1] if files else None
    base = [C(nr, ["xxh64"]) for nr in nested]
    inner = next((f for f in files if W.owner_of(f, nested)), None)
    out = collections.OrderedDict()
    out["one"] = base + [C("", ["md5"])]
    mix = [["xxh64"], ["md5", "c4"], ["sha1"], ["xxh64", "md5"], ["xxh3", "xxh128"]]
    if tier == "thorough" and rich:
        mix = fsets
    out["fmtmix"] = base + [C("", f) for f in mix]
    if f0:
        orig = spec[f0]
        out["fail"] = base + [
            C("", ["md5"]),
            ("W", f0, "CHANGED"),
            C("", ["md5"]),
            C("", ["c4"]),
            ("W", f0, orig),
            C("", ["c4", "md5"]),
            ("W", fl, "changed too"),
            C("", ["xxh64", "sha1"]),
            ("W", fl, spec[fl]),
            C("", ["md5"]),
        ]
        out["sfgen"] = base + [
            C("", ["md5"]),
            ("SF", [f0], ["c4"]),
            C("", ["md5"], ["-n"]),
            ("SF", [fl, fl], ["sha1", "sha1"]),
            ("SF", [f0, fl], ["xxh64"]),
            C("", ["c4"], ["-n"]),
        ]
        # (create -dr aborts when the renamed file lies in a nested history - not this property's business - so a file of
        # the outer history is renamed where there is one)
        fr = next((f for f in files if not W.owner_of(f, nested)), f0)
        out["rename"] = base + [C("", ["md5"]), ("MV", fr, fr + ".renamed"), C("", ["c4"], ["-dr"]), C("", ["md5", "c4"])]
        out["grow"] = base + [
            C("", ["md5"]),
            ("W", "added/new file.bin", "n"),
            ("W", "later.txt", "l"),
            # a file of the same name elsewhere that is recorded in later generations only
            ("W", os.path.basename(f0) if os.path.dirname(f0) else "sub dir/" + f0, "same name elsewhere"),
            C("", ["md5"]),
            ("RM", fl),
            C("", ["c4"]),
            ("W", "after last generation.bin", "u"),
        ]
        out["ignore"] = base + [
            C("", ["md5"]),
            C("", ["md5"], ["-i", "*.txt"]),
            C("", ["c4"], ["-i", os.path.dirname(f0) + "/" if os.path.dirname(f0) else f0]),
            ("IGN", ["/" + files[len(files) // 2], "!*.txt", "E/"]),
            C("", ["c4", "md5"], ["-ii", "@IGN"]),
            C("", ["md5"], ["-i", "!" + f0]),
        ]
    n_many = 12 if tier != "thorough" or not rich else 27
    out["many"] = base + [C("", [["md5"], ["xxh64"], ["c4", "md5"]][i % 3], ["-n"] if i % 5 == 4 else []) for i in range(n_many)]
    out["tz"] = base + [
        ("TZ", "Europe/Berlin"),
        C("", ["md5"]),
        ("TZ", "EST5EDT,M3.2.0,M11.1.0"),
        C("", ["md5"]),
        ("TZ", "Asia/Kathmandu"),
        C("", ["c4"]),
        ("TZ", "CET-1CEST,M3.5.0,M10.5.0/3"),
        C("", ["md5"]),
        C("", ["md5"]),
        ("TZ", "Pacific/Chatham"),
        C("", ["xxh64"]),
        ("TZ", "UTC"),
    ]
    if nested:
        out["nestedsolo"] = base + [C("", ["md5"]), C(nested[0], ["c4"]), C(nested[-1], ["sha1"]), C(nested[0], ["c4"], ["-n"]), C("", ["md5"])]
        if inner:
            out["nestedfail"] = base + [C("", ["md5"]), ("W", inner, "CHANGED"), C("", ["md5"]), C(W.owner_of(inner, nested), ["xxh64"]), C("", ["c4"])]
    else:
        dirs = sorted({os.path.dirname(f) for f in files if os.path.dirname(f)})
        if dirs:
            # a history that is created inside an already sealed tree: the outer history keeps records of the files,
            # the nearest enclosing history of these files is now the new one
            out["latenest"] = [C("", ["md5"]), C("", ["c4"]), C(dirs[0], ["sha1"]), C(dirs[-1], ["sha1"]), C(dirs[0], ["xxh64"])]
            out["latenest+outer"] = out["latenest"] + [C("", ["md5"])]
    return out


def play(root, tmp, spec, steps, clock):
    """build the tree and run the steps; returns the list of create exit codes"""
    W.build(root, spec)
    codes = []
    ign = os.path.join(tmp, "ignore file.txt")
    for st in steps:
        if st[0] == "C":
            _, target, fmts, extra = st
            extra = [ign if a == "@IGN" else a for a in extra]
            clock.tick()
            code, out, exc = W.run("create", [os.path.join(root, target) if target else root] + S.hargs(fmts) + extra)
            codes.append(code if exc is None else "exc")
        elif st[0] == "SF":
            _, fs, fmts = st
            args = [root] + S.hargs(fmts)
            for f in fs:
                if os.path.exists(os.path.join(root, f)):
                    args += ["-sf", os.path.join(root, f)]
            clock.tick()
            code, out, exc = W.run("create", args)
            codes.append(code if exc is None else "exc")
        elif st[0] == "W":
            W.build(root, {st[1]: st[2]})
        elif st[0] == "MV":
            if os.path.exists(os.path.join(root, st[1])):
                os.rename(os.path.join(root, st[1]), os.path.join(root, st[2]))
        elif st[0] == "RM":
            if os.path.exists(os.path.join(root, st[1])):
                os.remove(os.path.join(root, st[1]))
        elif st[0] == "TZ":
            set_tz(st[1])
        elif st[0] == "IGN":
            with open(ign, "w", encoding="utf-8") as fh:
                fh.write("\n".join(st[1]) + "\n")
    return codes


def renumber(hroot, old, new):
    """give generation `old` of the history at hroot the number `new` (file name and chain entry; the chain's digest of
    the manifest is a content digest and stays valid) - the way to reach five-digit and non-contiguous numbers"""
    mf = next(m for m in W.manifests(hroot) if os.path.basename(m).startswith(f"{old:04d}_"))
    name = os.path.basename(mf)
    new_name = f"{new:04d}" + name[4:]
    os.rename(mf, os.path.join(os.path.dirname(mf), new_name))
    cp = W.chain_path(hroot)
    with open(cp, encoding="utf-8") as fh:
        text = fh.read()
    assert text.count(name) == 1 and text.count(f'sequencenr="{old}"') == 1
    with open(cp, "w", encoding="utf-8") as fh:
        fh.write(text.replace(name, new_name).replace(f'sequencenr="{old}"', f'sequencenr="{new}"'))


def tree_files(root):
    """(files, directories) below root, relative, ascmhl folders left out"""
    fs, ds = [], []
    for dp, dns, fns in os.walk(root):
        dns.sort()
        if "ascmhl" in dns:
            dns.remove("ascmhl")
        for n in dns:
            ds.append(os.path.relpath(os.path.join(dp, n), root))
        for n in sorted(fns):
            fs.append(os.path.relpath(os.path.join(dp, n), root))
    return fs, ds


SF_SPELLINGS = ["cwd-dir", "cwd-out", "dotdot", "twice", "pair", "verbose", "long-option", "cwd-root"]


def sf_invocation(spell, root, tmp, f, other):
    a = os.path.join(root, f)
    if spell == "abs":
        return ["-sf", a], None, [f], (1,)
    if spell == "cwd-dir":
        return ["-sf", os.path.basename(a)], os.path.dirname(a), [f], (1,)
    if spell == "cwd-out":
        return ["-sf", os.path.join(os.path.basename(root), f)], tmp, [f], (1,)
    if spell == "cwd-root":
        return ["-sf", "." + os.sep + f], root, [f], (1,)
    if spell == "dotdot":
        d = os.path.dirname(a)
        return ["-sf", os.path.join(d, "..", os.path.basename(d), os.path.basename(a))], None, [f], (1,)
    if spell == "twice":
        return ["-sf", a, "-sf", a], None, [f, f], (2, 1)
    if spell == "pair":
        if other is None:
            return None
        return ["-sf", a, "-sf", os.path.join(root, other)], None, [f, other], (1,)
    if spell == "verbose":
        return ["-v", "-sf", a], None, [f], (1,)
    if spell == "long-option":
        return ["--single_file", a], None, [f], (1,)
    raise KeyError(spell)


def query_world(run, wid, root, tmp, tier):
    """all info questions on one finished world. tier 'thorough': every spelling on every history and file; 'quick': the
    absolute spelling everywhere plus spellings rotated over the histories and files (the rotation depends on the world
    id and the seed only, so a case id can be replayed); 'min': absolute spellings only"""
    _GENS.clear()
    rot = sum(map(ord, wid)) + run.seed
    if run.only and tier == "quick":
        full = True  # replay of one case: enumerate every spelling so that the id is reached
    else:
        full = tier == "thorough"
    roots = W.nested_roots(root)
    hist = [""] + roots
    # ---- folder mode on every history of the world
    for hi, h in enumerate(hist):
        hroot = os.path.join(root, h) if h else root
        spells = [("abs", [hroot], None)]
        if tier == "min":
            pass
        elif h == "":
            link = os.path.join(tmp, "root link")
            if not os.path.lexists(link):
                os.symlink(root, link)
            spells += [
                ("slash", [root + os.sep], None),
                ("rel", [os.path.basename(root)], tmp),
                ("dot", ["."], root),
                ("dotdot", [os.path.join(root, "..", os.path.basename(root))], None),
                ("symlink", [link], None),
                ("verbose", ["-v", root], None),
                ("verbose-long", [root, "--verbose"], None),
            ]
        elif hi == 1 or full:
            spells += [("rel", [h], root), ("slash", [hroot + os.sep], None), ("dot", ["."], hroot)]
        if not full and len(spells) > 1:
            rest = spells[1:]
            spells = spells[:1] + [rest[(rot + j * 3) % len(rest)] for j in range(2 if h == "" else 1)]
        for sname, args, cwd in spells:
            cid = f"{wid}/folder/{h or '.'}/{sname}"
            if run.want(cid):
                check_folder(run, cid, (wid, "folder", h, sname), hroot, args, cwd)
    # ---- folders without a history of their own
    fs, ds = tree_files(root)
    # (a dangling symbolic link cannot be named: the option demands an existing path)
    fs = [f for f in fs if os.path.exists(os.path.join(root, f)) and not os.path.isdir(os.path.join(root, f))]
    plain = [d for d in ds if d not in roots]
    for d in plain if full else plain[rot % 2 : rot % 2 + (2 if tier == "quick" else 0)]:
        cid = f"{wid}/nohistory-folder/{d}"
        if run.want(cid):
            check_nohistory(run, cid, (wid, "nohist", d), [os.path.join(root, d)], None, "nohistory-folder")
    # ---- single files: every file on disk (recorded in some, all or no generations)
    for i, f in enumerate(fs):
        h = W.owner_of(f, roots)
        mates = [g for g in fs if g != f and W.owner_of(g, roots) == h]
        other = mates[(i + rot) % len(mates)] if mates else None
        if full:
            spells = ["abs"] + SF_SPELLINGS
        elif tier == "min":
            spells = ["abs"]
        else:
            spells = ["abs"]
            if (i + rot) % 2 == 0 or h:
                spells.append(SF_SPELLINGS[(i // 2 + rot) % len(SF_SPELLINGS)])
        for sp in spells:
            inv = sf_invocation(sp, root, tmp, f, other)
            if inv is None:
                continue
            args, cwd, named, times = inv
            cid = f"{wid}/sf/{f}/{sp}"
            if run.want(cid):
                check_sf(run, cid, (wid, "sf", f, sp), root, named, args, cwd, times)
    # ---- a file of the history folder itself: nothing is recorded for it
    mfs = W.manifests(root)
    if mfs and tier != "min":
        cid = f"{wid}/sf/ascmhl-file/abs"
        if run.want(cid):
            check_sf(run, cid, (wid, "sf", "ascmhl-file"), root, [os.path.relpath(mfs[0], root)], ["-sf", mfs[0]], None)


# ------------------------------------------------------------------------------------------------ interrupted create
CRASH_CHILD = r"""
import os, sys
k = int(sys.argv[1]); root = sys.argv[2]; args = sys.argv[3:]
cnt = [0]
W = os.O_WRONLY | os.O_RDWR | os.O_CREAT | os.O_APPEND | os.O_TRUNC
def hook(ev, a):
    try:
        if ev == "open":
            p, flags = a[0], a[2]
            if not isinstance(p, (str, bytes)) or not isinstance(flags, int) or not (flags & W):
                return
        elif ev in ("os.rename", "os.mkdir", "os.remove", "os.rmdir", "os.truncate", "os.link", "os.symlink"):
            p = a[0]
        else:
            return
        if not os.fsdecode(p).startswith(root):
            return
    except Exception:
        return
    cnt[0] += 1
    if cnt[0] == k:
        sys.stdout.flush()
        os._exit(99)
sys.addaudithook(hook)
from ascmhl import commands
code = 0
try:
    commands.create.main(args, standalone_mode=False)
except SystemExit as e:
    code = e.code
except BaseException as e:
    code = getattr(e, "exit_code", 1)
print("EVENTS", cnt[0])
sys.exit(0)
"""


def crash_child(k, root, args):
    env = dict(os.environ)
    env["PYTHONPATH"] = REPO + os.pathsep + env.get("PYTHONPATH", "")
    env.pop("TZ", None)
    p = subprocess.run([sys.executable, "-c", CRASH_CHILD, str(k), root] + args, env=env, capture_output=True, text=True, timeout=120)
    m = re.search(r"EVENTS (\d+)", p.stdout)
    return p.returncode, (int(m.group(1)) if m else None), p.stderr[-300:]


def crash_part(run, clock, tier):
    worlds = [("deep", ["A"], [])]
    if tier == "thorough":
        worlds += [("levels", ["L1/L2", "L1"], []), ("flat", [], ["-n"]), ("prefix", ["Clips"], [])]
    for tree, nested, extra in worlds:
        proto = os.path.join(run.tmp, f"crash_proto_{tree}")
        root0 = os.path.join(proto, "t")
        play(root0, proto, TREES[tree], [C(nr, ["xxh64"]) for nr in nested] + [C("", ["md5"]), ("W", "late.txt", "l")], clock)
        probe = os.path.join(run.tmp, "crash_probe")
        shutil.copytree(proto, probe, symlinks=True)
        _, total, err = crash_child(0, os.path.join(probe, "t"), [os.path.join(probe, "t"), "-h", "c4"] + extra)
        shutil.rmtree(probe, ignore_errors=True)
        if not total:
            cid = f"crash/{tree}/probe"
            if run.want(cid):
                run.case(cid, None, sample={"case": cid, "note": "no file-system events observed: " + err})
            continue
        for k in range(1, total + 1):
            wid = f"crash/{tree}/{'+'.join(nested) or '-'}/k{k}of{total}"
            if run.only and not run.only.startswith(wid + "/"):
                continue
            tmp = os.path.join(run.tmp, f"crash_{tree}_{k}")
            shutil.copytree(proto, tmp, symlinks=True)
            root = os.path.join(tmp, "t")
            rc, _, err = crash_child(k, root, [root, "-h", "c4"] + extra)
            query_world(run, wid + "/after-kill", root, tmp, "min" if tier != "thorough" else "quick")
            # the next commands, among them another create, then the same questions again
            clock.tick()
            W.run("verify", [root])
            W.run("create", [root, "-h", "md5"])
            query_world(run, wid + "/after-next-create", root, tmp, "min" if tier != "thorough" else "quick")
            shutil.rmtree(tmp, ignore_errors=True)
        shutil.rmtree(proto, ignore_errors=True)


# ------------------------------------------------------------------------------------------------ no history at all
def nohistory_part(run, clock):
    base = os.path.join(run.tmp, "nohist")
    if has_enclosing_history(os.path.join(base, "x")):
        return  # some ancestor of the temp dir carries an ascmhl folder: the cases below would not be without history
    # prefix siblings: only Clips carries a history, no outer one
    root = os.path.join(base, "p")
    W.build(root, TREES["prefix"])
    clock.tick()
    W.run("create", [os.path.join(root, "Clips"), "-h", "md5"])
    W.build(root, {"empty dir/": "", "Clip/short.mov": "s", "Clips /space.mov": "s"})
    for name, args, cwd in [
        ("folder/outer", [root], None),
        ("folder/outer-slash", [root + os.sep], None),
        ("folder/outer-dot", ["."], root),
        ("folder/sibling-prefix", [os.path.join(root, "Clips_proxy")], None),
        ("folder/sibling-short", [os.path.join(root, "Clip")], None),
        ("folder/sibling-space", [os.path.join(root, "Clips ")], None),
        ("folder/empty", [os.path.join(root, "empty dir")], None),
        ("folder/below-history", [os.path.join(root, "Clips", "sub")], None),
        ("folder/verbose", ["-v", root], None),
    ]:
        cid = f"nohistory/{name}"
        if run.want(cid):
            check_nohistory(run, cid, ("nohistory", name), args, cwd, "nohistory-folder")
    for name, args, cwd in [
        ("sf/outer-file", ["-sf", os.path.join(root, "Clips.txt")], None),
        ("sf/sibling-prefix", ["-sf", os.path.join(root, "Clips_proxy", "y.mov")], None),
        ("sf/sibling-short", ["-sf", os.path.join(root, "Clip", "short.mov")], None),
        ("sf/sibling-space", ["-sf", os.path.join(root, "Clips ", "space.mov")], None),
        ("sf/relative", ["-sf", "y.mov"], os.path.join(root, "Clips_proxy")),
        ("sf/relative-from-root", ["-sf", os.path.join("Clips_proxy", "y.mov")], root),
        ("sf/verbose", ["-v", "-sf", os.path.join(root, "Clips.txt")], None),
        ("sf/twice", ["-sf", os.path.join(root, "Clips.txt"), "-sf", os.path.join(root, "Clips.txt")], None),
        ("sf/dotdot-out-of-history", ["-sf", os.path.join(root, "Clips", "..", "Clips.txt")], None),
    ]:
        cid = f"nohistory/{name}"
        if run.want(cid):
            check_nohistory(run, cid, ("nohistory", name), args, cwd, "nohistory-sf")
    # the history inside is still found from files below it
    for f, sp in [("Clips/x.mov", "abs"), ("Clips/sub/z.mov", "abs"), ("Clips/sub/z.mov", "cwd-dir"), ("Clips/x.mov", "cwd-out")]:
        cid = f"nohistory/inner/{f}/{sp}"
        if run.want(cid):
            args, cwd, named, times = sf_invocation(sp, root, base, f, None)
            if sp == "cwd-out":
                args = ["-sf", os.path.join("p", f)]
            check_sf(run, cid, ("nohistory-inner", f, sp), root, named, args, cwd, times)
    # a history folder that was removed again
    root2 = os.path.join(base, "removed")
    W.build(root2, TREES["flat"])
    clock.tick()
    W.run("create", [root2, "-h", "md5"])
    shutil.rmtree(os.path.join(root2, "ascmhl"))
    for name, args in [("folder/removed", [root2]), ("sf/removed", ["-sf", os.path.join(root2, "a.txt")])]:
        cid = f"nohistory/{name}"
        if run.want(cid):
            check_nohistory(run, cid, ("nohistory", name), args, None, "nohistory-" + name.split("/")[0])
    # a regular file that is merely called ascmhl does not make its folder a history: the files next to it belong to
    # the history of the root, and the folder itself has none
    root4 = os.path.join(base, "regular")
    W.build(root4, {"sub/ascmhl": "a regular file", "sub/s.txt": "s", "sub/deeper/d.txt": "d", "top.txt": "t"})
    clock.tick()
    W.run("create", [root4, "-h", "md5"])
    clock.tick()
    W.run("create", [root4, "-h", "c4"])
    _GENS.clear()
    for f in ("top.txt", "sub/s.txt", "sub/deeper/d.txt"):
        cid = f"lookalike/ascmhl-regular-file/sf/{f}"
        if run.want(cid):
            check_sf(run, cid, ("lookalike", f), root4, [f], ["-sf", os.path.join(root4, f)], None, wc="sf-ascmhl-regular-file")
    cid = "lookalike/ascmhl-regular-file/folder/."
    if run.want(cid):
        check_folder(run, cid, ("lookalike", "."), root4, [root4], None)
    cid = "lookalike/ascmhl-regular-file/folder/sub"
    if run.want(cid):
        check_nohistory(run, cid, ("lookalike", "sub"), [os.path.join(root4, "sub")], None, "nohistory-folder-ascmhl-regular-file")
    # a tree that never had one
    root3 = os.path.join(base, "never")
    W.build(root3, TREES["deep"])
    for name, args in [("folder/never", [root3]), ("folder/never-sub", [os.path.join(root3, "A", "deep")]), ("sf/never", ["-sf", os.path.join(root3, "A", "deep", "x.bin")]), ("sf/never-empty-file", ["-sf", os.path.join(root3, "z", "empty.bin")])]:
        cid = f"nohistory/{name}"
        if run.want(cid):
            check_nohistory(run, cid, ("nohistory", name), args, None, "nohistory-" + name.split("/")[0])


# ------------------------------------------------------------------------------------------------ main
QUICK_FULL = {("deep", 3), ("prefix", 2)}
QUICK_MANY = {("flat", 0), ("twins", 1)}
QUICK_EXTRA = {
    ("deep", 0): {"latenest", "latenest+outer"},
    ("levels", 0): {"latenest+outer"},
    ("names", 0): {"latenest"},
    ("levels", 1): {"nestedsolo", "fail"},
    ("twins", 0): {"nestedsolo", "nestedfail"},
    ("big", 1): {"fail", "sfgen"},
    ("links", 1): {"nestedsolo"},
}


def quick_selection(tree, ni, names, seed):
    """the scripts played on one (tree, placement) in the quick tier: everything on two rich worlds, two rotating scripts
    elsewhere (the seed shifts the rotation), the long history on two small worlds"""
    rest = [n for n in names if n not in ("one", "many")]
    if (tree, ni) in QUICK_FULL:
        pick = set(rest)
    else:
        k = sum(map(ord, tree)) + 5 * ni + seed
        pick = {rest[k % len(rest)], rest[(k * 7 + 3) % len(rest)]}
        if len(TREES[tree]) == 0:
            pick.add("one")
    if (tree, ni) in QUICK_MANY:
        pick.add("many")
    return (pick | QUICK_EXTRA.get((tree, ni), set())) & set(names)


def main():
    run = Run(
        "C19",
        rule="world = (tree, nested-history placement, history script); case = one info question on a world: folder mode on every "
        "history of the world (root spelled abs / trailing slash / relative / '.' / '..' / symlink / -v), on every folder without a "
        "history (expects 30), and -sf on every file on disk (spelled abs / relative to its folder / relative from outside the root / "
        "with '..' / twice / two files / -v / long option); non-trivial = distinct (world, question) whose history exists and is "
        "consistent with its chain file; oracle = manifests read with xml.etree",
        bound="14 trees (<= 8 entries, depth <= 4, names with spaces / NFC+NFD twins / XML-special / U+2028 / prefix siblings, file symlinks, "
        "sizes 0 and 2^20-1..2^20+1), <= 4 nested histories up to 3 deep, 12 scripts of <= 12 generations (27 thorough): format mixes, "
        "failed generations in several orders, -sf and -n generations, renames (-dr), files added / removed / never recorded, ignore "
        "patterns (-i, -ii, slash, negation), nested histories sealed on their own or created late, 6 time zones incl. POSIX DST strings; "
        "one history renumbered by hand to generations 1, 9999, 10000, 10001; create killed at every file-system event followed by verify + create; 28 no-history questions; a regular file called ascmhl next to recorded files",
    )
    clock = Clock()
    try:
        fsets = S.format_sets(run.tier)
        wn = 0
        for tree in TREES:
            for ni, nested in enumerate(NESTED[tree]):
                # (thorough: the 22-generation format mix and the 27-generation history on the first placement of every tree)
                scr = scripts(TREES[tree], nested, run.tier, fsets, rich=ni == 0)
                pick = set(scr) if run.tier == "thorough" or run.only else quick_selection(tree, ni, list(scr), run.seed)
                for sname, steps in scr.items():
                    if sname not in pick:
                        continue
                    wid = f"{tree}/{ni}/{sname}"
                    if run.only and not run.only.startswith(wid + "/"):
                        continue
                    wn += 1
                    tmp = os.path.join(run.tmp, f"w{wn}")
                    root = os.path.join(tmp, "t")
                    clock.reset()
                    set_tz(ORIG_TZ)
                    _GENS.clear()
                    play(root, tmp, TREES[tree], steps, clock)
                    # the questions are asked in another zone than the one of the last generation
                    set_tz(["UTC", "Australia/Lord_Howe", "America/St_Johns"][(wn + run.seed) % 3])
                    query_world(run, wid, root, tmp, run.tier)
                    set_tz(ORIG_TZ)
                    shutil.rmtree(tmp, ignore_errors=True)
        set_tz(ORIG_TZ)
        # ---- generation numbers beyond four digits and with a gap (outer history 1, 9999, 10000, 10001; nested 1..5)
        wid = "deep/1/renumbered"
        if run.only is None or run.only.startswith(wid + "/"):
            tmp = os.path.join(run.tmp, "renumbered")
            root = os.path.join(tmp, "t")
            clock.reset()
            _GENS.clear()
            play(root, tmp, TREES["deep"], [C("A", ["xxh64"]), C("", ["md5"]), C("", ["c4"])], clock)
            renumber(root, 2, 9999)
            play(root, tmp, {}, [C("", ["xxh64"]), ("W", "A/a.txt", "CHANGED"), C("", ["md5"], ["-n"])], clock)
            query_world(run, wid, root, tmp, run.tier)
            shutil.rmtree(tmp, ignore_errors=True)
        # ---- a manifest far beyond one parser block (lxml feeds iterparse in 32 KiB blocks): 300 files x 4 digests, all asked at once
        wid = "big/0/manifest-over-32KiB"
        if run.only is None or run.only.startswith(wid + "/"):
            tmp = os.path.join(run.tmp, "big")
            root = os.path.join(tmp, "t")
            clock.reset()
            _GENS.clear()
            big = {f"d{j:02d}/f{i:03d}.bin": f"{i}-{j}" for j in range(6) for i in range(50)}
            play(root, tmp, big, [C("", ["md5", "sha1", "xxh128", "c4"]), C("", ["xxh64"], ["-n"])], clock)
            files = sorted(big)
            for part, sel in (("all", files), ("every-7th", files[::7])):
                args = [root] + sum((["-sf", os.path.join(root, f)] for f in sel), [])
                check_sf(run, f"{wid}/sf-{part}", ("big", part), root, sel, args, tmp)
            shutil.rmtree(tmp, ignore_errors=True)
        if run.only is None or run.only.startswith(("nohistory/", "lookalike/")):
            nohistory_part(run, clock)
        if run.only is None or run.only.startswith("crash/"):
            crash_part(run, clock, run.tier)
    finally:
        set_tz(ORIG_TZ)
        clock.stop()
    run.finish()


if __name__ == "__main__":
    main()
